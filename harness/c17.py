"""C17: percolation-based probability/size estimators compute what they document.
Theorems: coq/Props/C17.v over Model/Percolation.v (reachability closure = reachable
set without running out of fuel, strongly connected components = classes of mutual
reachability, estimator formula for WHICHEVER largest component / element is picked,
builders: same nodes, arc iff the rule fired).  Tie: the extracted model and /repo's
functions are run on the same graphs / rule tables / scripted draws.  Failing-input
search: brute-force reachability and components in plain Python (independent of the
model) applied to the implementation's outputs."""
import itertools, json
from fractions import Fraction as F
from . import common as C

CLAIM = dict(
    text="Machine-checked theorems (coq/Props/C17.v, closed under the global context) over an executable model of _out_component_/_in_component_, "
         "estimate_SIR_prob_size_from_dir_perc, estimate_SIR_prob_size/percolate_network and the three directed-percolation builders, for ALL "
         "well-formed graphs and ALL user rules (oracle functions): the closure returns exactly the reachable set and never runs out of fuel; "
         "the components are the classes of mutual reachability; PE = |nodes that reach C|/N and AR = |nodes reachable from C|/N in [0,1] for "
         "whichever largest component C and whichever of its elements is picked; an empty graph gives ValueError; estimate_SIR_prob_size returns "
         "(c,c) with c the largest-component fraction of the percolated graph; the builders keep G's nodes and contain u->v exactly when the "
         "rule fired for (u,v). Tie: extracted model vs implementation on every digraph with <=3 (quick) / <=4 (thorough) nodes, random digraphs "
         "<=12 nodes with permuted int/str/tuple labels, rule tables and scripted random draws; brute-force reachability oracle on the implementation's outputs.",
    design='DESIGN.md section 4, C17',
    technique='Coq proof over hand-written model + extracted-model/implementation correspondence + independent brute-force oracle',
    note="networkx primitives (descendants, ancestors, strongly_connected_components, connected_components, max(key=len)) are modelled by their "
         "specification; which of several equally large components max() returns is implementation-dependent, so the theorem and the comparison "
         "hold for/accept any largest one. Contact networks are simple graphs (no self-loops).")

INF = float('inf')


def nkey(x):
    return (not isinstance(x, int), x if isinstance(x, int) else repr(x))


# ------------------------------------------------------------------ labels / graphs
def labels_of(scheme, perm):
    if scheme == 'int':
        return [p for p in perm]
    if scheme == 'int5':
        return [p + 5 for p in perm]
    if scheme == 'str':
        return ['v%d' % p for p in perm]
    return [(p // 3, p % 3) for p in perm]


def build(nx, case, key='arcs', directed=None):
    """networkx graph of a case: nodes first (so list(G.nodes()) is the index order), then arcs in the given order"""
    labels = labels_of(case['scheme'], case['perm'])
    d = case['directed'] if directed is None else directed
    G = nx.DiGraph() if d else nx.Graph()
    G.add_nodes_from(labels)
    for u, v in case[key]:
        G.add_edge(labels[u], labels[v])
    return G, labels, {l: i for i, l in enumerate(labels)}


def graph_tokens(G, idx):
    """the token format of ocaml/glue_graph.ml read_graph"""
    nodes = list(G.nodes())
    n = len(nodes)
    t = [str(n), '1' if G.is_directed() else '0']
    for u in nodes:
        nb = [idx[v] for v in G.neighbors(u)]
        t += [str(len(nb))] + [str(x) for x in nb]
    for u in nodes:
        pr = [idx[v] for v in (G.predecessors(u) if G.is_directed() else G.neighbors(u))]
        t += [str(len(pr))] + [str(x) for x in pr]
    t += ['0', '0'] + ['1 1'] * n + ['0']
    return ' '.join(t)


# ------------------------------------------------------------------ brute-force oracle
def reach_matrix(n, arcs):
    r = [[i == j for j in range(n)] for i in range(n)]
    for u, v in arcs:
        r[u][v] = True
    for k in range(n):
        for i in range(n):
            if r[i][k]:
                rk = r[k]; ri = r[i]
                for j in range(n):
                    if rk[j]: ri[j] = True
    return r


def oracle_sccs(n, r):
    out = []; done = set()
    for i in range(n):
        if i in done: continue
        c = frozenset(j for j in range(n) if r[i][j] and r[j][i])
        out.append(c); done |= c
    return out


def oracle_answers(n, arcs):
    """the set of (PE, AR) pairs the documentation allows: one per largest strongly connected component"""
    if n == 0:
        return None
    r = reach_matrix(n, arcs)
    cs = oracle_sccs(n, r)
    m = max(len(c) for c in cs)
    ans = set()
    for c in cs:
        if len(c) == m:
            pe = sum(1 for x in range(n) if any(r[x][y] for y in c))
            ar = sum(1 for x in range(n) if any(r[y][x] for y in c))
            ans.add((F(pe, n), F(ar, n)))
    return ans


def in_answers(pair, ans):
    return any(C.close(pair[0], float(a)) and C.close(pair[1], float(b)) for a, b in ans)


def digraph_arcs(G, idx):
    if G.is_directed():
        return [(idx[u], idx[v]) for u, v in G.edges()]
    return [(idx[u], idx[v]) for u, v in G.edges()] + [(idx[v], idx[u]) for u, v in G.edges()]


def parse_answers(tok):
    """'OK a/b:c/d ...' -> set of Fraction pairs; 'ERR name' -> name"""
    tk = tok.split()
    if not tk: return ('BAD', tok)
    if tk[0] == 'ERR': return ('ERR', tk[1])
    return ('OK', {tuple(F(x) for x in p.split(':')) for p in tk[1:]})


def call_impl(f, *a, **k):
    try:
        return ('OK', f(*a, **k))
    except Exception as e:
        return ('ERR', type(e).__name__)


class Script:
    """stand-in for the module `random` inside EoN.simulation: pops scripted values, logs the calls"""
    def __init__(self, draws):
        self.draws = list(draws); self.i = 0; self.log = []
    def _pop(self):
        if self.i >= len(self.draws):
            raise EOFError('script exhausted')
        v = self.draws[self.i]; self.i += 1
        return float(v)
    def random(self):
        self.log.append('U'); return self._pop()
    def expovariate(self, rate):
        self.log.append('E:%s' % F(rate))
        if rate == 0: raise ZeroDivisionError('float division by zero')
        return self._pop()


def xtok(x):
    return '0' if x is None else '1 ' + C.qtok(x)


def xf(x):
    return INF if x is None else float(x)


def xs(x):
    return 'inf' if (x is None or x == INF) else '%d/%d' % (F(x).numerator, F(x).denominator)


# ------------------------------------------------------------------ one case of each kind
def case_est(EoN, nx, sim, case):
    """estimate_SIR_prob_size_from_dir_perc, _out_component_, _in_component_, nx SCCs on a digraph H"""
    H, labels, idx = build(nx, case, directed=True)
    n = len(labels); arcs = [tuple(a) for a in case['arcs']]
    line = 'ESTALL ' + graph_tokens(H, idx)
    impl = {}
    r = call_impl(EoN.estimate_SIR_prob_size_from_dir_perc, H)
    impl['est'] = r
    comps = []
    for u in labels:
        o = call_impl(sim._out_component_, H, u); i = call_impl(sim._in_component_, H, u)
        comps.append((sorted(idx[x] for x in o[1]) if o[0] == 'OK' else o[1], sorted(idx[x] for x in i[1]) if i[0] == 'OK' else i[1]))
    impl['comps'] = comps
    impl['scc'] = sorted(sorted(idx[x] for x in c) for c in nx.strongly_connected_components(H))
    # oracle
    bad = None
    rm = reach_matrix(n, arcs)
    for u in range(n):
        eo = [v for v in range(n) if rm[u][v]]; ei = [v for v in range(n) if rm[v][u]]
        if comps[u][0] != eo:
            bad = ('_out_component_', '_out_component_(H,%r) = %r, nodes reachable from it (itself included) are %r' % (labels[u], comps[u][0], eo)); break
        if comps[u][1] != ei:
            bad = ('_in_component_', '_in_component_(H,%r) = %r, nodes that reach it (itself included) are %r' % (labels[u], comps[u][1], ei)); break
    ans = oracle_answers(n, arcs)
    if bad is None:
        if ans is None:
            if r[0] != 'ERR':
                bad = ('estimate_SIR_prob_size_from_dir_perc', 'graph without nodes: returned %r instead of raising' % (r[1],))
        elif r[0] != 'OK':
            bad = ('estimate_SIR_prob_size_from_dir_perc', 'raised %s on a digraph with %d nodes' % (r[1], n))
        elif not in_answers(r[1], ans) or not (0 <= r[1][0] <= 1 and 0 <= r[1][1] <= 1):
            bad = ('estimate_SIR_prob_size_from_dir_perc', 'returned (PE,AR)=%r; the largest strongly connected components allow only %s' % (tuple(r[1]), sorted((str(a), str(b)) for a, b in ans)))
    return line, impl, bad


def cmp_est(impl, mo):
    """model output of ESTALL: '<answers> | COMPS u:o,o:i,i ... | SCC a,b|c'"""
    parts = [p.strip() for p in mo.split(' | ')]
    if len(parts) != 3: return 'model output malformed: %r' % mo[:200]
    ma = parse_answers(parts[0])
    r = impl['est']
    if ma[0] == 'ERR':
        if r != ('ERR', ma[1]): return 'estimator: model raises %s, implementation gives %r' % (ma[1], r)
    elif ma[0] == 'OK':
        if r[0] != 'OK' or not in_answers(r[1], ma[1]):
            return 'estimator: model allows %s, implementation gives %r' % (sorted((str(a), str(b)) for a, b in ma[1]), r)
    else:
        return 'model output malformed: %r' % parts[0]
    mc = []
    for t in parts[1].split()[1:]:
        u, o, i = t.split(':')
        mc.append(([int(x) for x in o.split(',') if x], [int(x) for x in i.split(',') if x]))
    if mc != [(list(a), list(b)) for a, b in impl['comps']]:
        d = next((k for k, (a, b) in enumerate(zip(mc, impl['comps'])) if a != (list(b[0]), list(b[1]))), None)
        return 'components of node %r: model %r, implementation %r' % (d, mc[d] if d is not None else None, impl['comps'][d] if d is not None else None)
    ms = sorted(sorted(int(x) for x in c.split(',') if x) for c in parts[2].split()[1].split('|')) if len(parts[2].split()) > 1 else []
    if ms != impl['scc']:
        return 'strongly connected components: model %r, networkx %r' % (ms, impl['scc'])
    return None


def case_comp(EoN, nx, sim, case):
    """_out_component_/_in_component_ with an iterable of sources (list/set/tuple) or a non-node"""
    H, labels, idx = build(nx, case, directed=True)
    n = len(labels); arcs = [tuple(a) for a in case['arcs']]
    srcs = case['srcs']; d = case['dir']
    f = sim._out_component_ if d == 'O' else sim._in_component_
    if case['one']:
        arg = srcs[0] if srcs[0] < 1000 else srcs[0]      # a number that is not a node
        arg = labels[arg] if arg < n else arg
    else:
        arg = [labels[s] for s in srcs]
        arg = {'list': list, 'set': set, 'tuple': tuple}[case['container']](arg)
        if case['container'] == 'tuple' and H.has_node(arg): arg = list(arg)
    r = call_impl(f, H, arg)
    impl = ('OK', sorted(idx[x] for x in r[1])) if r[0] == 'OK' else r
    line = 'COMP %s %s %d %d %s' % (graph_tokens(H, idx), d, 1 if case['one'] else 0, len(srcs), ' '.join(str(s) for s in srcs))
    bad = None
    if not case['one'] or srcs[0] < n:
        rm = reach_matrix(n, arcs)
        exp = sorted(v for v in range(n) if any((rm[s][v] if d == 'O' else rm[v][s]) for s in srcs))
        if impl != ('OK', exp):
            nm = '_out_component_' if d == 'O' else '_in_component_'
            bad = (nm, '%s(H,%r) = %r; the %s set of the sources (sources included) is %r' % (nm, arg, impl[1], 'reachable' if d == 'O' else 'co-reachable', exp))
    return line, impl, bad


def cmp_comp(impl, mo):
    tk = mo.split()
    m = ('OK', [int(x) for x in tk[1].split(',') if x] if len(tk) > 1 else []) if tk and tk[0] == 'OK' else ('ERR', tk[1] if len(tk) > 1 else mo)
    return None if m == impl else 'model %r, implementation %r' % (m, impl)


def view_H(H, idx):
    v = {'type': type(H).__name__, 'nodes': [idx.get(x, repr(x)) for x in H.nodes()],
         'edges': sorted((idx[a], idx[b]) for a, b in H.edges()),
         'dur': sorted((idx[u], xs(d['duration'])) for u, d in H.nodes(data=True) if 'duration' in d),
         'delay': sorted((idx[a], idx[b], xs(d['delay_to_infection'])) for a, b, d in H.edges(data=True) if 'delay_to_infection' in d),
         'otherattrs': sorted({k for _, d in H.nodes(data=True) for k in d if k != 'duration'} | {k for _, _, d in H.edges(data=True) for k in d if k != 'delay_to_infection'})}
    return v


def parse_pg(mo):
    """'OK N a,b E u>v,.. D u=x,.. T u>v=x,.. [CALLS ..] EST <answers> [| TRACE ..]'"""
    body, _, trace = mo.partition(' | TRACE')
    tk = body.split()
    if not tk or tk[0] != 'OK':
        return {'err': tk[1] if len(tk) > 1 else mo, 'trace': trace.split()}
    def field(name, stop):
        i = tk.index(name); j = min([tk.index(s) for s in stop if s in tk[i:]] + [len(tk)])
        return tk[i + 1:j]
    names = ['N', 'E', 'D', 'T', 'CALLS', 'EST']
    def f(name):
        i = names.index(name)
        return field(name, names[i + 1:]) if name in tk else []
    one = lambda name: (f(name)[0].split(',') if f(name) else [])
    return {'nodes': [int(x) for x in one('N')],
            'edges': sorted(tuple(int(y) for y in x.split('>')) for x in one('E')),
            'dur': sorted((int(x.split('=')[0]), x.split('=')[1]) for x in one('D')),
            'delay': sorted((int(x.split('=')[0].split('>')[0]), int(x.split('=')[0].split('>')[1]), x.split('=')[1]) for x in one('T')),
            'calls': f('CALLS'), 'est': parse_answers(' '.join(f('EST'))), 'trace': trace.split()}


def norm_x(s):
    return s if s == 'inf' else '%d/%d' % (F(s).numerator, F(s).denominator)


def cmp_pg(view, m, what='builder'):
    if 'err' in m:
        return '%s: model raises %s, implementation returned a graph' % (what, m['err'])
    if sorted(view['nodes'], key=nkey) != sorted(m['nodes'], key=nkey):
        return '%s: node set: model %r, implementation %r' % (what, sorted(m['nodes']), view['nodes'])
    if view['edges'] != m['edges']:
        return '%s: arcs: model %r, implementation %r' % (what, m['edges'], view['edges'])
    if view['dur'] != [(u, norm_x(x)) for u, x in m['dur']]:
        return '%s: duration attributes: model %r, implementation %r' % (what, m['dur'], view['dur'])
    if view['delay'] != [(u, v, norm_x(x)) for u, v, x in m['delay']]:
        return '%s: delay attributes: model %r, implementation %r' % (what, m['delay'], view['delay'])
    return None


def case_ptim(EoN, nx, sim, case):
    """nonMarkov_directed_percolate_network_with_timing + estimate_nonMarkov_SIR_prob_size_with_timing with table rules"""
    G, labels, idx = build(nx, case)
    n = len(labels)
    durs = [None if d is None else F(d) for d in case['durs']]
    dels = {(u, v): (None if d is None else F(d)) for u, v, d in case['delays']}
    calls = []
    extra = ('a', 'b')
    def rec(u, *a):
        assert a == extra[:1]
        calls.append('r%d' % idx[u]); return xf(durs[idx[u]])
    def trans(u, v, *a):
        assert a == extra
        calls.append('t%d>%d' % (idx[u], idx[v])); return xf(dels[(idx[u], idx[v])])
    w = case['weights']
    r = call_impl(EoN.nonMarkov_directed_percolate_network_with_timing, G, trans, rec, trans_time_args=extra, rec_time_args=extra[:1], weights=w)
    impl = {'H': view_H(r[1], idx) if r[0] == 'OK' else None, 'err': r[1] if r[0] != 'OK' else None, 'calls': list(calls)}
    del calls[:]
    e = call_impl(EoN.estimate_nonMarkov_SIR_prob_size_with_timing, G, trans, rec, trans_time_args=extra, rec_time_args=extra[:1])
    impl['est'] = e
    pairs = [(idx[u], idx[v]) for u in G.nodes() for v in G.neighbors(u)]
    line = 'PTIM %s %d %s %d %s' % (graph_tokens(G, idx), 1 if w else 0, ' '.join(xtok(d) for d in durs), len(pairs),
                                     ' '.join('%d %d %s' % (u, v, xtok(dels[(u, v)])) for u, v in pairs))
    # oracle: same nodes; arc iff the rule fired (delay <= duration); attributes as documented
    bad = None
    nm = 'nonMarkov_directed_percolate_network_with_timing'
    fired = sorted((u, v) for u, v in pairs if xf(dels[(u, v)]) <= xf(durs[u]))
    if r[0] != 'OK':
        bad = (nm, 'raised %s' % r[1])
    else:
        v = impl['H']
        if v['type'] != 'DiGraph' or sorted(v['nodes'], key=nkey) != list(range(n)):
            bad = (nm, 'returned a %s with nodes %r; G has nodes %r' % (v['type'], v['nodes'], list(range(n))))
        elif v['edges'] != fired:
            bad = (nm, 'arcs %r; the rule (delay <= duration) fired exactly for %r' % (v['edges'], fired))
        elif w and (v['dur'] != sorted((u, xs(durs[u])) for u in range(n)) or v['delay'] != sorted((a, b, xs(dels[(a, b)])) for a, b in fired)):
            bad = (nm, 'weights=True: duration/delay_to_infection attributes %r / %r do not record the values the rules returned' % (v['dur'], v['delay']))
        elif not w and (v['dur'] or v['delay'] or v['otherattrs']):
            bad = (nm, 'weights=False but attributes are present')
    if bad is None:
        ans = oracle_answers(n, fired)
        if ans is None:
            if e[0] != 'ERR': bad = ('estimate_nonMarkov_SIR_prob_size_with_timing', 'graph without nodes: returned %r' % (e[1],))
        elif e[0] != 'OK' or not in_answers(e[1], ans):
            bad = ('estimate_nonMarkov_SIR_prob_size_with_timing', 'returned %r; the percolated graph %r allows only %s' % (e[1], fired, sorted((str(a), str(b)) for a, b in ans)))
    return line, impl, bad


def cmp_ptim(impl, mo):
    m = parse_pg(mo)
    if impl['err']:
        return None if m.get('err') == impl['err'] else 'model %r, implementation raises %s' % (m.get('err', 'a graph'), impl['err'])
    c = cmp_pg(impl['H'], m)
    if c: return c
    if impl['calls'] != m['calls']:
        return 'calls to the user rules: model %r, implementation %r' % (m['calls'][:12], impl['calls'][:12])
    return cmp_answer(impl['est'], m['est'])


def cmp_answer(e, ma):
    if ma[0] == 'ERR':
        return None if e == ('ERR', ma[1]) else 'estimator: model raises %s, implementation gives %r' % (ma[1], e)
    if ma[0] != 'OK': return 'model output malformed'
    if e[0] != 'OK' or not in_answers(e[1], ma[1]):
        return 'estimator: model allows %s, implementation gives %r' % (sorted((str(a), str(b)) for a, b in ma[1]), e)
    return None


def case_pnm(EoN, nx, sim, case):
    """nonMarkov_directed_percolate_network / estimate_nonMarkov_SIR_prob_size with dict + table rules"""
    G, labels, idx = build(nx, case)
    n = len(labels)
    fire = {tuple(x) for x in case['fire']}
    xi = {labels[i]: ('xi', i) for i in range(n) if i not in case['xi_missing']}
    zeta = {labels[i]: ['zeta', i] for i in range(n) if i not in case['zeta_missing']}
    calls = []
    def transmission(a, b):
        assert a[0] == 'xi' and b[0] == 'zeta'
        calls.append((a[1], b[1]))
        return (a[1], b[1]) in fire
    r = call_impl(EoN.nonMarkov_directed_percolate_network, G, xi, zeta, transmission)
    impl = {'H': view_H(r[1], idx) if r[0] == 'OK' else None, 'err': r[1] if r[0] != 'OK' else None}
    e = call_impl(EoN.estimate_nonMarkov_SIR_prob_size, G, xi, zeta, transmission)
    impl['est'] = e
    line = 'PNM %s %s %s %d %s' % (graph_tokens(G, idx), ' '.join('0' if i in case['xi_missing'] else '1' for i in range(n)),
                                    ' '.join('0' if i in case['zeta_missing'] else '1' for i in range(n)), len(fire),
                                    ' '.join('%d %d' % p for p in sorted(fire)))
    bad = None
    nm = 'nonMarkov_directed_percolate_network'
    if not case['xi_missing'] and not case['zeta_missing']:
        pairs = [(idx[u], idx[v]) for u in G.nodes() for v in G.neighbors(u)]
        fired = sorted(p for p in pairs if p in fire)
        if r[0] != 'OK':
            bad = (nm, 'raised %s' % r[1])
        else:
            v = impl['H']
            if v['type'] != 'DiGraph' or sorted(v['nodes'], key=nkey) != list(range(n)):
                bad = (nm, 'returned a %s with nodes %r; G has nodes %r' % (v['type'], v['nodes'], list(range(n))))
            elif v['edges'] != fired:
                bad = (nm, 'arcs %r; transmission(xi[u],zeta[v]) is True exactly for %r' % (v['edges'], fired))
        if bad is None:
            ans = oracle_answers(n, fired)
            if ans is None:
                if e[0] != 'ERR': bad = ('estimate_nonMarkov_SIR_prob_size', 'graph without nodes: returned %r' % (e[1],))
            elif e[0] != 'OK' or not in_answers(e[1], ans):
                bad = ('estimate_nonMarkov_SIR_prob_size', 'returned %r; the percolated graph %r allows only %s' % (e[1], fired, sorted((str(a), str(b)) for a, b in ans)))
    return line, impl, bad


def cmp_pnm(impl, mo):
    m = parse_pg(mo)
    if impl['err'] or 'err' in m:
        return None if m.get('err') == impl['err'] else 'model %r, implementation %r' % (m.get('err', 'a graph'), impl['err'] or 'a graph')
    c = cmp_pg(impl['H'], m)
    if c: return c
    return cmp_answer(impl['est'], m['est'])


def components_undirected(n, edges):
    r = reach_matrix(n, list(edges) + [(b, a) for a, b in edges])
    return oracle_sccs(n, r)


def case_perc(EoN, nx, sim, case):
    """percolate_network and estimate_SIR_prob_size under scripted random.random()"""
    G, labels, idx = build(nx, case)
    n = len(labels)
    p = F(case['p']); draws = [F(d) for d in case['draws']]
    old = sim.random
    try:
        s1 = Script(draws); sim.random = s1
        r = call_impl(EoN.percolate_network, G, float(p))
        s2 = Script(draws); sim.random = s2
        e = call_impl(EoN.estimate_SIR_prob_size, G, float(p))
    finally:
        sim.random = old
    gedges = [(idx[u], idx[v]) for u, v in G.edges()]
    impl = {'gedges': gedges, 'err': r[1] if r[0] != 'OK' else None, 'est': e, 'ncalls': (len(s1.log), len(s2.log))}
    if r[0] == 'OK':
        H = r[1]
        impl['H'] = {'type': type(H).__name__, 'nodes': [idx.get(x, repr(x)) for x in H.nodes()],
                     'edges': sorted(tuple(sorted((idx[a], idx[b]))) for a, b in H.edges())}
    line = 'PERC %s %s %d %s' % (graph_tokens(G, idx), C.qtok(p), len(draws), ' '.join(C.qtok(d) for d in draws))
    bad = None
    if len(draws) >= len(gedges):
        kept = sorted({tuple(sorted(ed)) for ed, d in zip(gedges, draws) if d < p})
        if r[0] != 'OK':
            bad = ('percolate_network', 'raised %s' % r[1])
        elif impl['H']['type'] != 'Graph' or sorted(impl['H']['nodes'], key=nkey) != list(range(n)) or impl['H']['edges'] != kept:
            bad = ('percolate_network', 'returned %s nodes %r edges %r; edges whose draw was below p: %r' % (impl['H']['type'], impl['H']['nodes'], impl['H']['edges'], kept))
        elif n == 0:
            if e[0] != 'ERR': bad = ('estimate_SIR_prob_size', 'graph without nodes: returned %r' % (e[1],))
        else:
            c = F(max(len(cc) for cc in components_undirected(n, kept)), n)
            if e[0] != 'OK' or not (C.close(e[1][0], float(c)) and C.close(e[1][1], float(c))):
                bad = ('estimate_SIR_prob_size', 'returned %r; largest component fraction of the percolated network %r is %s' % (e[1], kept, c))
    return line, impl, bad


def cmp_perc(impl, mo):
    a, _, b = mo.partition(' | EST ')
    tk = a.split()
    if not tk or tk[0] != 'EDGES': return 'model output malformed: %r' % mo[:100]
    i = 1
    medges = []
    if tk[i] not in ('OK', 'ERR'):
        medges = [tuple(int(x) for x in e.split('-')) for e in tk[i].split(',')]; i += 1
    if medges != impl['gedges']:
        return 'list(G.edges()): model %r, networkx %r' % (medges, impl['gedges'])
    body, _, trace = ' '.join(tk[i:]).partition(' | TRACE')
    bt = body.split()
    if bt[0] == 'ERR':
        # the only model error here is a script that is too short: the implementation's stand-in raises EOFError
        if not (impl['err'] == 'EOFError' and bt[1] == 'OutOfDraws'): return 'percolate_network: model %s, implementation %r' % (bt[1], impl['err'] or 'a graph')
    else:
        if impl['err']: return 'percolate_network: model returns a graph, implementation raises %s' % impl['err']
        mn = [int(x) for x in bt[bt.index('N') + 1].split(',')] if bt[bt.index('N') + 1] != 'E' else []
        ei = bt.index('E')
        me = sorted(tuple(int(x) for x in e.split('-')) for e in bt[ei + 1].split(',')) if ei + 1 < len(bt) and bt[ei + 1] != 'SIZE' else []
        if mn != impl['H']['nodes'] or me != impl['H']['edges']:
            return 'percolate_network: model nodes %r edges %r, implementation nodes %r edges %r' % (mn, me, impl['H']['nodes'], impl['H']['edges'])
        if len(medges) != impl['ncalls'][0] or len(medges) != impl['ncalls'][1]:
            return 'percolate_network: model consumes one draw per edge (%d), implementation called random.random %r times' % (len(medges), impl['ncalls'])
    eb, _, etr = b.partition(' | TRACE')
    et = eb.split()
    e = impl['est']
    if et[0] == 'ERR':
        want = 'EOFError' if et[1] == 'OutOfDraws' else et[1]
        if e != ('ERR', want): return 'estimate_SIR_prob_size: model raises %s, implementation gives %r' % (et[1], e)
    else:
        pe, ar = (F(x) for x in et[1].split(':'))
        if e[0] != 'OK' or not (C.close(e[1][0], float(pe)) and C.close(e[1][1], float(ar))):
            return 'estimate_SIR_prob_size: model (%s,%s), implementation %r' % (pe, ar, e)
    return None


def case_dpn(EoN, nx, sim, case):
    """directed_percolate_network / estimate_directed_SIR_prob_size under scripted expovariate"""
    G, labels, idx = build(nx, case)
    n = len(labels)
    tau, gamma = F(case['tau']), F(case['gamma']); draws = [F(d) for d in case['draws']]
    w = case['weights']
    old = sim.random
    try:
        s1 = Script(draws); sim.random = s1
        r = call_impl(EoN.directed_percolate_network, G, float(tau), float(gamma), weights=w)
        s2 = Script(draws); sim.random = s2
        e = call_impl(EoN.estimate_directed_SIR_prob_size, G, float(tau), float(gamma))
    finally:
        sim.random = old
    impl = {'H': view_H(r[1], idx) if r[0] == 'OK' else None, 'err': r[1] if r[0] != 'OK' else None, 'est': e, 'log': s1.log}
    line = 'DPN %s %s %s %d %d %s' % (graph_tokens(G, idx), C.qtok(tau), C.qtok(gamma), 1 if w else 0, len(draws), ' '.join(C.qtok(d) for d in draws))
    # oracle: replay the draws in the documented order (duration of u, then one delay per neighbour)
    bad = None
    it = iter(draws); fired = []; ok = True
    try:
        for u in G.nodes():
            du = float(next(it)) if gamma > 0 else INF
            for v in G.neighbors(u):
                d = float(next(it)) if tau > 0 else INF
                if d <= du: fired.append((idx[u], idx[v]))
    except StopIteration:
        ok = False
    if ok:
        fired.sort()
        if r[0] != 'OK':
            bad = ('directed_percolate_network', 'raised %s' % r[1])
        elif impl['H']['type'] != 'DiGraph' or sorted(impl['H']['nodes'], key=nkey) != list(range(n)) or impl['H']['edges'] != fired:
            bad = ('directed_percolate_network', 'nodes %r arcs %r; G has nodes %r and delay <= duration holds exactly for %r' % (impl['H']['nodes'], impl['H']['edges'], list(range(n)), fired))
        else:
            ans = oracle_answers(n, fired)
            if ans is None:
                if e[0] != 'ERR': bad = ('estimate_directed_SIR_prob_size', 'graph without nodes: returned %r' % (e[1],))
            elif e[0] != 'OK' or not in_answers(e[1], ans):
                bad = ('estimate_directed_SIR_prob_size', 'returned %r; the percolated graph %r allows only %s' % (e[1], fired, sorted((str(a), str(b)) for a, b in ans)))
    return line, impl, bad


def cmp_dpn(impl, mo):
    m = parse_pg(mo)
    if 'err' in m:
        want = 'EOFError' if m['err'] == 'OutOfDraws' else m['err']
        return None if impl['err'] == want else 'model raises %s, implementation %r' % (m['err'], impl['err'] or 'returns a graph')
    if impl['err']: return 'model returns a graph, implementation raises %s' % impl['err']
    c = cmp_pg(impl['H'], m)
    if c: return c
    mt = ['E:%s' % F(t.split(':')[1]) for t in m['trace']]
    if mt != impl['log']:
        return 'calls to random.expovariate: model %r, implementation %r' % (mt[:10], impl['log'][:10])
    return cmp_answer(impl['est'], m['est'])


def case_gin(EoN, nx, sim, case):
    """get_infected_nodes with explicit initial sets under scripted expovariate"""
    G, labels, idx = build(nx, case)
    n = len(labels)
    tau, gamma = F(case['tau']), F(case['gamma']); draws = [F(d) for d in case['draws']]
    def arg(spec):
        if spec is None: return None
        one, ids = spec
        if one: return labels[ids[0]] if ids[0] < n else ids[0]
        return [labels[i] for i in ids]
    inf, rec = case['inf'], case['rec']
    old = sim.random
    try:
        s1 = Script(draws); sim.random = s1
        r = call_impl(EoN.get_infected_nodes, G, float(tau), float(gamma), initial_infecteds=arg(inf), initial_recovereds=arg(rec))
    finally:
        sim.random = old
    impl = {'res': ('OK', sorted(idx[x] for x in r[1])) if r[0] == 'OK' else r, 'log': s1.log}
    tok = lambda spec: '0 0' if spec is None else '%d %d %s' % (1 if spec[0] else 0, len(spec[1]), ' '.join(str(i) for i in spec[1]))
    line = 'GIN %s %s %s %s %s %d %s' % (graph_tokens(G, idx), C.qtok(tau), C.qtok(gamma), tok(inf), tok(rec), len(draws), ' '.join(C.qtok(d) for d in draws))
    # oracle: the nodes reachable from the initial infecteds in the percolated network minus the recovered nodes
    bad = None
    I0 = set(inf[1]); R0 = set(rec[1]) if rec else set()
    valid = all(i < n for i in I0 | R0)
    if valid and I0 & R0:
        if r != ('ERR', 'EoNError'):
            bad = ('get_infected_nodes', 'overlapping initial sets: %r instead of EoNError' % (r,))
    elif valid:
        it = iter(draws); fired = []; ok = True
        try:
            for u in G.nodes():
                du = float(next(it)) if gamma > 0 else INF
                for v in G.neighbors(u):
                    d = float(next(it)) if tau > 0 else INF
                    if d <= du: fired.append((idx[u], idx[v]))
        except StopIteration:
            ok = False
        if ok:
            rm = reach_matrix(n, [(a, b) for a, b in fired if a not in R0 and b not in R0])
            exp = sorted(v for v in range(n) if any(rm[s0][v] for s0 in I0))
            if impl['res'] != ('OK', exp):
                bad = ('get_infected_nodes', 'returned %r; reachable from %r in the percolated network %r without the recovered nodes %r: %r' % (impl['res'][1], sorted(I0), fired, sorted(R0), exp))
    return line, impl, bad


def cmp_gin(impl, mo):
    body, _, trace = mo.partition(' | TRACE')
    tk = body.split()
    if tk[0] == 'ERR':
        want = 'EOFError' if tk[1] == 'OutOfDraws' else ('NetworkXError' if tk[1] == 'Exception' else tk[1])
        if impl['res'] != ('ERR', want): return 'model raises %s, implementation %r' % (tk[1], impl['res'])
    else:
        m = ('OK', [int(x) for x in tk[1].split(',') if x] if len(tk) > 1 else [])
        if m != impl['res']: return 'model %r, implementation %r' % (m, impl['res'])
    mt = ['E:%s' % F(t.split(':')[1]) for t in trace.split()]
    if mt != impl['log']:
        return 'calls to random.expovariate: model %r, implementation %r' % (mt[:10], impl['log'][:10])
    return None


KINDS = {'gin': (case_gin, cmp_gin), 'est': (case_est, cmp_est), 'comp': (case_comp, cmp_comp), 'ptim': (case_ptim, cmp_ptim),
         'pnm': (case_pnm, cmp_pnm), 'perc': (case_perc, cmp_perc), 'dpn': (case_dpn, cmp_dpn)}


# ------------------------------------------------------------------ generators
def all_digraphs(n):
    pairs = [(u, v) for u in range(n) for v in range(n) if u != v]
    for mask in range(1 << len(pairs)):
        yield [pairs[i] for i in range(len(pairs)) if mask >> i & 1]


def all_graphs(n):
    pairs = [(u, v) for u in range(n) for v in range(u + 1, n)]
    for mask in range(1 << len(pairs)):
        yield [pairs[i] for i in range(len(pairs)) if mask >> i & 1]


def rand_labels(rng, n):
    perm = list(range(n)); rng.shuffle(perm)
    return rng.choice(['int', 'int5', 'str', 'tup']), perm


def rand_arcs(rng, n, directed, dens=None):
    dens = dens if dens is not None else rng.choice([0.0, 0.1, 0.2, 0.35, 0.6])
    if directed:
        arcs = [(u, v) for u in range(n) for v in range(n) if u != v and rng.random() < dens]
    else:
        arcs = [(u, v) if rng.random() < 0.5 else (v, u) for u in range(n) for v in range(u + 1, n) if rng.random() < dens]
    rng.shuffle(arcs)
    return arcs


XVALS = [F(0), F(1, 2), F(1), F(1), F(2), F(3, 2), None]


def gen_cases(rng, tier):
    cases = []
    nmax = 3 if tier == 'quick' else 4
    # every digraph on <= nmax nodes: estimator + all single-source components + SCCs
    k = 0
    for n in range(0, nmax + 1):
        for arcs in all_digraphs(n):
            k += 1
            sch = ['int', 'str', 'tup', 'int5'][k % 4]
            perm = list(range(n))
            if k % 2: perm.reverse()
            cases.append(dict(kind='est', src='exhaustive', scheme=sch, perm=perm, directed=True, arcs=arcs))
    # every undirected contact network on <= nmax nodes x every outcome of the transmission rule
    for n in range(0, nmax + 1):
        for edges in all_graphs(n):
            arcs2 = edges + [(v, u) for u, v in edges]
            for mask in range(1 << len(arcs2)):
                k += 1
                fire = [arcs2[i] for i in range(len(arcs2)) if mask >> i & 1]
                perm = list(range(n))
                if k % 2: perm.reverse()
                base = dict(src='exhaustive', scheme=['str', 'tup', 'int5', 'int'][k % 4], perm=perm, directed=False, arcs=edges)
                cases.append(dict(base, kind='pnm', fire=fire, xi_missing=[], zeta_missing=[]))
                if tier != 'quick' and n == 4 and k % 4: continue
                # the same outcome expressed through delays and durations
                durs = [str(F(1))] * n
                cases.append(dict(base, kind='ptim', weights=bool(k % 2), durs=durs,
                                  delays=[(u, v, str(F(1, 2)) if (u, v) in fire else str(F(2))) for u, v in arcs2]))
                # and as bond percolation (one draw per edge): an edge is kept iff both directions fired in this enumeration
                if mask < (1 << len(edges)):
                    p = F(1, 2)
                    draws = [str(p - F(1, 2 ** 30)) if mask >> i & 1 else str(p + F(1, 2 ** 30)) for i in range(len(edges))]
                    cases.append(dict(base, kind='perc', p=str(p), draws=draws))
    n_exh = len(cases)
    nrand = 250 if tier == 'quick' else 20000
    for i in range(nrand):
        n = rng.choice([1, 2, 3, 5, 6, 8, 10, 12]) if i % 10 else 0
        sch, perm = rand_labels(rng, n)
        arcs = rand_arcs(rng, n, True)
        if i % 5 == 0 and n >= 4:
            # several equally large components: disjoint cycles of equal length joined by one-way arcs
            L = rng.choice([1, 2, 3]); m = n // L
            arcs = [(c * L + j, c * L + (j + 1) % L) for c in range(m) for j in range(L) if L > 1]
            arcs += [(a * L, b * L) for a in range(m) for b in range(m) if a < b and rng.random() < 0.4]
            rng.shuffle(arcs)
        base = dict(src='random', scheme=sch, perm=perm, directed=True, arcs=arcs)
        cases.append(dict(base, kind='est'))
        if n:
            kk = rng.randint(0, min(n, 4))
            srcs = [rng.randrange(n) for _ in range(kk)]
            cases.append(dict(base, kind='comp', dir=rng.choice('OI'), one=False, srcs=srcs, container=rng.choice(['list', 'set', 'tuple'])))
        if i % 25 == 0 and sch in ('int', 'int5'):
            cases.append(dict(base, kind='comp', dir=rng.choice('OI'), one=True, srcs=[1000 + n], container='list'))   # a number that is not a node
        # builders on random contact networks (undirected mostly, directed sometimes)
        d = rng.random() < 0.25
        n2 = rng.choice([0, 1, 2, 4, 6, 9, 12]) if i % 12 else 0
        sch2, perm2 = rand_labels(rng, n2)
        garcs = rand_arcs(rng, n2, d)
        gb = dict(src='random', scheme=sch2, perm=perm2, directed=d, arcs=garcs)
        opairs = garcs if d else garcs + [(v, u) for u, v in garcs]
        cases.append(dict(gb, kind='ptim', weights=rng.random() < 0.6,
                          durs=[None if (x := rng.choice(XVALS)) is None else str(x) for _ in range(n2)],
                          delays=[(u, v, None if (x := rng.choice(XVALS)) is None else str(x)) for u, v in opairs]))
        miss = rng.random() < 0.1 and n2 > 0
        # the rule may also say "would transmit" for ordered pairs that are no contact of G (the reverse of a one-way arc of a
        # directed G, non-adjacent pairs): such pairs must NOT appear in the percolated graph
        nonarcs = [(v, u) for u, v in opairs if (v, u) not in set(map(tuple, opairs))] + [(a, b) for a in range(n2) for b in range(n2) if a != b and rng.random() < 0.15]
        cases.append(dict(gb, kind='pnm', fire=[list(p) for p in opairs if rng.random() < rng.choice([0.3, 0.6, 0.9])] + ([[0, 0]] if n2 else [])
                                                + [list(p) for p in dict.fromkeys(nonarcs) if list(p) not in [list(q) for q in opairs] and rng.random() < 0.7],
                          xi_missing=[rng.randrange(n2)] if miss and rng.random() < 0.5 else [],
                          zeta_missing=[rng.randrange(n2)] if miss and rng.random() < 0.7 else []))
        p = rng.choice([F(0), F(1), F(1, 2), F(1, 4), F(3, 4), F(5, 8)])
        ne = len(garcs)
        draws = []
        for _ in range(ne):
            c = rng.random()
            dv = p - F(1, 2 ** 30) if c < 0.3 else p + F(1, 2 ** 30) if c < 0.6 else F(rng.randrange(64) * 2 + 1, 128)
            if not (0 <= dv < 1): dv = F(rng.randrange(64) * 2 + 1, 128)
            draws.append(str(dv))
        if i % 40 == 7 and draws: draws = draws[:-1]            # script too short: both sides must stop at the same call
        cases.append(dict(gb, kind='perc', p=str(p), draws=draws))
        tau = rng.choice([F(0), F(1), F(2), F(1, 2)]); gamma = rng.choice([F(0), F(1), F(1), F(3)])
        nd = n2 + len(opairs)
        cases.append(dict(gb, kind='dpn', tau=str(tau), gamma=str(gamma), weights=rng.random() < 0.5,
                          draws=[str(F(rng.choice([1, 1, 2, 3, 4, 6, 8]), rng.choice([1, 2, 4]))) for _ in range(nd)]))
        if n2:
            k1 = rng.randint(1, max(1, n2 // 2))
            i0 = rng.sample(range(n2), k1)
            rest = [x for x in range(n2) if x not in i0]
            r0 = rng.sample(rest, rng.randint(0, len(rest) // 2)) if rest else []
            if rng.random() < 0.06: r0 = r0 + [i0[0]]                          # overlapping sets: EoNError
            inf = (True, [i0[0]]) if rng.random() < 0.3 else (False, i0)
            rec = None if (not r0 and rng.random() < 0.5) else ((True, [r0[0]]) if (len(r0) == 1 and rng.random() < 0.5) else (False, r0))
            cases.append(dict(gb, kind='gin', tau=str(rng.choice([F(1), F(2), F(1, 2)])), gamma=str(rng.choice([F(0), F(1), F(1), F(3)])), inf=inf, rec=rec,
                              draws=[str(F(rng.choice([1, 1, 2, 3, 4, 6, 8]), rng.choice([1, 2, 4]))) for _ in range(nd)]))
    return cases, n_exh


def jsonable(case):
    return json.loads(json.dumps(case, default=str))


# ------------------------------------------------------------------ the check
def run(run, tier):
    EoN = C.import_eon()
    import networkx as nx
    import EoN.simulation as sim
    props = C.check_props('C17')
    C.extra_props(run, 'C17', props, ['C17sym'])
    ok, log = C.build_driver('perc')
    if not ok:
        run.violation('C17/build', 'extracted model does not build: ' + log[-500:], {'log': log[-3000:]}, no_input=True)
        C.proof_coverage(run, props, 1, 0, 'build failed', [log[-300:]]); return
    cases = [dict(c, src='corpus') for c in C.load_corpus('C17')]
    gen, n_exh = gen_cases(run.rng, tier)
    cases += gen
    lines = []; impls = []; bads = []
    stats = {}
    for c in cases:
        f, _ = KINDS[c['kind']]
        line, impl, bad = f(EoN, nx, sim, c)
        lines.append(line); impls.append(impl); bads.append(bad)
        stats[c['kind'] + '_' + c['src']] = stats.get(c['kind'] + '_' + c['src'], 0) + 1
    outs = C.run_model(lines, 'perc')
    spec_bad = {}; mism = {}; distinct = set(); samples = []; nontriv = 0; ties = 0
    for c, line, impl, bad, mo in zip(cases, lines, impls, bads, outs):
        distinct.add(line)
        size = len(c['perm']) + len(c['arcs'])
        if c['arcs']: nontriv += 1
        if bad:
            ep, what = bad
            if ep not in spec_bad or size < spec_bad[ep][0]:
                spec_bad[ep] = (size, what, c)
        if 'DRIVERFAIL' in mo or 'BADCMD' in mo:
            d = 'model driver failure: ' + mo[:200]
        else:
            try:
                d = KINDS[c['kind']][1](impl, mo)
            except Exception as ex:
                d = 'model output could not be parsed (%s: %s): %r' % (type(ex).__name__, ex, mo[:200])
        if d:
            ep = c['kind']
            if ep not in mism or size < mism[ep][0]:
                mism[ep] = (size, d, c, mo[:400])
        elif c['kind'] == 'est':
            pa = parse_answers(mo.split(' | ')[0])
            if pa[0] == 'OK' and len(pa[1]) > 1: ties += 1
            if len(samples) < 3 and c['src'] == 'random' and len(c['arcs']) > 3:
                samples.append({'digraph': {'n': len(c['perm']), 'labels': c['scheme'], 'arcs': c['arcs']}, 'implementation': repr(impl['est']), 'allowed': sorted((str(a), str(b)) for a, b in pa[1]) if pa[0] == 'OK' else pa[1]})
    stats['est_cases_with_several_answers'] = ties
    # Props/C17sym.v on the implementation: on a symmetric digraph (an undirected network seen as a digraph) the directed estimator
    # returns one number twice, the largest connected component over N
    nsym = 0
    for c in cases:
        if c['kind'] != 'est' or not c['perm']: continue
        H, _, _ = build(nx, c, directed=True)
        H.add_edges_from([(v, u) for u, v in list(H.edges())])
        want = max(len(cc) for cc in nx.connected_components(H.to_undirected())) / H.order()
        try:
            got = sim.estimate_SIR_prob_size_from_dir_perc(H)
        except Exception as ex:
            got = '%s: %s' % (type(ex).__name__, ex)
        nsym += 1
        if not (isinstance(got, tuple) and len(got) == 2 and got[0] == got[1] == want):
            what = 'symmetric digraph (every arc with its reverse): expected (%r, %r), the largest component over N; returned %r' % (want, want, got)
            sz = len(c['perm']) + len(c['arcs'])
            if 'est' not in spec_bad or sz < spec_bad['est'][0]:
                spec_bad['est'] = (sz, what, dict(c, symmetrised=True))
    stats['est_symmetrised_cases'] = nsym
    ENTRY = {'gin': 'get_infected_nodes', 'est': 'estimate_SIR_prob_size_from_dir_perc', 'comp': '_out_component_', 'ptim': 'nonMarkov_directed_percolate_network_with_timing',
             'pnm': 'nonMarkov_directed_percolate_network', 'perc': 'estimate_SIR_prob_size', 'dpn': 'directed_percolate_network'}
    for ep, (size, what, c) in spec_bad.items():
        run.violation('C17/%s/spec' % ep, '%s does not compute what it documents: %s' % (ep, what[:600]), {'case': jsonable(c), 'what': what})
    for kind, (size, d, c, mo) in mism.items():
        if any(True for ep in spec_bad):
            continue     # a concrete failing input was found; the broken correspondence is its consequence
        run.violation('C17/%s/correspondence' % ENTRY[kind],
                      'correspondence Model/Percolation.v <-> EoN (%s case) no longer checks (the theorems of Props/C17.v are about the model); '
                      'the brute-force oracle found no failing input of the property: %s' % (kind, d[:500]),
                      {'case': jsonable(c), 'broken': 'correspondence Model/Percolation.v vs EoN.simulation.%s' % ENTRY[kind], 'detail': d, 'model_output': mo}, no_input=True)
    if not props['ok']:
        run.violation('C17/proof', 'Props/C17.v no longer checks: %s' % props['log'][-400:], {'broken': 'coq/Props/C17.v', 'log': props['log']}, no_input=True)
    nmax = 3 if tier == 'quick' else 4
    C.proof_coverage(run, props, len(cases), min(len(distinct), nontriv),
                     'EVERY digraph on <=%d nodes (estimator, every single-source out/in component, SCCs); EVERY undirected contact network on <=%d nodes x EVERY outcome of the '
                     'transmission rule (dict+table rule, delay/duration tables, bond percolation by scripted draws at p -/+ 2^-30) = %d exhaustive cases; random digraphs and contact '
                     'networks with 0..12 nodes, int/shifted-int/str/tuple labels in permuted order, 1 in 5 built from several equally large components, multi-source components in '
                     'list/set/tuple containers, delays/durations in {0,1/2,1,3/2,2,inf} (ties delay=duration included: the rule is <=), 10%% of dict rules with a missing key, '
                     'scripted random.random/expovariate incl. tau=0/gamma=0 and scripts one draw short. Non-trivial = at least one arc; distinct = distinct model input lines'
                     % (nmax, nmax, n_exh), samples,
                     {'distribution': stats, 'mismatches': len(mism), 'spec_failures': len(spec_bad), 'exhaustive_part': 'all digraphs / all contact networks x rule outcomes on <=%d nodes' % nmax})
    run.assumptions += ['networkx descendants/ancestors/strongly_connected_components/connected_components used through their specification (the SCC list of networkx is compared with the model on every case)',
                        'which largest component max(key=len) returns and which element list(set)[0] is are unspecified: any is accepted',
                        'contact networks are simple graphs; user rules are deterministic tables during one call']


def replay(rp):
    EoN = C.import_eon()
    import networkx as nx
    import EoN.simulation as sim
    c = rp['replay'].get('case')
    if not c:
        print('no concrete input recorded:', rp.get('what')); return 1
    c = dict(c)
    for k in ('arcs', 'fire'):
        if k in c: c[k] = [tuple(x) for x in c[k]]
    if 'delays' in c: c['delays'] = [tuple(x) for x in c['delays']]
    line, impl, bad = KINDS[c['kind']][0](EoN, nx, sim, c)
    print('case:', json.dumps(jsonable(c)))
    print('implementation:', impl)
    print('oracle verdict:', bad or 'holds')
    if bad: return 1
    ok, log = C.build_driver('perc')
    mo = C.run_model([line], 'perc')[0]
    d = KINDS[c['kind']][1](impl, mo)
    print('model:', mo[:400]); print('correspondence:', d or 'agrees')
    return 1 if d else 0
