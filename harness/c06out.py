"""C06, output layer of the 35 ODE entry points that have no *_from_graph model (component 'out':
coq/Model/Outputs.v, Outputs2.v; theorems coq/Props/C06out.v).

Tie, on every run: scipy's odeint (EoN.analytic.integrate.odeint) and EoN.analytic._my_odeint_ are replaced FROM OUTSIDE by
a solver that records the initial vector / time grid it is handed and returns a matrix whose row 0 is that initial vector
and whose other rows are random dyadic numbers.  The extracted model is run with the same solver.  Compared: the initial
vector (block order, flattening order, which arguments are used), the time grid, the names and EVERY ROW of every returned
series (so an output built from the wrong block, a swapped pair, I = N-S instead of N-S-R, a forgotten nodelist show up
as a different number), the Python failure mode.  The discrete-time EBCM functions and Attack_rate_*_from_graph have no
solver: their whole (short) run is compared, and what the wrappers hand to EBCM / EBCM_discrete / Attack_rate_* is captured
by wrapping those module attributes.

Failing-input search when the tie breaks: the documented meaning of every argument (L0, `spec0` below, written from the
docstrings, independent of the Coq model) is evaluated on the output of the UNPATCHED implementation for the same call:
times == linspace, length tcount, row 0 == requested quantities, S+I(+R) == N at every row."""
import json, warnings
from fractions import Fraction as F
import numpy as np
import networkx as nx
from . import common as C
from . import ode_common as OC
from . import c06_model as CM

COMP = 'out'
TOL = 1e-9


# ------------------------------------------------------------------ helpers ----
def dy(rng, lo=0, hi=4, den=8):
    return F(rng.randint(lo * den, hi * den), den)


def dpos(rng, hi=4, den=8):
    return F(rng.randint(1, hi * den), den)


def fs(x):
    return None if x is None else str(F(x))


def fvec(rng, n, lo=0, hi=4):
    return [fs(dy(rng, lo, hi)) for _ in range(n)]


def fmat(rng, r, c, lo=0, hi=4):
    return [fvec(rng, c, lo, hi) for _ in range(r)]


def poly(c):
    cf = [float(F(x)) for x in c]
    return lambda x: sum(cf[k] * x ** k for k in range(len(cf)))


def polyP(c):
    cf = [float(F(x)) for x in c]
    return lambda x: sum(k * cf[k] * x ** (k - 1) for k in range(1, len(cf)))


def polyPP(c):
    cf = [float(F(x)) for x in c]
    return lambda x: sum(k * (k - 1) * cf[k] * x ** (k - 2) for k in range(2, len(cf)))


class P:
    """decoded arguments of a case"""
    def __init__(self, case):
        a = case['a']
        fl = lambda x: None if x is None else float(F(x))
        self.q = [fl(x) for x in a.get('q', [])]
        self.oq = [fl(x) for x in a.get('oq', [])]
        arr = lambda v: None if v is None else np.array([float(F(x)) for x in v])
        mat = lambda m: None if m is None else np.array([[float(F(x)) for x in r] for r in m])
        self.v = [arr(x) for x in a.get('v', [])]
        self.ov = [arr(x) for x in a.get('ov', [])]
        self.m = [mat(x) for x in a.get('m', [])]
        self.om = [mat(x) for x in a.get('om', [])]
        self.f = [poly(c) for c in a.get('f', [])]
        self.fP = [polyP(c) for c in a.get('f', [])]
        self.fPP = [polyPP(c) for c in a.get('f', [])]
        self.full = case['full']
        self.py = case.get('py', {})
        g = a.get('graph')
        self.G = self.labels = self.idx = None
        if g is not None:
            self.G, self.labels = OC.build_graph(g)
            if g.get('w'):
                for i, (u, v) in enumerate(self.G.edges()):
                    self.G[u][v]['w'] = [2.0, 0.5, 3.0][i % 3]
                for i, u in enumerate(self.G.nodes()):
                    self.G.nodes[u]['rw'] = [0.5, 2.0][i % 2]
        lab = lambda l: None if l is None else [self.labels[i] for i in l]
        self.nl, self.I, self.R = lab(a.get('nl')), lab(a.get('I')), lab(a.get('R'))
        self.pk = {int(k): float(F(p)) for k, p in a.get('pk', [])}
        self.pnk = {int(k): {int(k2): float(F(p)) for k2, p in row} for k, row in a.get('pnk', [])}
        self.ks = None if a.get('ks') is None else np.array(a['ks'])
        self.z = a.get('z', [])
        self.n = a.get('n', 0)
        grid = case.get('grid')
        self.grid = {} if grid is None else dict(tmin=float(F(grid[0])), tmax=float(F(grid[1])), tcount=int(grid[2]))
        self.wkw = dict(transmission_weight='w', recovery_weight='rw') if (g or {}).get('w') else {}


def qtok(x):
    return C.qtok(F(x))


def args_tokens(case):
    a = case['a']
    t = []
    q = a.get('q', []); t += [str(len(q))] + [qtok(x) for x in q]
    oq = a.get('oq', []); t += [str(len(oq))] + [('0' if x is None else '1 ' + qtok(x)) for x in oq]
    vt = lambda v: '%d %s' % (len(v), ' '.join(qtok(x) for x in v))
    mt = lambda m: '%d %s' % (len(m), ' '.join(vt(r) for r in m))
    v = a.get('v', []); t += [str(len(v))] + [vt(x) for x in v]
    ov = a.get('ov', []); t += [str(len(ov))] + [('0' if x is None else '1 ' + vt(x)) for x in ov]
    m = a.get('m', []); t += [str(len(m))] + [mt(x) for x in m]
    om = a.get('om', []); t += [str(len(om))] + [('0' if x is None else '1 ' + mt(x)) for x in om]
    f = a.get('f', []); t += [str(len(f))] + [vt(c) for c in f]
    g = a.get('graph')
    idx = None
    if g is None:
        t.append('0')
    else:
        G, labels = OC.build_graph(g)
        gt, idx = CM.graph_tokens(G, labels)
        t += ['1', gt]
    def nl(l):
        if l is None: return '0'
        return '1 %d %s' % (len(l), ' '.join(str(idx[labels[i]]) for i in l))
    t += [nl(a.get('nl')), nl(a.get('I')), nl(a.get('R'))]
    pk = a.get('pk', []); t += [str(len(pk))] + ['%d %s' % (int(k), qtok(p)) for k, p in pk]
    pnk = a.get('pnk', []); t += [str(len(pnk))] + ['%d %d %s' % (int(k), len(row), ' '.join('%d %s' % (int(k2), qtok(p)) for k2, p in row)) for k, row in pnk]
    ks = a.get('ks'); t.append('0' if ks is None else '1 %d %s' % (len(ks), ' '.join(map(str, ks))))
    z = a.get('z', []); t += [str(len(z))] + [str(int(x)) for x in z]
    t.append(str(int(a.get('n', 0))))
    t.append(str(int(case['full'])))
    return ' '.join(x for x in t if x != '')


def rest_rows(seed, T, M):
    if T <= 1:
        return np.zeros((0, M))
    return np.random.RandomState(seed % (2 ** 31)).randint(0, 17, size=(T - 1, M)) / 8.0


def model_line(case, M=None):
    k = case['kind']
    if k == 'ode':
        g = case['grid']
        T = int(g[2])
        rest = rest_rows(case['seed'], T, M or 0)
        rt = '%d %s' % (len(rest), ' '.join('%d %s' % (len(r), ' '.join(qtok(F(float(x))) for x in r)) for r in rest))
        return 'ODE %s %s %s %d %s %s' % (case['entry'], qtok(g[0]), qtok(g[1]), T, args_tokens(case), rt)
    if k == 'disc':
        return 'DISC %s %s' % (case['entry'], args_tokens(case))
    return 'AR %s %s' % (case['entry'], args_tokens(case))


def parse_ret(line):
    line = line.strip()
    if line.startswith('ERR'):
        return ('ERR', line.split()[1])
    if not line.startswith('OK'):
        return ('FAIL', line[:300])
    parts = line[2:].split('|')
    fl = lambda x: float(F(x))
    tk = parts[0].split(); assert tk[0] == 'T'
    times = np.array([fl(x) for x in tk[2:2 + int(tk[1])]])
    tk = parts[1].split(); assert tk[0] == 'X0'
    x0 = np.array([fl(x) for x in tk[2:2 + int(tk[1])]])
    ser = []
    for part in parts[2:]:
        tk = part.split(); nm, kind = tk[0], tk[1]
        if kind == 's':
            ser.append((nm, np.array([fl(x) for x in tk[3:3 + int(tk[2])]])))
        elif kind == 'v':
            n, w = int(tk[2]), int(tk[3]); ser.append((nm, np.array([fl(x) for x in tk[4:4 + n * w]]).reshape(n, w)))
        else:
            n, r, c = int(tk[2]), int(tk[3]), int(tk[4]); ser.append((nm, np.array([fl(x) for x in tk[5:5 + n * r * c]]).reshape(n, r, c)))
    return ('OK', times, x0, ser)


def near(a, b, tol=TOL):
    a = np.asarray(a, dtype=float); b = np.asarray(b, dtype=float)
    if a.shape != b.shape:
        return False
    if a.size == 0:
        return True
    return bool(np.all(np.abs(a - b) <= tol * np.maximum(1.0, np.maximum(np.abs(a), np.abs(b)))))


def tmajor(x, keys=None):
    """a returned series -> time-major array"""
    if isinstance(x, dict):
        ks = sorted(x) if keys is None else keys
        return np.array([np.asarray(x[k], dtype=float) for k in ks]).T.reshape(-1, len(ks))
    a = np.asarray(x, dtype=float)
    return a if a.ndim <= 1 else np.moveaxis(a, -1, 0)


# ------------------------------------------------------------- entry table ----
ENT = {}


def ent(name, kind, gen, call, layout_plain, layout_full, spec0=None):
    ENT[name] = dict(name=name, kind=kind, gen=gen, call=call, lp=layout_plain, lf=layout_full, spec0=spec0)


SI, SIR = ['S', 'I'], ['S', 'I', 'R']
GRIDS = [('0', '5', 3), ('1', '3', 5), ('-1', '4', 2), ('1/2', '9/2', 4), ('0', '2', 1), ('2', '3', 3), ('-2', '-1', 4), ('0', '1', 2)]


def rates(rng):
    return {'tau': float(rng.choice([0.25, 0.5, 1.0, 2.0])), 'gamma': float(rng.choice([0.5, 1.0, 2.0])), 'n': float(rng.choice([2, 3, 2.5]))}


def base(rng, **a):
    return {'a': a, 'py': rates(rng), 'grid': list(rng.choice(GRIDS))}


def kw(p):
    d = dict(p.grid); d['return_full_data'] = p.full; return d


# ---- homogeneous ----
ent('SIS_homogeneous_meanfield', 'ode',
    lambda rng: base(rng, q=[fs(dpos(rng, 8)), fs(dpos(rng, 8))]),
    lambda E, p: E.SIS_homogeneous_meanfield(p.q[0], p.q[1], p.py['n'], p.py['tau'], p.py['gamma'], **p.grid), SI, None,
    lambda p: ({'S': p.q[0], 'I': p.q[1]}, p.q[0] + p.q[1]))
ent('SIR_homogeneous_meanfield', 'ode',
    lambda rng: base(rng, q=[fs(dpos(rng, 8)), fs(dpos(rng, 8)), fs(dy(rng, 0, 3))]),
    lambda E, p: E.SIR_homogeneous_meanfield(p.q[0], p.q[1], p.q[2], p.py['n'], p.py['tau'], p.py['gamma'], **p.grid), SIR, None,
    lambda p: ({'S': p.q[0], 'I': p.q[1], 'R': p.q[2]}, p.q[0] + p.q[1] + p.q[2]))


def g_hpw(sir):
    def gen(rng):
        S0, I0, R0 = dpos(rng, 8), dpos(rng, 8), (dy(rng, 0, 3) if sir else F(0))
        n = F(rng.choice([2, 3, 4])); N = S0 + I0 + R0
        if rng.random() < 0.2:      # more pairs than n*N: EoNError
            SI0 = dpos(rng, 2); SS0 = n * N - 2 * SI0 + dpos(rng, 2)
        else:
            SI0 = dy(rng, 0, 1) * N / 2; SS0 = dy(rng, 0, 1) * N
        q = [S0, I0] + ([R0] if sir else []) + [SI0, SS0, n]
        return base(rng, q=[fs(x) for x in q])
    return gen


ent('SIS_homogeneous_pairwise', 'ode', g_hpw(False),
    lambda E, p: E.SIS_homogeneous_pairwise(p.q[0], p.q[1], p.q[2], p.q[3], p.q[4], p.py['tau'], p.py['gamma'], **kw(p)), SI, SI + ['SI', 'SS', 'II'],
    lambda p: ({'S': p.q[0], 'I': p.q[1], 'SI': p.q[2], 'SS': p.q[3], 'II': (p.q[0] + p.q[1]) * p.q[4] - p.q[3] - 2 * p.q[2]}, p.q[0] + p.q[1]))
ent('SIR_homogeneous_pairwise', 'ode', g_hpw(True),
    lambda E, p: E.SIR_homogeneous_pairwise(p.q[0], p.q[1], p.q[2], p.q[3], p.q[4], p.q[5], p.py['tau'], p.py['gamma'], **kw(p)), SIR, SIR + ['SI', 'SS'],
    lambda p: ({'S': p.q[0], 'I': p.q[1], 'R': p.q[2], 'SI': p.q[3], 'SS': p.q[4]}, p.q[0] + p.q[1] + p.q[2]))


# ---- heterogeneous mean field ----
def g_hmf(nv):
    def gen(rng):
        k = rng.randint(1, 5)
        lens = [k] * nv
        if rng.random() < 0.15:
            lens[rng.randrange(1, nv)] = k + 1          # EoNError
        return base(rng, v=[fvec(rng, n) for n in lens])
    return gen


ent('SIS_heterogeneous_meanfield', 'ode', g_hmf(2),
    lambda E, p: E.SIS_heterogeneous_meanfield(p.v[0], p.v[1], p.py['tau'], p.py['gamma'], **kw(p)), SI, SI + ['Sk', 'Ik'],
    lambda p: ({'S': p.v[0].sum(), 'I': p.v[1].sum(), 'Sk': p.v[0], 'Ik': p.v[1]}, p.v[0].sum() + p.v[1].sum()))
ent('SIR_heterogeneous_meanfield', 'ode', g_hmf(3),
    lambda E, p: E.SIR_heterogeneous_meanfield(p.v[0], p.v[1], p.v[2], p.py['tau'], p.py['gamma'], **kw(p)), SIR, ['Sk', 'Ik', 'Rk'],
    lambda p: ({'S': p.v[0].sum(), 'I': p.v[1].sum(), 'R': p.v[2].sum(), 'Sk': p.v[0], 'Ik': p.v[1], 'Rk': p.v[2]}, p.v[0].sum() + p.v[1].sum() + p.v[2].sum()))


# ---- heterogeneous pairwise ----
def g_hpwk(sir):
    def gen(rng):
        k = rng.randint(1, 4)
        c = base(rng, v=[fvec(rng, k) for _ in range(3 if sir else 2)], m=[fmat(rng, k, k) for _ in range(2 if sir else 3)])
        if rng.random() < 0.5:
            c['a']['ks'] = sorted(rng.sample(range(0, 9), k))
        return c
    return gen


def kskw(p):
    d = kw(p)
    if p.ks is not None:
        d['Ks'] = p.ks
    return d


ent('SIS_heterogeneous_pairwise', 'ode', g_hpwk(False),
    lambda E, p: E.SIS_heterogeneous_pairwise(p.v[0], p.v[1], p.m[0], p.m[1], p.m[2], p.py['tau'], p.py['gamma'], **kskw(p)),
    SI, SI + ['Sk', 'Ik', 'SkIl', 'SkSl', 'IkIl'],
    lambda p: ({'S': p.v[0].sum(), 'I': p.v[1].sum(), 'Sk': p.v[0], 'Ik': p.v[1], 'SkIl': p.m[1], 'SkSl': p.m[0], 'IkIl': p.m[2]}, p.v[0].sum() + p.v[1].sum()))
ent('SIR_heterogeneous_pairwise', 'ode', g_hpwk(True),
    lambda E, p: E.SIR_heterogeneous_pairwise(p.v[0], p.v[1], p.v[2], p.m[0], p.m[1], p.py['tau'], p.py['gamma'], **kskw(p)),
    SIR, SIR + ['Sk', 'Ik', 'Rk', 'SkIl', 'SkSl'],
    lambda p: ({'S': p.v[0].sum(), 'I': p.v[1].sum(), 'R': p.v[2].sum(), 'Sk': p.v[0], 'Ik': p.v[1], 'Rk': p.v[2], 'SkIl': p.m[1], 'SkSl': p.m[0]},
               p.v[0].sum() + p.v[1].sum() + p.v[2].sum()))


# ---- compact pairwise / compact effective degree ----
def g_cp(rng):
    k = rng.randint(1, 5)
    return base(rng, v=[fvec(rng, k), fvec(rng, k)], q=[fs(dy(rng)), fs(dy(rng)), fs(dy(rng))])


_cp0 = lambda p: ({'S': p.v[0].sum(), 'I': p.v[1].sum(), 'Sk': p.v[0], 'Ik': p.v[1], 'SI': p.q[0], 'SS': p.q[1], 'II': p.q[2]}, p.v[0].sum() + p.v[1].sum())
ent('SIS_compact_pairwise', 'ode', g_cp,
    lambda E, p: E.SIS_compact_pairwise(p.v[0], p.v[1], p.q[0], p.q[1], p.q[2], p.py['tau'], p.py['gamma'], **kw(p)), SI, SI + ['Sk', 'Ik', 'SI', 'SS', 'II'], _cp0)
ent('SIS_compact_effective_degree', 'ode', g_cp,
    lambda E, p: E.SIS_compact_effective_degree(p.v[0], p.v[1], p.q[0], p.q[1], p.q[2], p.py['tau'], p.py['gamma'], **kw(p)), SI, SI + ['Sk', 'Ik', 'SI', 'SS', 'II'], _cp0)
ent('SIR_compact_pairwise', 'ode',
    lambda rng: base(rng, v=[fvec(rng, rng.randint(1, 5))], q=[fs(dy(rng)), fs(dy(rng)), fs(dy(rng)), fs(dy(rng))]),
    lambda E, p: E.SIR_compact_pairwise(p.v[0], p.q[0], p.q[1], p.q[2], p.q[3], p.py['tau'], p.py['gamma'], **kw(p)), SIR, ['Sk', 'I', 'R', 'SS', 'SI'],
    lambda p: ({'S': p.v[0].sum(), 'I': p.q[0], 'R': p.q[1], 'Sk': p.v[0], 'SS': p.q[2], 'SI': p.q[3]}, p.v[0].sum() + p.q[0] + p.q[1]))

# ---- super compact ----
ent('SIS_super_compact_pairwise', 'ode',
    lambda rng: base(rng, q=[fs(dpos(rng, 8))] + [fs(dy(rng)) for _ in range(4)]),
    lambda E, p: E.SIS_super_compact_pairwise(p.q[0], p.q[1], p.q[2], p.q[3], p.q[4], p.py['tau'], p.py['gamma'], 3.0, 10.0, 36.0, **kw(p)),
    SI, SI + ['SS', 'SI', 'II'],
    lambda p: ({'S': p.q[0], 'I': p.q[1], 'SS': p.q[2], 'SI': p.q[3], 'II': p.q[4]}, p.q[0] + p.q[1]))


def gpoly(rng, deg=None):
    deg = deg or rng.randint(1, 4)
    return [fs(F(rng.randint(0, 4), 8)) for _ in range(deg)] + [fs(F(rng.randint(1, 4), 8))]


ent('SIR_super_compact_pairwise', 'ode',
    lambda rng: base(rng, q=[fs(dy(rng, 0, 2)), fs(dy(rng)), fs(dy(rng)), fs(dpos(rng, 16))], f=[gpoly(rng)]),
    lambda E, p: E.SIR_super_compact_pairwise(p.q[0], p.q[1], p.q[2], p.q[3], p.py['tau'], p.py['gamma'], p.f[0], p.fP[0], p.fPP[0], **kw(p)),
    SIR, SIR + ['SS', 'SI'],
    lambda p: ({'S': p.q[3] * p.f[0](1.0), 'I': p.q[3] - p.q[3] * p.f[0](1.0) - p.q[0], 'R': p.q[0], 'SS': p.q[1], 'SI': p.q[2]}, p.q[3]))


# ---- effective degree ----
def g_ed(nm):
    def gen(rng):
        r = rng.randint(1, 4); c = r if rng.random() < 0.5 else rng.randint(1, 4)
        return base(rng, m=[fmat(rng, r, c) for _ in range(nm)], q=[fs(dy(rng)), fs(dy(rng))])
    return gen


ent('SIS_effective_degree', 'ode', g_ed(2),
    lambda E, p: E.SIS_effective_degree(p.m[0], p.m[1], p.py['tau'], p.py['gamma'], **kw(p)), SI, SI + ['Ssi', 'Isi'],
    lambda p: ({'S': p.m[0].sum(), 'I': p.m[1].sum(), 'Ssi': p.m[0], 'Isi': p.m[1]}, p.m[0].sum() + p.m[1].sum()))
ent('SIR_effective_degree', 'ode', g_ed(1),
    lambda E, p: E.SIR_effective_degree(p.m[0], p.q[0], p.q[1], p.py['tau'], p.py['gamma'], **kw(p)), SIR, SIR + ['Ssi'],
    lambda p: ({'S': p.m[0].sum(), 'I': p.q[0], 'R': p.q[1], 'Ssi': p.m[0]}, p.m[0].sum() + p.q[0] + p.q[1]))
ent('SIR_compact_effective_degree', 'ode',
    lambda rng: base(rng, v=[fvec(rng, rng.randint(1, 5))], q=[fs(dy(rng)), fs(dy(rng)), fs(dy(rng))]),
    lambda E, p: E.SIR_compact_effective_degree(p.v[0], p.q[0], p.q[1], p.q[2], p.py['tau'], p.py['gamma'], **kw(p)), SIR, SIR + ['Skappa', 'SI'],
    lambda p: ({'S': p.v[0].sum(), 'I': p.q[0], 'R': p.q[1], 'Skappa': p.v[0], 'SI': p.q[2]}, p.v[0].sum() + p.q[0] + p.q[1]))

# ---- EBCM ----
_eb0 = lambda N, f1, R0: ({'S': N * f1, 'I': N - N * f1 - R0, 'R': R0, 'theta': 1.0}, N)


def g_ebcm(rng):
    c = base(rng, q=[fs(dpos(rng, 16)), fs(dy(rng, 0, 2))], f=[gpoly(rng)])
    c['py'].update(phiS0=float(dy(rng, 0, 1)), phiR0=float(dy(rng, 0, 1)), useR0=rng.random() < 0.7)
    if not c['py']['useR0']:
        c['a']['q'][1] = '0'
    return c


def c_ebcm(E, p):
    k = kw(p)
    if p.py['useR0']:
        k.update(R0=p.q[1], phiR0=p.py['phiR0'])
    return E.EBCM(p.q[0], p.f[0], p.fP[0], p.py['tau'], p.py['gamma'], p.py['phiS0'], **k)


ent('EBCM', 'ode', g_ebcm, c_ebcm, SIR, SIR + ['theta'], lambda p: _eb0(p.q[0], p.f[0](1.0), p.q[1]))
ent('EBCM_uniform_introduction', 'ode',
    lambda rng: base(rng, q=[fs(dpos(rng, 16)), fs(F(rng.randint(1, 7), 8))], f=(lambda c: [c, [fs(k * F(x)) for k, x in enumerate(c)][1:]])(gpoly(rng))),
    lambda E, p: E.EBCM_uniform_introduction(p.q[0], p.f[0], p.f[1], p.py['tau'], p.py['gamma'], p.q[1], **kw(p)), SIR, SIR + ['theta'],
    lambda p: _eb0(p.q[0], (1 - p.q[1]) * p.f[0](1.0), 0.0))


# ---- graphs ----
def ggraph(rng, nmax=6, isolated=True, weights=None):
    n, edges = OC.gen_graph(rng, nmax=nmax, isolated=isolated)
    kind, labels = OC.gen_labels(rng, n)
    return {'nodes': labels, 'edges': edges, 'labelkind': kind, 'w': (rng.random() < 0.4) if weights is None else weights}


def gsets(rng, n, sir):
    idx = list(range(n)); rng.shuffle(idx)
    ni = rng.randint(1, max(1, n // 2)); I = idx[:ni]; rest = idx[ni:]
    R = None
    if sir:
        r = rng.random()
        if r < 0.3: R = None
        elif r < 0.45: R = []
        else:
            nr = rng.randint(1, max(1, len(rest) // 2)); R = rest[:nr]
    return I, R


def gnl(rng, n, force=False):
    if not force and rng.random() < 0.35:
        return None
    nl = list(range(n)); rng.shuffle(nl)
    if nl == list(range(n)) and n > 1:
        nl.reverse()
    return nl


def gkw(p, **extra):
    d = kw(p); d.update(p.wkw)
    if p.nl is not None:
        d['nodelist'] = p.nl
    d.update({k: v for k, v in extra.items() if v is not None})
    return d


def g_ib(sir):
    def gen(rng):
        g = ggraph(rng, nmax=7); n = len(g['nodes'])
        var = rng.choice(['rho', 'rho+nl', 'Y0', 'Y0', 'Y0+X0', 'err:Y0-nonl', 'err:both', 'err:none'] if sir else
                         ['rho', 'rho+nl', 'Y0', 'Y0', 'err:Y0-nonl', 'err:both', 'err:none'])
        rho = fs(F(rng.randint(1, 7), 8)); Y0 = [fs(F(rng.randint(0, 8), 8)) for _ in range(n)]
        X0 = [fs((1 - F(y)) * F(rng.randint(0, 4), 4)) for y in Y0]
        c = base(rng, graph=g, oq=[None], ov=[None, None], nl=None)
        if var.startswith('rho'): c['a']['oq'] = [rho]
        if var == 'rho+nl': c['a']['nl'] = gnl(rng, n, True)
        if var in ('Y0', 'Y0+X0'): c['a']['ov'][0] = Y0; c['a']['nl'] = gnl(rng, n, True)
        if var == 'Y0+X0': c['a']['ov'][1] = X0
        if var == 'err:Y0-nonl': c['a']['ov'][0] = Y0
        if var == 'err:both': c['a']['oq'] = [rho]; c['a']['ov'][0] = Y0; c['a']['nl'] = gnl(rng, n, True)
        c['variant'] = var
        return c
    return gen


def pos_nodes(p):
    """nodes in the order of the per-node arrays"""
    return list(p.nl) if p.nl is not None else list(p.G.nodes())


def ib0(sir):
    def s(p):
        n = p.G.order()
        Y = p.ov[0] if p.ov[0] is not None else np.full(n, p.oq[0])
        X = p.ov[1] if sir and p.ov[1] is not None else 1 - Y
        d = {'S': X.sum(), 'I': Y.sum(), 'Ss': X, 'Is': Y}
        if sir: d.update(R=(1 - X - Y).sum(), Rs=1 - X - Y)
        return d, float(n)
    return s


ent('SIS_individual_based', 'ode', g_ib(False),
    lambda E, p: E.SIS_individual_based(p.G, p.py['tau'], p.py['gamma'], **gkw(p, rho=p.oq[0], Y0=p.ov[0])), SI, ['Ss', 'Is'], ib0(False))
ent('SIR_individual_based', 'ode', g_ib(True),
    lambda E, p: E.SIR_individual_based(p.G, p.py['tau'], p.py['gamma'], **gkw(p, rho=p.oq[0], Y0=p.ov[0], X0=p.ov[1])), SIR, SIR + ['Ss', 'Is', 'Rs'], ib0(True))


def g_pure(sir, nmax):
    def gen(rng):
        g = ggraph(rng, nmax=nmax); n = len(g['nodes'])
        I, R = gsets(rng, n, sir)
        c = base(rng, graph=g, I=I, R=R, nl=gnl(rng, n))
        c['variant'] = 'nl=%d R=%s' % (c['a']['nl'] is not None, 'None' if R is None else len(R))
        return c
    return gen


def pure0(sir, pair):
    def s(p):
        nodes = pos_nodes(p)
        I = set(p.I); R = set(p.R or [])
        Y = np.array([1.0 if u in I else 0.0 for u in nodes]); Z = np.array([1.0 if (u in R and u not in I) else 0.0 for u in nodes])
        X = 1 - Y - Z
        nm = ('Xs', 'Ys', 'Zs') if pair else ('Ss', 'Is', 'Rs')
        d = {'S': X.sum(), 'I': Y.sum(), nm[0]: X, nm[1]: Y}
        if sir: d.update({'R': Z.sum(), nm[2]: Z})
        if pair:
            A = np.array([[1.0 if p.G.has_edge(u, v) else 0.0 for v in nodes] for u in nodes])
            d['XY'] = X[:, None] * Y[None, :] * A; d['XX'] = X[:, None] * X[None, :] * A
        return d, float(len(nodes))
    return s


ent('SIS_individual_based_pure_IC', 'ode', g_pure(False, 7),
    lambda E, p: E.SIS_individual_based_pure_IC(p.G, p.py['tau'], p.py['gamma'], p.I, **gkw(p)), SI, ['Ss', 'Is'], pure0(False, False))
ent('SIR_individual_based_pure_IC', 'ode', g_pure(True, 7),
    lambda E, p: E.SIR_individual_based_pure_IC(p.G, p.py['tau'], p.py['gamma'], p.I, **gkw(p, initial_recovereds=p.R)), SIR, SIR + ['Ss', 'Is', 'Rs'], pure0(True, False))


def g_pb(sir):
    def gen(rng):
        g = ggraph(rng, nmax=5); n = len(g['nodes'])
        var = rng.choice(['default', 'rho', 'rho+nl', 'Y0', 'Y0', 'Y0+XY', 'err:Y0-nonl', 'err:both', 'err:len'] + (['Y0+X0', 'Y0+X0+XY'] if sir else []))
        rho = fs(F(rng.randint(1, 7), 8)); Y0 = [fs(F(rng.randint(0, 8), 8)) for _ in range(n)]
        X0 = [fs((1 - F(y)) * F(rng.randint(0, 4), 4)) for y in Y0]
        c = base(rng, graph=g, oq=[None], ov=[None, None], om=[None, None], nl=None)
        a = c['a']
        if var in ('rho', 'rho+nl', 'err:both'): a['oq'] = [rho]
        if var == 'rho+nl': a['nl'] = gnl(rng, n, True)
        if var.startswith('Y0') or var in ('err:both', 'err:len'): a['ov'][0] = Y0; a['nl'] = gnl(rng, n, True)
        if var == 'err:Y0-nonl': a['ov'][0] = Y0
        if var == 'err:len': a['ov'][0] = Y0 + ['1/2']
        if 'X0' in var: a['ov'][1] = X0
        if 'XY' in var: a['om'] = [fmat(rng, n, n, 0, 1), fmat(rng, n, n, 0, 1)]
        c['variant'] = var
        return c
    return gen


def pb0(sir):
    def s(p):
        n = p.G.order(); nodes = pos_nodes(p)
        Y = p.ov[0] if p.ov[0] is not None else np.full(n, p.oq[0] if p.oq[0] is not None else 1.0 / n)
        X = p.ov[1] if sir and p.ov[1] is not None else 1 - Y
        A = np.array([[1.0 if p.G.has_edge(u, v) else 0.0 for v in nodes] for u in nodes])
        XY = (p.om[0] if p.om[0] is not None else X[:, None] * Y[None, :]) * A
        XX = (p.om[1] if p.om[1] is not None else X[:, None] * X[None, :]) * A
        d = {'S': X.sum(), 'I': Y.sum(), 'Xs': X, 'Ys': Y, 'XY': XY, 'XX': XX}
        if sir: d.update(R=(1 - X - Y).sum(), Zs=1 - X - Y)
        return d, float(n)
    return s


ent('SIS_pair_based', 'ode', g_pb(False),
    lambda E, p: E.SIS_pair_based(p.G, p.py['tau'], p.py['gamma'], **gkw(p, rho=p.oq[0], Y0=p.ov[0], XY0=p.om[0], XX0=p.om[1])), SI, SI + ['Xs', 'Ys', 'XY', 'XX'], pb0(False))
ent('SIR_pair_based', 'ode', g_pb(True),
    lambda E, p: E.SIR_pair_based(p.G, p.py['tau'], p.py['gamma'], **gkw(p, rho=p.oq[0], Y0=p.ov[0], X0=p.ov[1], XY0=p.om[0], XX0=p.om[1])),
    SIR, SIR + ['Xs', 'Ys', 'Zs', 'XY', 'XX'], pb0(True))
ent('SIS_pair_based_pure_IC', 'ode', g_pure(False, 5),
    lambda E, p: E.SIS_pair_based_pure_IC(p.G, p.py['tau'], p.py['gamma'], p.I, **gkw(p)), SI, SI + ['Xs', 'Ys', 'XY', 'XX'], pure0(False, True))
ent('SIR_pair_based_pure_IC', 'ode', g_pure(True, 5),
    lambda E, p: E.SIR_pair_based_pure_IC(p.G, p.py['tau'], p.py['gamma'], p.I, **gkw(p, initial_recovereds=p.R)), SIR, SIR + ['Xs', 'Ys', 'Zs', 'XY', 'XX'], pure0(True, True))


# ---- preferential mixing ----
def gpk(rng):
    keys = rng.sample(range(0, 6), rng.randint(1, 4))
    w = [rng.randint(1, 4) for _ in keys]; tot = sum(w)
    pk = [[k, fs(F(x, tot))] for k, x in zip(keys, w)]
    kave = sum(k * F(p) for k, p in pk) or F(1)
    pnk = [[k, [[k2, fs(k2 * F(p2) / kave)] for k2, p2 in pk if k2 >= 1]] for k, _ in pk]      # a neighbour has degree >= 1 (get_Pnk never lists k2 = 0)
    return pk, pnk


def g_pm(rng):
    pk, pnk = gpk(rng)
    return base(rng, q=[fs(F(rng.choice([8, 16, 10, 100])))], oq=[rng.choice([None, fs(F(rng.randint(1, 7), 8))])], pk=pk, pnk=pnk)


def rkw(p, **k):
    d = dict(k)
    if p.oq[0] is not None:
        d['rho'] = p.oq[0]
    return d


_pm0 = lambda N, rho, keys: ({'S': N * (1 - rho), 'I': N * rho, 'R': 0.0, 'theta': np.ones(len(keys))}, N)
ent('EBCM_pref_mix', 'ode', g_pm,
    lambda E, p: E.EBCM_pref_mix(p.q[0], p.pk, p.pnk, p.py['tau'], p.py['gamma'], **rkw(p, **kw(p))), SIR, SIR + ['theta'],
    lambda p: _pm0(p.q[0], p.oq[0] if p.oq[0] is not None else 1.0 / p.q[0], p.pk))
ent('EBCM_pref_mix_from_graph', 'ode',
    lambda rng: base(rng, graph=ggraph(rng, nmax=8, isolated=False, weights=False), oq=[rng.choice([None, fs(F(rng.randint(1, 7), 8))])]),
    lambda E, p: E.EBCM_pref_mix_from_graph(p.G, p.py['tau'], p.py['gamma'], **rkw(p, **kw(p))), SIR, SIR + ['theta'],
    lambda p: _pm0(float(p.G.order()), p.oq[0] if p.oq[0] is not None else 1.0 / p.G.order(), set(dict(p.G.degree()).values())))


# ---- discrete time ----
def dz(rng):
    t0 = rng.choice([0, 0, 2, -1]); return [t0, t0 + rng.choice([0, 1, 2, 2])]


def dkw(p):
    return dict(tmin=p.z[0], tmax=p.z[1], return_full_data=p.full)


def g_ebd(rng):
    c = {'a': dict(q=[fs(F(rng.choice([8, 16, 10]))), fs(F(rng.randint(0, 8), 8)), fs(F(rng.randint(0, 8), 8)), fs(F(rng.randint(0, 4), 8)), fs(F(rng.randint(0, 3)))],
                   f=(lambda c: [c, [fs(k * F(x)) for k, x in enumerate(c)][1:]])(gpoly(rng, rng.randint(1, 3))), z=dz(rng)), 'py': {}}
    return c


ent('EBCM_discrete', 'disc', g_ebd,
    lambda E, p: E.EBCM_discrete(p.q[0], p.f[0], p.f[1], p.q[1], p.q[2], phiR0=p.q[3], R0=p.q[4], **dkw(p)), SIR, SIR + ['theta'],
    lambda p: _eb0(p.q[0], p.f[0](1.0), p.q[4]))
ent('EBCM_discrete_uniform_introduction', 'disc',
    lambda rng: {'a': dict(q=[fs(F(rng.choice([8, 16, 10]))), fs(F(rng.randint(0, 8), 8)), fs(F(rng.randint(1, 7), 8))],
                           f=(lambda c: [c, [fs(k * F(x)) for k, x in enumerate(c)][1:]])(gpoly(rng, rng.randint(1, 3))), z=[0, rng.choice([0, 1, 2])]), 'py': {}},
    lambda E, p: E.EBCM_discrete_uniform_introduction(p.q[0], p.f[0], p.f[1], p.q[1], p.q[2], tmax=p.z[1], return_full_data=p.full), SIR, SIR + ['theta'],
    lambda p: _eb0(p.q[0], (1 - p.q[2]) * p.f[0](1.0), 0.0))


def g_fg(rng, nmax=6, isolated=True):
    g = ggraph(rng, nmax=nmax, isolated=isolated, weights=False); n = len(g['nodes'])
    ic = OC.gen_ic(rng, n, g['edges'], True)
    a = dict(graph=g, oq=[None], I=None, R=None)
    if ic['mode'] == 'rho': a['oq'] = [ic['rho']]
    if ic['mode'] == 'sets': a['I'], a['R'] = ic['I'], ic.get('R')
    return a, ic


def ickw(p):
    d = {}
    if p.oq[0] is not None: d['rho'] = p.oq[0]
    if p.I is not None: d['initial_infecteds'] = p.I
    if p.R is not None: d['initial_recovereds'] = p.R
    return d


def fg0(p):
    n = p.G.order()
    if p.I is not None:
        I0 = len(set(p.I)); R0 = len(set(p.R or []) - set(p.I))
        return {'S': float(n - I0 - R0), 'I': float(I0), 'R': float(R0), 'theta': 1.0}, float(n)
    rho = p.oq[0] if p.oq[0] is not None else 1.0 / n
    return {'S': (1 - rho) * n, 'I': rho * n, 'R': 0.0, 'theta': 1.0}, float(n)


def g_ebdg(rng):
    a, ic = g_fg(rng, nmax=5)
    g = a['graph']; deg = [0] * len(g['nodes'])
    for i, j in g['edges']:
        deg[i] += 1; deg[j] += 1
    # p = 1 on a graph with isolated nodes is the known finding C06/EBCM_discrete_from_graph/nan/iso=1/p1=1 (0*inf once theta = 0), judged by c06.py
    a.update(q=[fs(F(rng.randint(0, 7 if min(deg) == 0 else 8), 8))], z=dz(rng))
    return {'a': a, 'py': {}, 'variant': ic['mode']}


ent('EBCM_discrete_from_graph', 'disc', g_ebdg,
    lambda E, p: E.EBCM_discrete_from_graph(p.G, p.q[0], **dict(ickw(p), **dkw(p))), SIR, SIR + ['theta'], fg0)


def g_pmd(rng):
    pk, pnk = gpk(rng)
    pk = [kp for kp in pk if kp[0] <= 3] or [[2, '1']]
    tot = sum(F(p) for _, p in pk); pk = [[k, fs(F(p) / tot)] for k, p in pk]
    kave = sum(k * F(p) for k, p in pk) or F(1)
    pnk = [[k, [[k2, fs(k2 * F(p2) / kave)] for k2, p2 in pk if k2 >= 1]] for k, _ in pk]
    return {'a': dict(q=[fs(F(rng.choice([8, 16, 10]))), fs(F(rng.randint(0, 8), 8))], oq=[rng.choice([None, fs(F(rng.randint(1, 7), 8))])], pk=pk, pnk=pnk, z=dz(rng)), 'py': {}}


ent('EBCM_pref_mix_discrete', 'disc', g_pmd,
    lambda E, p: E.EBCM_pref_mix_discrete(p.q[0], p.pk, p.pnk, p.q[1], **rkw(p, **dkw(p))), SIR, SIR + ['theta'],
    lambda p: _pm0(p.q[0], p.oq[0] if p.oq[0] is not None else 1.0 / p.q[0], p.pk))
ent('EBCM_pref_mix_discrete_from_graph', 'disc',
    lambda rng: {'a': dict(graph=ggraph(rng, nmax=5, isolated=False, weights=False), q=[fs(F(rng.randint(0, 8), 8))], oq=[rng.choice([None, fs(F(rng.randint(1, 7), 8))])], z=dz(rng)), 'py': {}},
    lambda E, p: E.EBCM_pref_mix_discrete_from_graph(p.G, p.q[0], **rkw(p, **dkw(p))), SIR, SIR + ['theta'],
    lambda p: _pm0(float(p.G.order()), p.oq[0] if p.oq[0] is not None else 1.0 / p.G.order(), set(dict(p.G.degree()).values())))


# ---- attack rates ----
def g_ar(cts):
    def gen(rng):
        a, ic = g_fg(rng, nmax=5, isolated=False)
        a['n'] = rng.choice([0, 1, 2])
        a['q'] = [fs(F(rng.randint(1, 8), 4)), fs(F(rng.randint(1, 8), 4))] if cts else [fs(F(rng.randint(1, 7), 8))]
        return {'a': a, 'py': {}, 'variant': ic['mode']}
    return gen


ent('Attack_rate_discrete_from_graph', 'ar', g_ar(False),
    lambda E, p: E.Attack_rate_discrete_from_graph(p.G, p.q[0], number_its=p.n, **ickw(p)), None, None)
ent('Attack_rate_cts_time_from_graph', 'ar', g_ar(True),
    lambda E, p: E.Attack_rate_cts_time_from_graph(p.G, p.q[0], p.q[1], number_its=p.n, **ickw(p)), None, None)

assert len(ENT) == 35, len(ENT)

FWD = {'EBCM_uniform_introduction': 'EBCM', 'EBCM_discrete_uniform_introduction': 'EBCM_discrete', 'EBCM_discrete_from_graph': 'EBCM_discrete',
       'Attack_rate_discrete_from_graph': 'Attack_rate_discrete', 'Attack_rate_cts_time_from_graph': 'Attack_rate_cts_time'}
XPT = F(3, 4)


# ------------------------------------------------------------ implementation ----
class Patched:
    """replace the two solvers of EoN.analytic (and, optionally, one forwarding target) from outside"""
    def __init__(self, EoN, seed, spy=None):
        self.A = EoN.analytic; self.seed = seed; self.calls = []; self.spy = spy; self.spied = []

    def fake(self, func, y0, t, args=(), **kw):
        x0 = np.array(y0, dtype=float).copy(); t = np.array(t, dtype=float)
        self.calls.append((x0, t))
        return np.vstack([x0[None, :], rest_rows(self.seed, len(t), len(x0))]) if len(t) else np.zeros((0, len(x0)))

    def __enter__(self):
        A = self.A
        self.o1, self.o2 = A.integrate.odeint, A._my_odeint_
        A.integrate.odeint = self.fake; A._my_odeint_ = self.fake
        if self.spy:
            self.o3 = getattr(A, self.spy)
            def sp(*a, **k):
                self.spied.append((a, k)); return self.o3(*a, **k)
            setattr(A, self.spy, sp)
        return self

    def __exit__(self, *exc):
        A = self.A
        A.integrate.odeint, A._my_odeint_ = self.o1, self.o2
        if self.spy:
            setattr(A, self.spy, self.o3)
        return False


def run_impl(EoN, case, patched=True):
    e = ENT[case['entry']]; p = P(case)
    with warnings.catch_warnings():
        warnings.simplefilter('ignore')
        old = np.seterr(all='ignore')
        try:
            if patched:
                with Patched(EoN, case['seed'], FWD.get(case['entry'])) as px:
                    try:
                        out = e['call'](EoN, p)
                    except Exception as ex:
                        return ('ERR', type(ex).__name__, str(ex)[:160]), px
                return ('OK', out), px
            try:
                return ('OK', e['call'](EoN, p)), None
            except Exception as ex:
                return ('ERR', type(ex).__name__, str(ex)[:160]), None
        finally:
            np.seterr(**old)


def layout(case):
    e = ENT[case['entry']]
    return e['lf'] if (case['full'] and e['lf']) else e['lp']


def compare(case, res, px, mo):
    """-> None when implementation and model agree, else a description"""
    m = parse_ret(mo) if case['kind'] != 'ar' else None
    if case['kind'] == 'ar':
        mo = mo.strip()
        if res[0] == 'ERR':
            return None if mo == 'ERR ' + CM.ERRMAP.get(res[1], res[1]) else 'impl raises %s, model: %s' % (res[1], mo[:80])
        if not mo.startswith('OK'):
            return 'impl returns %r, model: %s' % (res[1], mo[:80])
        v = float(F(mo.split()[1]))
        return None if near(float(res[1]), v) else 'attack rate after %d iterations: impl %.12g, model %.12g' % (case['a']['n'], float(res[1]), v)
    if m[0] == 'FAIL':
        return 'model driver failure: %s' % m[1]
    if res[0] == 'ERR':
        if m[0] == 'ERR' and m[1] == CM.ERRMAP.get(res[1], res[1]):
            return None
        return 'impl raises %s (%s), model %s' % (res[1], res[2][:80], m[1] if m[0] == 'ERR' else 'returns')
    if m[0] == 'ERR':
        return 'impl returns, model fails with %s' % m[1]
    _, mt, mx0, mser = m
    out = res[1]
    if not isinstance(out, tuple) or len(out) != 1 + len(mser):
        return 'impl returns %s values, model %d' % (len(out) if isinstance(out, tuple) else type(out).__name__, 1 + len(mser))
    if not near(np.asarray(out[0], dtype=float), mt, 1e-12):
        return 'times: impl %s, model %s' % (np.asarray(out[0]).tolist()[:6], mt.tolist()[:6])
    if case['kind'] == 'ode':
        if len(px.calls) != 1:
            return 'the solver was called %d times' % len(px.calls)
        x0, ts = px.calls[0]
        if not near(x0, mx0):
            return 'initial vector handed to the solver: impl %s, model %s' % (x0.round(6).tolist(), mx0.round(6).tolist())
        if not near(ts, mt, 1e-12):
            return 'time grid handed to the solver: impl %s, model %s' % (ts.tolist()[:6], mt.tolist()[:6])
    lay = layout(case)
    if [nm for nm, _ in mser] != lay:
        return 'the model returns the series %s, the documented order is %s' % ([nm for nm, _ in mser], lay)
    for (nm, mv), iv in zip(mser, out[1:]):
        a = tmajor(iv)
        if a.shape != mv.shape and a.size == mv.size:
            a = a.reshape(mv.shape) if a.ndim <= 1 else a
        if not near(a, mv):
            bad = None
            if a.shape == mv.shape and a.ndim >= 1 and len(a):
                rows = [j for j in range(len(a)) if not near(a[j], mv[j])]
                bad = rows[0] if rows else None
            return 'series %s (position %d of the returned tuple)%s: impl %s, model %s' % (
                nm, 1 + [x for x, _ in mser].index(nm), '' if bad is None else ' row %d' % bad,
                np.round(a[bad] if bad is not None else a, 6).tolist(), np.round(mv[bad] if bad is not None else mv, 6).tolist())
    return None


def fwd_lines(case):
    k = ENT[case['entry']]['kind']
    if k == 'ar':
        return 'ARV ' + args_tokens(case)
    return 'FWD %s %s %s' % (case['entry'], qtok(XPT), args_tokens(case))


def compare_fwd(case, px, mo):
    """what the wrapper handed to EBCM / EBCM_discrete / Attack_rate_*"""
    mo = mo.strip()
    if not px.spied:
        return None if mo.startswith('ERR') else 'the wrapper did not call %s' % FWD[case['entry']]
    if not mo.startswith('OK'):
        return 'wrapper calls %s, model: %s' % (FWD[case['entry']], mo[:80])
    a, k = px.spied[0]
    x = float(XPT)
    tgt = FWD[case['entry']]
    if tgt in ('EBCM', 'EBCM_discrete'):
        tk = mo.split(); mv = [float(F(t)) for t in tk[2:2 + int(tk[1])]]
        names = ['N', 'psihat', 'psihatPrime', 'tau', 'gamma', 'phiS0', 'phiR0', 'R0'] if tgt == 'EBCM' else ['N', 'psihat', 'psihatPrime', 'p', 'phiS0', 'phiR0', 'R0']
        b = dict(zip(names, a)); b.update(k)
        iv = [float(b['N']), float(b['psihat'](x)), float(b['psihatPrime'](x)), float(b['phiS0']), float(b.get('phiR0', 0)), float(b.get('R0', 0))]
        if not near(iv, mv):
            return '%s hands [N, psihat(3/4), psihatPrime(3/4), phiS0, phiR0, R0] = %s to %s, model %s' % (case['entry'], np.round(iv, 9).tolist(), tgt, np.round(mv, 9).tolist())
        return None
    parts = mo[2:].split('|')
    tk = parts[0].split(); npk = int(tk[0]); mpk = {int(tk[1 + 2 * i]): float(F(tk[2 + 2 * i])) for i in range(npk)}
    opt = lambda s: None if s.split()[0] == '0' else s.split()[1:]
    mrho = opt(parts[1]); msk = opt(parts[2]); mphis = opt(parts[3]); mphir = float(F(parts[4].split()[0]))
    names = ['Pk', 'p', 'rho', 'Sk0', 'phiS0', 'phiR0', 'number_its'] if tgt == 'Attack_rate_discrete' else ['Pk', 'tau', 'gamma', 'number_its', 'rho', 'Sk0', 'phiS0', 'phiR0']
    b = dict(zip(names, a)); b.update(k)
    if {kk: float(v) for kk, v in b['Pk'].items()}.keys() != mpk.keys() or not all(C.close(float(b['Pk'][kk]), mpk[kk]) for kk in mpk):
        return 'Pk handed to %s: impl %s model %s' % (tgt, b['Pk'], mpk)
    for nm, iv, mv in (('rho', b.get('rho'), None if mrho is None else float(F(mrho[0]))), ('phiS0', b.get('phiS0'), None if mphis is None else float(F(mphis[0]))), ('phiR0', b.get('phiR0', 0), mphir)):
        if (iv is None) != (mv is None) or (iv is not None and not C.close(float(iv), mv)):
            return '%s handed to %s: impl %r model %r' % (nm, tgt, iv, mv)
    isk = b.get('Sk0')
    if (isk is None) != (msk is None):
        return 'Sk0 handed to %s: impl %r model %r' % (tgt, isk, msk)
    if isk is not None:
        mv = [float(F(t)) for t in msk[1:1 + int(msk[0])]]
        if not near(np.asarray(isk, dtype=float), mv):
            return 'Sk0 handed to %s: impl %s model %s' % (tgt, np.round(np.asarray(isk, dtype=float), 9).tolist(), np.round(mv, 9).tolist())
    return None


# ------------------------------------------------------------------ oracle ----
def oracle(EoN, case):
    """the property, evaluated on the UNPATCHED implementation with the documented meaning of the arguments (no Coq model involved);
    -> list of (clause, what).  Used to look for a failing input of the property when the tie breaks."""
    e = ENT[case['entry']]
    if e['spec0'] is None or case.get('variant', '').startswith('err'):
        return []
    p = P(case)
    res, _ = run_impl(EoN, case, patched=False)
    if res[0] == 'ERR':
        return []        # acceptance of consistent requests is judged by harness/c06.py on requests it knows to be consistent
    out = res[1]
    try:
        want, N = e['spec0'](p)
    except Exception:
        return []
    lay = layout(case); vio = []
    if not isinstance(out, tuple) or len(out) != 1 + len(lay):
        return [('layout', '%s returns %s values, documented %d' % (case['entry'], len(out) if isinstance(out, tuple) else '?', 1 + len(lay)))]
    named = dict(zip(lay, out[1:]))
    t = np.asarray(out[0], dtype=float)
    if case['kind'] == 'ode':
        g = p.grid; wt = np.linspace(g['tmin'], g['tmax'], g['tcount'])
    else:
        z = p.z if case['entry'] != 'EBCM_discrete_uniform_introduction' else [0, p.z[1]]
        wt = np.arange(z[0], max(z[0], z[1]) + 1, dtype=float)
    if t.shape != wt.shape or not near(t, wt, 1e-12):
        vio.append(('times', '%s: times %s, requested %s' % (case['entry'], t.tolist()[:5], wt.tolist()[:5])))
    for nm, x in named.items():
        a = tmajor(x)
        if len(a) != len(wt):
            vio.append(('length:%s' % nm, '%s: series %s has %d rows, %d requested' % (case['entry'], nm, len(a), len(wt))))
        elif nm in want and len(a) and not near(a[0], np.asarray(want[nm], dtype=float), 1e-9):
            vio.append(('row0:%s' % nm, '%s: %s at tmin is %s, the arguments ask for %s' % (case['entry'], nm, np.round(a[0], 9).tolist(), np.round(np.asarray(want[nm], dtype=float), 9).tolist())))
    agg = {k: np.asarray(named[k], dtype=float) for k in ('S', 'I', 'R') if k in named}
    for k, parts in (('S', ('Sk', 'Ss')), ('I', ('Ik', 'Is')), ('R', ('Rk', 'Rs'))):
        for pn in parts:
            if k not in agg and pn in named:
                agg[k] = np.asarray(named[pn], dtype=float).sum(axis=0)
    need = ('S', 'I', 'R') if 'R' in lay or 'Rk' in lay or 'Rs' in lay else ('S', 'I')
    if all(k in agg for k in need):
        tot = sum(agg[k] for k in need)
        fin = np.isfinite(tot)
        if fin.any() and np.max(np.abs(tot[fin] - N)) > 1e-6 * max(1.0, abs(N)):
            j = int(np.argmax(np.abs(np.where(fin, tot - N, 0))))
            vio.append(('conserve', '%s: S+I%s = %.9g at row %d, N = %g' % (case['entry'], '+R' if len(need) == 3 else '', tot[j], j, N)))
    return vio


# --------------------------------------------------------------------- part ----
def gen_cases(rng, tier):
    per = 10 if tier == 'quick' else 120
    cases = []
    for name, e in ENT.items():
        fulls = [False, True] if e['lf'] else [False]
        for full in fulls:
            for i in range(per if e['kind'] != 'ar' else 2 * per):
                c = e['gen'](rng)
                c.update(entry=name, kind=e['kind'], full=full, seed=rng.randrange(2 ** 30))
                c.setdefault('variant', '')
                cases.append(c)
    return cases


def evaluate(EoN, cases):
    """-> list of (case, res, px, model line, fwd line or None)"""
    runs = []
    for c in cases:
        res, px = run_impl(EoN, c)
        M = len(px.calls[0][0]) if px.calls else 0
        runs.append((c, res, px, model_line(c, M), fwd_lines(c) if c['entry'] in FWD else None))
    return runs


def part(run, EoN, tier, props):
    """called from harness/c06.py: re-check Props/C06out.v, tie component 'out' to the implementation"""
    C.extra_props(run, 'C06', props, ['C06out'])
    ok, log = C.build_driver(COMP)
    if not ok:
        run.violation('C06/build/out', 'extracted model (component out) does not build: ' + log[-500:], {'log': log[-3000:]}, no_input=True)
        return {'status': 'build failed'}
    import random
    rng = random.Random(repr((run.seed, 'C06out')))
    cases = C.load_corpus('C06out') + gen_cases(rng, tier)
    runs = evaluate(EoN, cases)
    outs = C.run_model([r[3] for r in runs], COMP)
    fl = [(i, r[4]) for i, r in enumerate(runs) if r[4] is not None]
    fouts = dict(zip([i for i, _ in fl], C.run_model([l for _, l in fl], COMP)))
    per = {}; mism = {}
    for i, ((c, res, px, line, fline), mo) in enumerate(zip(runs, outs)):
        d = per.setdefault(c['entry'], {'cases': 0, 'agree': 0, 'agree_error': 0, 'variants': {}})
        d['cases'] += 1
        d['variants'][c.get('variant', '')] = d['variants'].get(c.get('variant', ''), 0) + 1
        why = compare(c, res, px, mo)
        if why is None and fline is not None:
            why = compare_fwd(c, px, fouts[i])
        if why is None:
            d['agree'] += 1; d['agree_error'] += res[0] == 'ERR'
        else:
            mism.setdefault(c['entry'], []).append((c, why))
    for name, lst in mism.items():
        # the theorems are about the model: look for a failing input of the property itself on these inputs
        found = None
        for c, why in lst:
            v = oracle(EoN, c)
            if v:
                found = (c, why, v); break
        c, why = min(lst, key=lambda cw: len(json.dumps(cw[0])))
        if found:
            c, why, v = found
            run.violation('C06/out/%s/%s' % (name, v[0][0]), '%s [found after the tie Model/Outputs*.v <-> implementation broke on this input: %s]' % (v[0][1], why[:300]),
                          {'kind': 'c06out', 'case': c, 'clause': v[0][0], 'tie': why})
        else:
            run.violation('C06/out/correspondence/%s' % name,
                          'correspondence coq/Model/Outputs*.v <-> EoN.%s no longer checks (%d of %d cases; the theorems of Props/C06out.v are about the model): %s; '
                          'the specification oracle on the unpatched implementation found no failing input of the property among them' % (name, len(lst), per[name]['cases'], why[:400]),
                          {'kind': 'c06out', 'case': c, 'clause': 'correspondence', 'broken': 'correspondence coq/Model/Outputs*.v vs EoN.%s' % name, 'tie': why}, no_input=True)
    return {'component': COMP, 'cases': len(cases), 'agree': sum(d['agree'] for d in per.values()), 'mismatching_entries': sorted(mism),
            'entries': len(per), 'per_entry': per,
            'rule': 'per entry point and return_full_data value: random dyadic arguments (arrays of length 1-5, non-symmetric matrices, rectangular effective-degree blocks), '
                    'every keyword path (rho / Y0 / X0 / XY0+XX0 / nodelist absent or shuffled / initial_recovereds absent, empty, non-empty / Ks / weights / tmin != 0 / tcount 1-5), '
                    'argument errors; solver replaced by one that returns X0 followed by random dyadic rows; all rows of all series compared'}


def replay(r):
    EoN = C.import_eon()
    c = r['case']
    if r.get('clause') == 'correspondence':
        ok, log = C.build_driver(COMP)
        res, px = run_impl(EoN, c)
        M = len(px.calls[0][0]) if px.calls else 0
        mo = C.run_model([model_line(c, M)], COMP)[0]
        why = compare(c, res, px, mo)
        if why is None and c['entry'] in FWD:
            why = compare_fwd(c, px, C.run_model([fwd_lines(c)], COMP)[0])
        print('replay c06out correspondence: %s' % (why or 'agrees'))
        return 1 if why else 0
    v = oracle(EoN, c)
    for cl, what in v:
        print('still failing:' if cl == r.get('clause') else 'also:', cl, what)
    return 1 if any(cl == r.get('clause') for cl, _ in v) else 0
