"""C16, float side: "the total rate used for the clock equals the sum of current weights (to rounding)".
Theorems: coq/Props/C16f.v over coq/Model/ListDictF.v (the operations of _ListDict_ with a rounding where the
code performs a float operation).  This module is called from harness/c16.py (one line at its end):
 (1) re-checks Props/C16f.v; its theorems join the obligations of C16;
 (2) runs the real class on histories of binary64 weights (ordinary, 2^-40-scaled, huge, mixed magnitudes,
     decimal fractions) and evaluates the PROVED bounds on its own outputs with exact Fractions and eps = 2^-53:
     drift <= gam(n) * 2 * peak, drift <= gam(n) * 2 * (1+eps)^n * W_hist, an emptied structure has total 0
     exactly, insert stores the weight exactly, an increment is off by at most eps relative
     -- a violated bound is a failing input of C16;
 (3) bit-exact tie: the extracted model at rnd := rnd53 (component 'ldf') against the class, weights and total
     compared as exact rationals after every operation, and the three arithmetic operations themselves
     (rnd53(a+b), rnd53(a-b), rnd53(a/b) against Python's a+b, a-b, a/b on random binary64 pairs)."""
from fractions import Fraction as F
from . import common as C

CLAIM = dict(
    claimed=False,
    text="Float side of C16 (part of ./check C16): machine-checked theorems (coq/Props/C16f.v, closed under the global context) over the model of _ListDict_ "
         "with a rounding at every float operation of the code: for every rounding with |rnd x - x| <= eps|x| and every history of n total-roundings with "
         "non-negative weights, |_total_weight - sum of stored weights| <= ((1+eps)^n - 1) * 2 * peak <= ((1+eps)^n - 1) * 2 (1+eps)^n * (sum of all weights ever handed in); "
         "an emptied structure has total exactly 0; insert stores the weight exactly; the concrete binary64 rounding rnd53 (defined over Z and Q) satisfies the hypothesis "
         "with eps = 2^-53 for every rational and is idempotent, so under binary64 max_weight bounds every stored weight; stored weights are exactly the specification's when every increment creates its key, within (1-+eps)^j otherwise; update_total_weight() and the 1e-7 guard of Gillespie_simple_contagion restore relative accuracy and non-negativity. Tie: extracted model at rnd53 vs the class, bit for bit after every operation; the proved bounds evaluated on the class's own outputs.",
    design='DESIGN.md section 4, C16 (float side)',
    technique='Coq proof (rounding error recurrence over histories; relative error of round-to-nearest-even) + bit-exact extracted-model/implementation correspondence + proved bounds as oracle',
    note='part of C16; overflow (|x| >= 2^1024) and division results in the subnormal range are outside rnd53 (unbounded exponent)')

EPS = F(1, 2 ** 53)
DEC = [0.1, 0.2, 0.3, 0.7, 0.4, 1e-20, 1e-7, 3e-8, 1.0, 2.5]


def gam_ub(n):
    """(1+eps)^n - 1 <= n eps / (1 - n eps) for n eps < 1: an upper bound of the proved factor, so the check stays a proved bound"""
    return n * EPS / (1 - n * EPS)


def g_ub(n):
    return 1 + gam_ub(n)


def gen_weight(rng, style):
    if style == 'dec':
        return rng.choice(DEC)
    m = rng.random() + rng.choice([0.0, 0.0, 1.0, 7.0])          # full 53-bit mantissas
    if rng.random() < 0.08:
        return 0.0
    if style == 'plain':
        return m
    if style == 'tiny':
        return m * 2.0 ** -40
    if style == 'huge':
        return m * 2.0 ** rng.choice([40, 100, 200])
    return m * 2.0 ** rng.randint(-60, 60)                       # mixed magnitudes


def gen_hist(rng, n):
    style = rng.choice(['plain', 'tiny', 'huge', 'mixed', 'mixed', 'dec', 'dec'])
    nk = rng.randint(1, 6)
    ops = []; present = set()
    for _ in range(n):
        k = rng.randrange(nk); r = rng.random()
        w = gen_weight(rng, style)
        if r < 0.35: op = ('I', k, w)
        elif r < 0.55: op = ('U', k, w)
        elif present: op = ('R', rng.choice(sorted(present)))      # drain: removals reach emptiness often
        else: op = ('I', k, w)
        if op[0] == 'I':
            present.discard(k)
            if w != 0: present.add(k)
        elif op[0] == 'U': present.add(k)
        else: present.discard(op[1])
        ops.append(op)
    if rng.random() < 0.3:
        for k in sorted(present): ops.append(('R', k))
    return style, ops


def cost(op):
    return {'I': 2, 'U': 1, 'R': 1}[op[0]]


def run_impl(sim, ops):
    """the real class on float weights; after every op: stored weights and total as exact rationals; verdict of the proved bounds"""
    ld = sim._ListDict_(weighted=True)
    obs = []; bad = None
    n = 0; whist = F(0); peak = F(0)
    for i, op in enumerate(ops):
        before = {k: F(ld.weight[k]) for k in ld.items}
        sb = sum(before.values())
        hw = F(op[2]) if len(op) > 2 else F(0)
        n += cost(op); whist += hw; peak = max(peak, sb + hw)
        try:
            if op[0] == 'I': ld.insert(op[1], weight=op[2])
            elif op[0] == 'U': ld.update(op[1], weight_increment=op[2])
            else: ld.remove(op[1])
        except Exception as e:
            obs.append({'err': type(e).__name__})
            if bad is None: bad = ('raises', 'step %d %r raised %s on a valid history' % (i, op, type(e).__name__))
            break
        try:
            st = {k: F(ld.weight[k]) for k in ld.items}
            T = F(ld.total_weight()); S = sum(st.values())
        except (OverflowError, ValueError, TypeError) as e:
            obs.append({'err': 'non-finite'})
            if bad is None: bad = ('non-finite', 'step %d %r: total_weight() = %r / stored weights %r are not finite numbers although all weights are finite and far from overflow' % (i, op, ld.total_weight(), dict(ld.weight)))
            break
        obs.append({'w': st, 'T': T, 'hex': float(ld.total_weight()).hex() if isinstance(ld.total_weight(), float) else str(ld.total_weight())})
        if bad is not None: continue
        d = abs(T - S)
        if not st and T != 0:
            bad = ('emptied', 'step %d %r: no candidate left but total_weight() = %r (C16f_emptied_total_is_zero: exactly 0)' % (i, op, ld.total_weight()))
        elif d > gam_ub(n) * 2 * peak:
            bad = ('drift-peak', 'step %d %r: |total_weight - sum of stored weights| = %.3e exceeds the proved bound gam(%d)*2*peak = %.3e (C16f_drift_bound_peak)' % (i, op, float(d), n, float(gam_ub(n) * 2 * peak)))
        elif d > gam_ub(n) * 2 * g_ub(n) * whist:
            bad = ('drift-hist', 'step %d %r: |total_weight - sum of stored weights| = %.3e exceeds the proved bound gam(n)*2*(1+eps)^n*W_hist = %.3e (C16f_drift_bound_history)' % (i, op, float(d), float(gam_ub(n) * 2 * g_ub(n) * whist)))
        elif op[0] == 'I' and op[2] != 0 and st.get(op[1]) != hw:
            bad = ('insert-exact', 'step %d %r: insert must store the weight exactly (C16f_insert_stores_exactly), stored %r' % (i, op, ld.weight.get(op[1])))
        elif op[0] == 'I' and op[2] == 0 and op[1] in st:
            bad = ('insert-zero', 'step %d %r: insert with weight 0 must leave the key absent' % (i, op))
        elif op[0] == 'U':
            ideal = before.get(op[1], F(0)) + hw
            if abs(st.get(op[1], F(-1)) - ideal) > EPS * ideal:
                bad = ('update-rel', 'step %d %r: stored weight %r is not within eps of old + increment = %s (C16f_update_relative_error)' % (i, op, ld.weight.get(op[1]), float(ideal)))
            elif op[1] not in before and st.get(op[1]) != hw:
                bad = ('update-fresh', 'step %d %r: an increment on an absent key must store it exactly, stored %r' % (i, op, ld.weight.get(op[1])))
        if bad is None:
            others_b = {k: v for k, v in before.items() if k != op[1]}
            others_a = {k: v for k, v in st.items() if k != op[1]}
            if others_a != others_b:
                bad = ('others', 'step %d %r changed the stored weight of another candidate: %r -> %r' % (i, op, others_b, others_a))
    if bad is None and obs and 'err' not in obs[-1]:
        # after the history: max_weight bounds every stored weight (accept probability <= 1), thresholds are one rounding of
        # weight/max_weight, update_total_weight() has the proved relative accuracy and is never negative
        st = obs[-1]['w']
        if st:
            M = F(ld.max_weight)
            for k in sorted(st):
                if st[k] > M:
                    bad = ('max-bound', 'after the history max_weight %r is below the stored weight %r of candidate %r: accept probability > 1, selection not proportional' % (ld.max_weight, ld.weight[k], k)); break
                if M > 0:
                    t = F(ld.weight[k] / ld.max_weight); q = st[k] / M
                    if not ((1 - EPS) * q <= t <= (1 + EPS) * q):
                        bad = ('threshold', 'accept threshold %r of candidate %r is not within 1 -+ eps of weight/max_weight (C16f_accept_threshold_relative)' % (ld.weight[k] / ld.max_weight, k)); break
        if bad is None:
            ld.update_total_weight()
            T = F(ld.total_weight()); S = sum(st.values()); m = len(st)
            if T < 0 or abs(T - S) > gam_ub(m) * S:
                bad = ('resum', 'update_total_weight() gives %r for stored weights summing to %.17g: outside the proved relative bound gam(%d) (C16f_update_total_weight_relative)' % (ld.total_weight(), float(S), m))
            naive = 0
            for k in ld.items: naive = naive + ld.weight[k]          # what sum() computes without compensation (CPython < 3.12): the model's fsum
            obs.append({'resum': T, 'w': st, 'naive': F(naive)})
    return obs, bad


NAIVE_SUM = sum([0.1] * 10) != 1.0      # CPython >= 3.12 compensates float sums: then update_total_weight() is tied by its proved bound only


def impl_view(obs):
    out = []
    for o in obs:
        if 'err' in o: out.append('E ' + o['err']); continue
        s = 'S %d' % len(o['w'])
        for k in sorted(o['w']):
            s += ' %d:%s/%s' % (k, o['w'][k].numerator, o['w'][k].denominator)
        T = o['naive'] if 'resum' in o else o['T']
        s += ' T %s/%s' % (T.numerator, T.denominator)
        out.append(s)
    return out


def model_view(mo):
    import re
    return [re.sub(r' M \S+$', '', p.strip()) for p in mo.split('|') if p.strip()]


def fmt(ops):
    t = ['LDF', str(len(ops) + 1)]
    for op in ops:
        t += [op[0], str(op[1])] + ([C.qtok(F(op[2]))] if len(op) > 2 else [])
    return ' '.join(t + ['S'])          # update_total_weight() as the plain left fold at the end


def arith_cases(rng, n):
    """pairs of binary64 numbers for the tie of +, -, / themselves: near-cancellation, absorption, ties, subnormal sums"""
    cs = []
    for i in range(n):
        a = (rng.random() + rng.choice([0, 1, 3])) * 2.0 ** rng.randint(-80, 80)
        r = rng.random()
        if r < 0.3: b = a * (1 + rng.choice([-1, 1]) * 2.0 ** -rng.randint(1, 60))      # near a: cancellation
        elif r < 0.5: b = a * 2.0 ** -rng.choice([52, 53, 54, 55])                   # half-ulp ties
        elif r < 0.6: a = a * 2.0 ** -1050; b = rng.random() * 2.0 ** -1060          # subnormal range: sums exact
        else: b = (rng.random() + 1) * 2.0 ** rng.randint(-80, 80)
        op = rng.choice('+-/') if abs(a) > 2.0 ** -500 and abs(b) > 2.0 ** -500 else rng.choice('+-')
        if op == '/' and b == 0: op = '+'
        cs.append((op, a, b))
    return cs


def part(run, tier, props=None):
    """float side of C16; violations are reported on `run`; returns the evidence dict"""
    EoN = C.import_eon()
    import EoN.simulation as sim
    rng = run.rng
    ev = {'props': 'Props/C16f.v'}
    xp = C.check_props('C16f')
    ev['theorems'] = xp['theorems']; ev['print_assumptions'] = xp['axioms']; ev['ok'] = xp['ok']
    if props is not None:
        props['theorems'] = list(props['theorems']) + list(xp['theorems'])
        props['axioms'] = dict(props['axioms'], **xp['axioms'])
        if not xp['ok']: props['ok'] = False
    if not xp['ok']:
        run.violation('C16/proof/C16f', 'Props/C16f.v no longer checks: %s' % xp['log'][-400:], {'broken': 'coq/Props/C16f.v', 'log': xp['log']}, no_input=True)
    ok, log = C.build_driver('ldf')
    if not ok:
        run.violation('C16/build/ldf', 'extracted rounded model does not build: ' + log[-500:], {'log': log[-3000:]}, no_input=True)
    nh = 1200 if tier == 'quick' else 20000
    cases = []
    for c in C.load_corpus('C16f'):
        cases.append(('corpus', [tuple(o[:2]) + ((float.fromhex(o[2]),) if len(o) > 2 else ()) for o in c['ops']]))
    for i in range(nh):
        cases.append(gen_hist(rng, rng.randint(1, 14 if i % 4 else 120)))
    stats = {'histories': len(cases), 'ops': 0, 'emptied_states': 0, 'nonzero_drift_states': 0, 'negative_total_states': 0, 'max_drift_over_bound': 0.0, 'styles': {}}
    res = []
    for style, ops in cases:
        obs, bad = run_impl(sim, ops)
        res.append((obs, bad))
        stats['ops'] += len(ops); stats['styles'][style] = stats['styles'].get(style, 0) + 1
        for o in obs:
            if 'err' in o or 'resum' in o: continue
            if not o['w']: stats['emptied_states'] += 1
            if o['T'] != sum(o['w'].values()): stats['nonzero_drift_states'] += 1
            if o['T'] < 0: stats['negative_total_states'] += 1
    lines = [fmt(ops) for _, ops in cases]
    acs = arith_cases(rng, 4000 if tier == 'quick' else 60000)
    alines = []
    for i in range(0, len(acs), 50):
        ch = acs[i:i + 50]
        alines.append('AR %d ' % len(ch) + ' '.join('%s %s %s' % (o, C.qtok(F(a)), C.qtok(F(b))) for o, a, b in ch))
    outs = C.run_model(lines + alines, 'ldf') if ok else []
    spec_bad = []; mism = []; samples = []
    for (style, ops), (obs, bad), mo in zip(cases, res, outs[:len(lines)] if ok else [None] * len(cases)):
        rp = {'kind': 'c16f', 'ops': [[o[0], o[1]] + ([float(o[2]).hex()] if len(o) > 2 else []) for o in ops]}
        if bad:
            spec_bad.append((len(ops), bad, rp))
        if mo is None: continue
        mv = model_view(mo); iv = impl_view(obs)
        if 'DRIVERFAIL' in mo or mv != iv:
            d = next((i for i, (a, b) in enumerate(zip(mv, iv)) if a != b), min(len(mv), len(iv)))
            mism.append((len(ops), 'first difference at operation %d: model %r, implementation %r' % (d, mv[d] if d < len(mv) else None, iv[d] if d < len(iv) else None), rp))
        elif len(samples) < 3 and 4 <= len(ops) <= 12 and any(o.get('T') != sum(o.get('w', {}).values()) for o in obs if 'err' not in o and 'resum' not in o):
            samples.append({'style': style, 'ops': rp['ops'], 'totals_hex': [o.get('hex') for o in obs if 'resum' not in o]})
    amis = []
    if ok:
        k = 0
        for line, mo in zip(alines, outs[len(lines):]):
            toks = mo.split()
            n = int(line.split()[1])
            for j in range(n):
                o, a, b = acs[k]; k += 1
                py = a + b if o == '+' else a - b if o == '-' else a / b
                got = toks[j] if j < len(toks) else 'missing'
                exp = '%d/%d' % (F(py).numerator, F(py).denominator)
                if got != exp and len(amis) < 5:
                    amis.append('%s %s %s: python %s, rnd53 %s' % (a.hex(), o, b.hex(), py.hex(), got))
    if spec_bad:
        n, (kind, what), rp = min(spec_bad, key=lambda x: x[0])
        run.violation('C16/_ListDict_/float/' + kind, '_ListDict_ with binary64 weights violates a proved rounding property (Props/C16f.v): ' + what, dict(rp, what=what, check=kind))
    elif mism:
        n, what, rp = min(mism, key=lambda x: x[0])
        run.violation('C16/_ListDict_/float/correspondence',
                      'bit-exact correspondence Model/ListDictF.v (rnd53) <-> EoN.simulation._ListDict_ on binary64 weights no longer checks (the theorems of Props/C16f.v are about the model); '
                      'the proved bounds evaluated on the implementation found no failing input; ' + what,
                      dict(rp, broken='correspondence Model/ListDictF.v at rnd53 vs _ListDict_', what=what), no_input=True)
    if amis:
        run.violation('C16/float/arith-tie', 'rnd53 (Model/ListDictF.v) is not what this Python computes for binary64 +, -, /: ' + '; '.join(amis[:3]),
                      {'kind': 'c16f-arith', 'broken': 'rnd53 vs Python float arithmetic', 'cases': amis}, no_input=True)
    ev.update({'distribution': stats, 'mismatches': len(mism), 'bound_failures': len(spec_bad), 'arith_pairs': len(acs), 'arith_mismatches': len(amis), 'samples': samples,
               'rule': '%d random histories (1-14 ops, every fourth up to 120) of binary64 weights in seven styles (plain, 2^-40-scaled, 2^40..2^200-scaled, per-weight scale 2^-60..2^60, '
                       'decimal fractions incl. 1e-20); insert/update/remove of present keys, 30%% drained to empty at the end. After EVERY operation: stored weights and total_weight() '
                       'as exact rationals equal to the extracted model at rnd53; proved bounds evaluated with eps=2^-53 and gam(n) <= n eps/(1-n eps); %d arithmetic pairs for +,-,/' % (len(cases), len(acs))})
    ev['observation_absorbed_total'] = probe_absorbed(EoN)
    run.coverage['float_side'] = ev
    run.assumptions += ['binary64 +,- are correctly rounded (IEEE-754 round-to-nearest-even) and equal rnd53 of Model/ListDictF.v outside overflow: proved for rnd53 (relative error 2^-53 for every rational), tied to this Python bit for bit on %d pairs and on every history' % len(acs)]
    return ev


def probe_absorbed(EoN):
    """not a verdict: records whether the run-level consequence of C16f_total_can_be_absorbed_to_zero is present (see
    proposed_known_findings.json, key C16/_ListDict_/float-total-lost-below-eps-of-peak): two isolated infected nodes with recovery
    weights 0.1 and 1e-20, tmax=inf; exact arithmetic ends with I = 0"""
    try:
        import networkx as nx, random as pyrandom
        G = nx.Graph(); G.add_nodes_from([0, 1]); nx.set_node_attributes(G, {0: 0.1, 1: 1e-20}, 'rw')
        st = pyrandom.getstate(); pyrandom.seed(0)
        try:
            t, S, I, R = EoN.Gillespie_SIR(G, 1.0, 1.0, initial_infecteds=[0, 1], recovery_weight='rw', tmax=float('Inf'))
        finally:
            pyrandom.setstate(st)
        return {'entry': 'Gillespie_SIR', 'recovery_weights': [0.1, 1e-20], 'tmax': 'inf', 'I': [int(x) for x in I],
                'ends_with_infected_node': bool(I[-1] > 0)}
    except Exception as e:
        return {'error': type(e).__name__}


def wrap(run0, replay0):
    """called by the single line added at the end of harness/c16.py: the check of C16 = its exact side + this float side"""
    def run(run, tier):
        run0(run, tier)
        ev = part(run, tier)
        cov = run.coverage
        if 'theorems' in cov:
            cov['theorems'] = list(cov['theorems']) + list(ev['theorems'])
            cov['obligations'] = len(cov['theorems'])
            cov['discharged'] = cov.get('discharged', 0) + (len(ev['theorems']) if ev['ok'] else 0)
            cov['print_assumptions'] = dict(cov.get('print_assumptions', {}), **ev['print_assumptions'])
            cov['evaluations'] = cov.get('evaluations', 0) + ev['distribution']['histories']
            cov['rule'] = cov.get('rule', '') + ' || float side: ' + ev['rule']
    def replay(rp):
        if isinstance(rp.get('replay'), dict) and str(rp['replay'].get('kind', '')).startswith('c16f'):
            return replay_f(rp)
        return replay0(rp)
    return run, replay


def replay_f(rp):
    EoN = C.import_eon()
    import EoN.simulation as sim
    r = rp['replay']
    if r.get('kind') == 'c16f-arith':
        print('arithmetic tie:', r.get('cases')); return 1
    ops = [tuple(o[:2]) + ((float.fromhex(o[2]),) if len(o) > 2 else ()) for o in r['ops']]
    obs, bad = run_impl(sim, ops)
    print('history:', [(o[0], o[1]) + ((o[2],) if len(o) > 2 else ()) for o in ops])
    print('totals:', [o.get('hex', o.get('err')) for o in obs if 'resum' not in o])
    print('verdict of the proved bounds:', bad or 'hold')
    if bad: return 1
    if r.get('broken'):
        okb, log = C.build_driver('ldf')
        mo = C.run_model([fmt(ops)], 'ldf')[0]
        same = model_view(mo) == impl_view(obs)
        print('bit-exact correspondence with the model:', 'holds' if same else 'broken')
        return 0 if same else 1
    return 0
