"""Cross-cutting properties C04 / C09 / C10 for the event-driven SIR simulator
(fast_nonMarkov_SIR; fast_SIR shares the loop): theorem files coq/Props/C04esir.v,
C09esir.v, C10esir.v, and the extracted checkers wf_trajb / tx_validb of
coq/Model/EventSIRChk.v applied to the implementation's own outputs.
Run: ./check esirx [--tier quick|thorough].  The property checks c04/c09/c10 can call
esir_lib.xprops() and esir_lib.xchk_impl() themselves; this module is their stand-alone form."""
from fractions import Fraction as F
from . import common as C
from . import esir_lib as EL

CLAIM = dict(
    claimed=False,
    text="Machine-checked theorems (coq/Props/C04esir.v, C09esir.v, C10esir.v, closed under the global context) for fast_nonMarkov_SIR with table rules, "
         "for EVERY tie policy, graph, rule tables, initial sets, tmin/tmax inside esir_okb2: the returned rows are a well-formed trajectory and the running census "
         "of the run's event log (first row as requested for the code's heap order, or when the initial nodes have positive delays/durations, or without ties); "
         "transmissions() is causally valid and complete (edge, source infectious on the closed interval, target susceptible just before, one entry per infection, "
         "source-less entries = the initial nodes at tmin, forest); node histories are the transforms of the per-node events of the same log and summary() lists, per "
         "distinct time, the last row of the arrays at that time (= the arrays when there are no ties).",
    design='DESIGN.md section 4, C04 / C09 / C10 (iv)',
    technique='Coq proof (lock-step invariant of event log, transmissions, rows, pred_inf_time/rec_time over the event loop) + extracted checkers on implementation outputs',
    note='stand-alone form of the esir part of C04/C09/C10')


def run(run, tier):
    EoN = C.import_eon()
    import EoN.simulation as sim
    props = EL.xprops()
    merged = {'ok': all(p['ok'] for p in props.values()),
              'theorems': [t for p in props.values() for t in p['theorems']],
              'axioms': {k: v for p in props.values() for k, v in p['axioms'].items()},
              'log': ' | '.join(p['log'][-300:] for p in props.values() if not p['ok'])}
    for name, p in props.items():
        if not p['ok']:
            run.violation('ESIRX/proof/%s' % name, 'Props/%s.v no longer checks: %s' % (name, p['log'][-400:]),
                          {'broken': 'coq/Props/%s.v' % name, 'log': p['log']}, no_input=True)
    ok, log = C.build_driver(EL.XCOMP)
    if not ok:
        run.violation('ESIRX/build', 'extracted checkers do not build: ' + log[-500:], {'log': log[-3000:]}, no_input=True)
        C.proof_coverage(run, merged, 1, 0, 'build failed', [log[-300:]]); return
    rng = run.rng
    n = 400 if tier == 'quick' else 6000
    cases = []
    for i in range(n):
        c = EL.gen_case(rng, 'NM', nmax=7, zero_init_dur=(i % 3 == 0))
        if EL.xchk_domain(c): cases.append(c)
    res = EL.xchk_impl(EoN, sim, cases)
    judged = nontrivial = 0
    stats = {'impl_failed': 0, 'outside_domain': 0}
    samples = []
    for case, v, plain, full in res:
        if 'skip' in v: continue
        if 'fail' in v:
            run.violation('ESIRX/driver', 'checker driver failed: %r' % (v['fail'],), {'case': EL.case_json(case)}, no_input=True); continue
        if not v['okb2']:
            stats['outside_domain'] += 1; continue
        if 'impl_failed' in v:
            stats['impl_failed'] += 1
            run.violation('C04/fast_nonMarkov_SIR/returns', 'inside esir_okb2 the model returns in both modes (C04_esir_rows_well_formed), the implementation did not: %r' % (v['impl_failed'],),
                          dict(EL.case_json(case), entry='fast_nonMarkov_SIR', checker='returns'))
            continue
        judged += 1
        if len(plain['rows']) >= 2: nontrivial += 1
        if len(samples) < 3: samples.append({'rows': plain['rows'][:4], 'trans': full['trans'][:4]})
        if v['traj'] is False:
            run.violation('C04/fast_nonMarkov_SIR/wf_trajb', 'the extracted checker wf_trajb rejects the implementation\'s arrays %r' % (plain['rows'][:8],),
                          dict(EL.case_json(case), entry='fast_nonMarkov_SIR', checker='wf_trajb'))
        if v.get('cons') is False:
            run.violation('C10/fast_nonMarkov_SIR/consistent_b', 'the extracted checker consistent_b rejects the implementation\'s node histories %r against its plain arrays %r' % (
                          dict(list(full['hist'].items())[:4]), plain['rows'][:8]), dict(EL.case_json(case), entry='fast_nonMarkov_SIR', checker='consistent_b'))
        if v['tx'] is False:
            run.violation('C09/fast_nonMarkov_SIR/tx_validb', 'the extracted checker tx_validb rejects the implementation\'s transmissions() %r' % (full['trans'][:8],),
                          dict(EL.case_json(case), entry='fast_nonMarkov_SIR', checker='tx_validb'))
    C.proof_coverage(run, merged, judged, nontrivial,
                     'fast_nonMarkov_SIR with table rules (delays in {0,1/2,1,2,3,inf}, durations in {0,1/2,1,2,inf}: ties and events at tmin are normal), random graphs '
                     '<= 7 nodes incl. directed, 0-3 initial infected (all container forms), 0-2 initial recovered, tmin in {0,5,-3,5/2,..}, finite and infinite tmax; both '
                     'return modes of the implementation; extracted wf_trajb on the plain arrays, tx_validb on transmissions(), consistent_b on (node histories, plain arrays). Non-trivial = at least one event after set-up.',
                     samples, {'stats': stats, 'props': {k: {'ok': p['ok'], 'theorems': p['theorems']} for k, p in props.items()}})


def replay(rp):
    EoN = C.import_eon(); import EoN.simulation as sim
    j = rp['replay']
    case = EL.case_from_json(j)
    C.build_driver(EL.XCOMP)
    (_, v, plain, full), = EL.xchk_impl(EoN, sim, [case])
    print('verdict of the extracted checkers on the implementation outputs:', v)
    return 1 if (v.get('traj') is False or v.get('tx') is False or v.get('cons') is False or (v.get('okb2') and 'impl_failed' in v)) else 0


WHICH = {'C04': ('traj', 'wf_trajb', 'C04esir'), 'C09': ('tx', 'tx_validb', 'C09esir'), 'C10': ('cons', 'consistent_b', 'C10esir')}


def part(run, tier, pid, props, per):
    """the esir part of property pid (C04 / C09 / C10), called from harness/c04.py, c09.py, c10.py: re-checks
    Props/<pid>esir.v (its theorems join the obligations of pid) and applies the extracted checker of that property
    to the implementation's own outputs; a rejection is a failing input of the property."""
    EoN = C.import_eon()
    import EoN.simulation as sim
    field, chk, pname = WHICH[pid]
    xp = C.check_props(pname)
    props['theorems'] = list(props['theorems']) + list(xp['theorems'])
    props['axioms'] = dict(props['axioms'], **xp['axioms'])
    if not xp['ok']:
        props['ok'] = False
        props['log'] = (props.get('log') or '') + ' | ' + xp['log'][-400:]
        run.violation('%s/proof/%s' % (pid, pname), 'Props/%s.v no longer checks: %s' % (pname, xp['log'][-400:]),
                      {'broken': 'coq/Props/%s.v' % pname, 'log': xp['log']}, no_input=True)
    ok, log = C.build_driver(EL.XCOMP)
    if not ok:
        run.violation('%s/build/esirx' % pid, 'extracted checkers do not build: ' + log[-500:], {'log': log[-3000:]}, no_input=True)
        return
    rng = run.rng
    n = 300 if tier == 'quick' else 4000
    cases = []
    for i in range(n):
        c = EL.gen_case(rng, 'NM', nmax=7, zero_init_dur=(i % 3 == 0))
        if EL.xchk_domain(c): cases.append(c)
    judged = rejected = 0
    for case, v, plain, full in EL.xchk_impl(EoN, sim, cases):
        if 'skip' in v or not v.get('okb2', False) and 'fail' not in v: continue
        if 'fail' in v:
            run.violation('%s/esirx/driver' % pid, 'checker driver failed: %r' % (v['fail'],), {'case': EL.case_json(case)}, no_input=True); continue
        if 'impl_failed' in v:
            if pid == 'C04':
                run.violation('C04/fast_nonMarkov_SIR/returns', 'inside esir_okb2 the model returns in both modes (C04_esir_rows_well_formed), the implementation did not: %r' % (v['impl_failed'],),
                              dict(EL.case_json(case), entry='fast_nonMarkov_SIR', checker='returns'))
            continue
        judged += 1
        if v.get(field) is False:
            rejected += 1
            shown = {'traj': plain['rows'][:8], 'tx': full['trans'][:8], 'cons': (dict(list(full['hist'].items())[:4]), plain['rows'][:8])}[field]
            run.violation('%s/fast_nonMarkov_SIR/%s' % (pid, chk), 'the extracted checker %s (proved sound and accepted on every model run, Props/%s.v) rejects the implementation\'s output %r' % (chk, pname, shown),
                          dict(EL.case_json(case), entry='fast_nonMarkov_SIR', checker=chk))
    per['fast_nonMarkov_SIR/extracted-checker'] = {'proved': True, 'props': 'Props/%s.v' % pname, 'checker': chk, 'judged': judged, 'rejected': rejected}
