"""C19: calls do not modify their arguments and can be repeated.

Static part (the proof): translate/effects2v.py regenerates coq/Gen/Effects.v (the effect
skeleton of every function of EoN/simulation.py, EoN/analytic.py) from /repo's working
tree; coq/Props/C19.v is recompiled over it (generated obligation closed by vm_compute,
soundness of the checker in Proofs/EffectsSound*.v); the per-function verdict (parameters that
may be modified, with source lines) is computed by the same checker.

Dynamic part (the tie): every public entry point is called on small inputs with a deep
snapshot of every argument before/after, and a second time on the same objects.  The two
verdicts must agree per function and parameter."""
import os, sys, json, re, copy, time, random, inspect, subprocess, traceback
from . import common as C

CLAIM = dict(
    text="Generated obligation, machine-checked by evaluation (coq/Props/C19.v, closed under the global context): an executable may-analysis "
         "(allocation-site points-to analysis over an abstract heap: object identity, references by field, buffer sharing between a view and its "
         "base) run inside Coq over coq/Gen/Effects.v -- the effect skeleton of all 132 functions of EoN/simulation.py, analytic.py, regenerated "
         "from /repo on every run by the fail-closed translator translate/effects2v.py -- finds no write of any public entry point that can reach "
         "an object, or the buffer of an object, that existed before the call, except the confirmed defects (x.shape= on caller arrays). The "
         "abstract heap semantics of the effect language is defined in Coq (big-step relation, any statement may stop, so all prefixes are covered); "
         "soundness of the checker w.r.t. it is proved for every program of the statement language (C19_safe_sound: accepted => in every execution from "
         "every initial heap every logged write is to storage allocated during the call; invariant preservation by every expression and statement, loops "
         "by the checked post-fixpoint, calls by the depth fuel, out of fuel = rejected; C19_report_sound: a non-empty report attributes every write to pre-existing storage to the region "
         "of a reported parameter), and combined with the generated obligation in C19_entry_points_do_not_write_caller_storage / "
         "C19_entry_points_write_at_most_recorded_parameters. A model diagnostic (dead_uses: variables unbound in every execution, where the "
         "semantics would be stuck and the theorem silent) is reported in the evidence and is empty. "
         "Tie: every public entry point is called on small inputs with deep snapshots (graphs incl. attributes, containers, arrays incl. "
         "shape/dtype/flags) before/after and called again on the same objects; static and dynamic verdicts must agree per function and parameter.",
    design='DESIGN.md section 4, C19; section 2.4(b)',
    technique='Coq proof (sound points-to/effect analysis) over a model regenerated from the source by an ast translator + dynamic snapshot check',
    note="The translator translate/effects2v.py is CHECKED on every run (harness/c19_tables.py): each of its 292 table entries (which library calls/methods "
         "modify their receiver, which return views or aliases, which allocate) is called on the installed numpy/networkx/scipy/builtins over ~45 representative "
         "receivers/arguments x 13 semantics-changing keywords and the heap reachable from the arguments is compared before/after with the category's claim; its statement "
         "mapping is judged by a differential corpus of 186 functions (a function the checker accepts must really modify nothing); 40 fail-closed probes. Still assumed: "
         "parameters documented as numbers/strings are immutable scalars, user callbacks do not modify their arguments, object-dtype arrays are out of scope; methods of the "
         "classes myQueue/_ListDict_ are modelled by the tables (and validated the same way), not translated; reading the `IC` defaultdict of the two contagion simulators (which inserts keys) is "
         "deliberately not an alarm (DESIGN C19); any other caller's defaultdict that has grown is reported.")

PROPOSED = os.path.join(C.VERIF, 'proposed_known_findings.json')
TRANSLATOR = os.path.join(C.VERIF, 'translate', 'effects2v.py')
GEN = os.path.join(C.COQ, 'Gen')


def proposed():
    try:
        return {(f['property'], f['key']): f for f in json.load(open(PROPOSED))['findings']}
    except Exception:
        return {}


# ------------------------------------------------------------------ static ----
def run_translator():
    js = os.path.join(GEN, 'effects_table.json')
    rc, out, dt = C.sh('timeout 120 /venv/bin/python %s --repo %s -o %s --json %s' % (
        TRANSLATOR, C.REPO, os.path.join(GEN, 'Effects.v'), js), timeout=150)
    table = json.load(open(js)) if rc == 0 else None
    return rc, out.strip(), table


def static_report(table, nproc=6):
    """per function: (public, mutated params or None, [(line, param)]) computed by the Coq checker"""
    ok, out, dt = C.coq_make(['Gen/Effects.vo', 'Model/Effects.vo'], timeout=600)
    if not ok:
        return None, out[-2000:]
    names = [f['name'] for f in table['functions']]
    # balance: the event-driven / Gillespie simulators are the expensive ones
    names.sort(key=lambda n: -next(f['statements'] for f in table['functions'] if f['name'] == n))
    procs = []
    for i in range(nproc):
        src = ('From Coq Require Import List NArith String.\nRequire Import EoNV.Model.Effects.\nRequire Import EoNV.Gen.Effects.\n'
               'Import ListNotations.\nOpen Scope string_scope.\n'
               'Definition one (n : string) := filter (fun fd => String.eqb (fn_name fd) n) eon_program.\n')
        for n in names[i::nproc]:
            src += 'Eval vm_compute in (report eon_program (one "%s")).\n' % n
            src += 'Eval vm_compute in (dead_report eon_program (one "%s")).\n' % n
        open(os.path.join(GEN, 'EffectsReport%d.v' % i), 'w').write(src)
        procs.append(subprocess.Popen('timeout 900 coqc -Q . EoNV Gen/EffectsReport%d.v' % i, shell=True, cwd=C.COQ,
                                      stdout=subprocess.PIPE, stderr=subprocess.STDOUT, text=True))
    txt = ' '.join(p.communicate()[0] for p in procs)
    txt = re.sub(r'\s+', ' ', txt)
    rep = {}
    for m in re.finditer(r'= \[\("(\w+)", (true|false), (Some \[(.*?)\]|None), \[(.*?)\]\)\] : list', txt):
        n, pub, mp, plist, lines = m.groups()
        params = None if mp == 'None' else re.findall(r'"(\w+)"', plist or '')
        wl = [(int(a), b) for a, b in re.findall(r'\(\s*(\d+), "(\w+)"\)', lines)]
        rep[n] = {'public': pub == 'true', 'mutated': params, 'writes': sorted(set(wl))}
    # model diagnostics: uses of a variable that is unbound in every execution of the model
    # (the semantics is stuck there, so the soundness theorem does not cover the code after it)
    for m in re.finditer(r'= \[\("(\w+)", (Some \[(.*?)\]|None)\)\] : list \(string \* option', txt):
        n, dd, body = m.groups()
        if n in rep:
            rep[n]['dead_uses'] = None if dd == 'None' else sorted(set((int(a), int(b)) for a, b in re.findall(r'\(\s*(\d+), (\d+)\)', body or '')))
    missing = [n for n in names if n not in rep]
    if missing:
        return None, 'no verdict for %s: %s' % (missing[:5], txt[-1500:])
    return rep, ''


# ----------------------------------------------------------------- dynamic ----
def snap(x, depth=0):
    """canonical deep description of an argument: values, shapes, dtypes, graph structure and attributes"""
    import numpy as np, networkx as nx
    if depth > 8:
        return ('deep',)
    if isinstance(x, np.ndarray):
        return ('ndarray', x.shape, str(x.dtype), bool(x.flags.writeable), bool(x.flags.c_contiguous), x.tobytes() if x.dtype != object else repr(x.tolist()))
    if isinstance(x, (nx.Graph, nx.DiGraph)):
        return ('graph', type(x).__name__, snap(dict(x.graph), depth + 1),
                sorted(((repr(n), snap(dict(d), depth + 1)) for n, d in x.nodes(data=True))),
                sorted(((repr(u), repr(v), snap(dict(d), depth + 1)) for u, v, d in x.edges(data=True))),
                [repr(n) for n in x.nodes()])
    if isinstance(x, dict):
        return (type(x).__name__, [(repr(k), snap(v, depth + 1)) for k, v in x.items()])
    if isinstance(x, (list, tuple)):
        return (type(x).__name__, [snap(v, depth + 1) for v in x])
    if isinstance(x, (set, frozenset)):
        return (type(x).__name__, sorted(repr(v) for v in x))
    if isinstance(x, range):
        return ('range', repr(x))
    if callable(x):
        return ('callable', getattr(x, '__name__', 'f'))
    if isinstance(x, np.generic):
        return ('npscalar', repr(x))
    return ('val', repr(x))


def same_result(a, b):
    import numpy as np
    if type(a) is not type(b):
        return False
    if isinstance(a, (tuple, list)):
        return len(a) == len(b) and all(same_result(x, y) for x, y in zip(a, b))
    if isinstance(a, np.ndarray):
        return a.shape == b.shape and bool(np.array_equal(a, b, equal_nan=True))
    if isinstance(a, dict):
        return a.keys() == b.keys() and all(same_result(a[k], b[k]) for k in a)
    if isinstance(a, float):
        return a == b or (a != a and b != b)
    if callable(a):
        return True
    try:
        return bool(a == b)
    except Exception:
        return True


def make_graph(kind):
    import networkx as nx
    G = nx.Graph()
    edges = [(0, 1), (0, 2), (1, 2), (2, 3), (3, 4), (4, 5), (5, 6), (6, 7), (3, 7), (1, 5), (7, 8)]   # node 8: degree 1, so several degree pairs never share an edge
    if kind == 'str':
        edges = [('n%d' % u, 'n%d' % v) for u, v in edges]
    G.add_edges_from(edges)
    for i, n in enumerate(G.nodes()):
        G.nodes[n]['rw'] = 0.5 + 0.25 * (i % 3)
        G.nodes[n]['colour'] = ['red', 'blue'][i % 2]
    for i, (u, v) in enumerate(G.edges()):
        G.edges[u, v]['tw'] = 0.5 + 0.5 * (i % 2)
    G.graph['name'] = 'c19'
    return G


def base_args(EoN, variant):
    """values by parameter name; variant = dict(ic='sets'|'rho', full=bool, labels='int'|'str', cont='list'|'set'|'array'|'tuple', weights=bool)"""
    import numpy as np, networkx as nx
    G = make_graph(variant['labels'])
    nodes = list(G.nodes())
    cont = {'list': list, 'set': set, 'tuple': tuple, 'array': (lambda l: np.array(l)) if variant['labels'] == 'int' else list}[variant['cont']]
    rng = random.Random(5)

    def trans_time_fxn(u, v, tau): return rng.expovariate(tau)
    def rec_time_fxn(u, gamma): return rng.expovariate(gamma)
    def trans_times_sis(u, v, rec_delay, tau):
        out = []; t = rng.expovariate(tau)
        while t < rec_delay:
            out.append(t); t += rng.expovariate(tau)
        return out
    class CallDict(dict):            # Epi_Prob_non_Markovian both calls and indexes its Pxidxi
        def __call__(self, k): return self[k]
    def pgf(x): return sum(Pk[k] * x ** k for k in Pk)
    def pgf1(x): return sum(k * Pk[k] * x ** (k - 1) for k in Pk if k > 0)
    H = nx.DiGraph(); H.add_edge('I', 'R', rate=1.0)
    J = nx.DiGraph(); J.add_edge(('I', 'S'), ('I', 'I'), rate=0.7, weight_label='tw')      # the edge attribute dicts of H and J are the caller's too
    IC = {n: 'S' for n in nodes}; IC[nodes[0]] = 'I'; IC[nodes[3]] = 'I'
    def rate_function(G_, node, status, parameters):
        if status[node] == 'I': return parameters[1]
        return parameters[0] * sum(1 for nb in G_.neighbors(node) if status[nb] == 'I')
    def transition_choice(G_, node, status, parameters):
        return 'S' if status[node] == 'I' else 'I'
    def get_influence_set(G_, node, status, parameters):
        return set(G_.neighbors(node))
    Pk = EoN.get_Pk(G)
    a = {
        'trans_times_sis': trans_times_sis,
        'G': G, 'tau': 0.6, 'gamma': 1.0, 'p': 0.5, 'tmin': 0, 'tmax': 3, 'tcount': 7, 'number_its': 12,
        'initial_infecteds': cont([nodes[0], nodes[3]]) if variant['ic'] == 'sets' else None,
        'initial_recovereds': cont([nodes[5]]) if variant['ic'] == 'sets' else None,
        'rho': None if variant['ic'] == 'sets' else 0.25,
        'return_full_data': variant['full'],
        'transmission_weight': 'tw' if variant.get('weights') else None,
        'recovery_weight': 'rw' if variant.get('weights') else None,
        'nodelist': list(nodes) if variant.get('weights') else None,
        'sim_kwargs': {'pos': {n: (i, i % 2) for i, n in enumerate(nodes)}} if variant['full'] and variant.get('weights') else None,
        'args': (0.5,), 'trans_time_fxn': trans_time_fxn, 'rec_time_fxn': rec_time_fxn,
        'trans_time_args': (0.6,), 'rec_time_args': (1.0,),
        'xi': {n: 0.5 + 0.1 * i for i, n in enumerate(nodes)}, 'zeta': {n: 0.4 + 0.1 * i for i, n in enumerate(nodes)},
        'transmission': (lambda x, z: x * z > 0.35),
        'spontaneous_transition_graph': H, 'nbr_induced_transition_graph': J, 'IC': IC, 'return_statuses': ('S', 'I', 'R'),
        'rate_function': rate_function, 'transition_choice': transition_choice, 'get_influence_set': get_influence_set,
        'parameters': (0.6, 1.0),
        'Pk': dict(Pk), 'Pnk': EoN.get_Pnk(G), 'N': G.order(),
        'psi': pgf, 'psiPrime': pgf1,
        'Pxidxi': CallDict({0.3: 0.5, 0.8: 0.5}), 'po': (lambda xi: 1 - pow(2.718281828, -xi)),
        'Pzetadzeta': CallDict({0.3: 0.5, 0.8: 0.5}), 'pi': (lambda z: 1 - pow(2.718281828, -z)),
        'weights': True,
    }
    return a


SKIP_PARAMS_WHEN_NONE = {'initial_infecteds', 'initial_recovereds', 'rho', 'sim_kwargs', 'nodelist', 'transmission_weight', 'recovery_weight'}
# functions whose remaining arguments are captured from the call their *_from_graph / *_pure_IC wrapper makes
CAPTURE = {}


def build_call(EoN, name, variant):
    """(args dict) for entry point `name`, or None when no recipe exists.  Array arguments of the
    degree-based ODE models are obtained by recording what the corresponding wrapper passes."""
    mod = EoN.simulation if hasattr(EoN.simulation, name) else EoN.analytic
    f = getattr(mod, name)
    sig = inspect.signature(f)
    base = base_args(EoN, variant)
    if name == 'estimate_SIR_prob_size_from_dir_perc':
        random.seed(11)
        return f, {'H': EoN.directed_percolate_network(base['G'], 0.6, 1.0)}
    if name == 'fast_nonMarkov_SIS':
        base['trans_time_fxn'] = base['trans_times_sis']
    if 'initial_infecteds' not in sig.parameters and 'rho' in sig.parameters and base['rho'] is None:
        base['rho'] = 0.25
    alias = {'SIS_compact_effective_degree': 'SIS_compact_pairwise'}
    if name in alias:
        got = build_call(EoN, alias[name], variant)
        return (f, got[1]) if got else None
    need = [p for p in sig.parameters.values()]
    kw = {}
    missing = []
    for p in need:
        if p.name in base:
            v = base[p.name]
            if v is None and p.name in SKIP_PARAMS_WHEN_NONE and p.default is not inspect._empty:
                continue
            if v is None and p.default is inspect._empty and p.name in ('initial_infecteds',):
                v = [list(base['G'].nodes())[0]]
            kw[p.name] = v
        elif p.default is inspect._empty:
            missing.append(p.name)
    # optional numeric array arguments of the node-level systems (pair arrays with non-zero entries on
    # non-edge pairs, as a caller building them from outer products would pass)
    if variant.get('arrays') and 'XY0' in sig.parameters and 'Y0' in sig.parameters:
        import numpy as np
        nodes = list(base['G'].nodes())
        Y0 = np.array([0.25 + 0.05 * (i % 3) for i in range(len(nodes))]); X0 = 1 - Y0
        kw.update(nodelist=list(nodes), Y0=Y0, XY0=np.outer(X0, Y0), XX0=np.outer(X0, X0))
        if 'X0' in sig.parameters: kw['X0'] = X0
        kw.pop('rho', None); kw.pop('initial_infecteds', None); kw.pop('initial_recovereds', None)
        if 'rho' in sig.parameters: kw['rho'] = None
    if not missing:
        return f, kw
    # capture from a wrapper
    for w in (name + '_from_graph', name + '_pure_IC'):
        wf = getattr(mod, w, None)
        if wf is None:
            continue
        rec = {}
        class Captured(Exception):
            pass
        def recorder(*a, **k):
            rec['a'], rec['k'] = a, k
            raise Captured()
        setattr(mod, name, recorder)
        try:
            _, wkw = build_call(EoN, w, variant)
            try:
                wf(**wkw)
            except Captured:
                pass
            except Exception:
                return None
        finally:
            setattr(mod, name, f)
        if 'a' in rec:
            b = sig.bind(*rec['a'], **rec['k'])
            args = dict(b.arguments)
            if variant.get('arrays') and 'Ks' in sig.parameters:
                import numpy as np
                args['Ks'] = np.array(range(len(args['Sk0'])), dtype=float)    # an explicit float degree array incl. degree 0
            return f, args
    return None


def variants(tier):
    vs = []
    for ic in ('sets', 'rho'):
        for full in (False, True):
            vs.append(dict(ic=ic, full=full, labels='int', cont='list', weights=False))
    vs.append(dict(ic='sets', full=True, labels='str', cont='set', weights=True))
    vs.append(dict(ic='sets', full=False, labels='int', cont='array', weights=True))
    vs.append(dict(ic='rho', full=False, labels='str', cont='list', weights=False, arrays=True))
    if tier != 'quick':
        vs.append(dict(ic='sets', full=True, labels='int', cont='tuple', weights=True))
        vs.append(dict(ic='rho', full=True, labels='str', cont='list', weights=True))
        vs.append(dict(ic='sets', full=False, labels='str', cont='tuple', weights=False))
    return vs


def exercise(EoN, name, variant, deterministic):
    """call twice on the same objects; returns dict(status, changed params, repeat ok, detail)"""
    import numpy as np
    try:
        bc = build_call(EoN, name, variant)
    except Exception as e:
        return {'status': 'no-recipe', 'detail': 'recipe failed: %s: %s' % (type(e).__name__, e)}
    if bc is None:
        return {'status': 'no-recipe', 'detail': 'no argument recipe'}
    f, kw = bc
    before = {k: snap(v) for k, v in kw.items()}
    res = {}
    outs = []
    for attempt in (1, 2):
        random.seed(12345); np.random.seed(12345)
        try:
            import io, contextlib
            with contextlib.redirect_stdout(io.StringIO()):
                outs.append(('ok', f(**kw)))
        except Exception as e:
            outs.append(('err', type(e).__name__ + ': ' + str(e)[:120]))
        if attempt == 1:
            after1 = {k: snap(v) for k, v in kw.items()}
    after2 = {k: snap(v) for k, v in kw.items()}
    changed = sorted(k for k in kw if before[k] != after1[k] or before[k] != after2[k])
    res['changed'] = changed
    res['detail'] = {k: {'before': str(before[k])[:200], 'after': str(after2[k] if before[k] == after1[k] else after1[k])[:200]} for k in changed}
    if outs[0][0] == 'err' and outs[1][0] == 'err' and outs[0][1] == outs[1][1]:
        res['status'] = 'raises'
        res['error'] = outs[0][1]
    elif outs[0][0] == 'ok' and outs[1][0] == 'err':
        res['status'] = 'second-call-fails'
        res['error'] = outs[1][1]
    elif outs[0][0] == 'err':
        res['status'] = 'raises'
        res['error'] = outs[0][1]
    else:
        res['status'] = 'ok'
        res['same_result'] = same_result(outs[0][1], outs[1][1])
    return res


def is_deterministic(name, EoN):
    return hasattr(EoN.analytic, name)


def replay(rp):
    EoN = C.import_eon()
    r = rp['replay']
    if 'function' not in r:
        print('static-only finding, nothing to execute:', rp.get('what')); return 2
    res = exercise(EoN, r['function'], r['variant'], True)
    print(json.dumps({k: v for k, v in res.items()}, indent=1, default=str)[:3000])
    bad = bool(res.get('changed')) or res.get('status') == 'second-call-fails' or res.get('same_result') is False
    print('REPLAY %s' % ('still fails' if bad else 'passes'))
    return 1 if bad else 0


# --------------------------------------------------------------------- run ----
def run(run, tier):
    prop = proposed()
    def report(key, what, rp, no_input=False):
        if ('C19', key) in prop and not any(f['property'] == 'C19' and f['key'] == key for f in C.known_findings().get('findings', [])):
            if key not in [k for k, _ in run.known_hits]:
                run.known_hits.append((key, '(proposed known finding) ' + prop[('C19', key)].get('what', what)))
            return
        run.violation(key, what, rp, no_input)

    from . import c19_tables; c19_tables.check(run, tier, report)     # the translator's tables and statement mapping, checked on every run
    t0 = time.time()
    rc, msg, table = run_translator()
    if rc != 0:
        props = {'theorems': [], 'axioms': {}, 'ok': False}
        report('C19/translator', 'translate/effects2v.py refuses the current source (fail-closed): %s' % msg[-400:],
               {'broken': 'translate/effects2v.py', 'message': msg[-2000:]}, no_input=True)
        C.proof_coverage(run, props, 1, 0, 'translator failed', [msg[-300:]])
        # the dynamic check still runs below (it is the failing-input search)
        static = None
    else:
        static, err = static_report(table)
        if static is None:
            report('C19/static-report', 'the Coq checker produced no verdict: %s' % err[-300:], {'broken': 'Gen/EffectsReport', 'log': err}, no_input=True)
    props = C.check_props('C19') if rc == 0 else {'theorems': [], 'axioms': {}, 'ok': False, 'log': 'translator failed'}
    t_static = time.time() - t0

    EoN = C.import_eon()
    publics = [f['name'] for f in table['functions'] if f['public']] if table else \
        [n for m in (EoN.simulation, EoN.analytic) for n, o in vars(m).items() if inspect.isfunction(o) and o.__module__ == m.__name__ and not n.startswith('_')]
    dyn = {}
    n_calls = 0; n_ok = 0
    budget = 100 if tier == 'quick' else 600
    t1 = time.time()
    for name in publics:
        dyn[name] = {'changed': {}, 'ok': 0, 'raises': 0, 'norecipe': 0, 'repeat_fail': None, 'diff_result': None, 'errors': set()}
        for v in variants(tier):
            if time.time() - t1 > budget:
                break
            sigp = inspect.signature(getattr(EoN.simulation if hasattr(EoN.simulation, name) else EoN.analytic, name)).parameters
            if v['full'] and 'return_full_data' not in sigp and v['ic'] == 'sets' and v['cont'] == 'list' and not v['weights']:
                pass
            r = exercise(EoN, name, v, is_deterministic(name, EoN))
            n_calls += 1
            d = dyn[name]
            if r['status'] == 'no-recipe':
                d['norecipe'] += 1; d['errors'].add(r['detail']); continue
            for k in r.get('changed', []):
                d['changed'].setdefault(k, (v, r['detail'][k]))
            if r['status'] == 'ok':
                d['ok'] += 1; n_ok += 1
                if r.get('same_result') is False and is_deterministic(name, EoN) and d['diff_result'] is None:
                    d['diff_result'] = v
            elif r['status'] == 'second-call-fails':
                d['ok'] += 1; n_ok += 1
                if d['repeat_fail'] is None:
                    d['repeat_fail'] = (v, r['error'])
            else:
                d['raises'] += 1; d['errors'].add(r.get('error', ''))

    # ---------------------------------------------------------- verdicts
    samples = []
    agree = 0; exercised = 0
    for name in publics:
        d = dyn[name]
        st = static.get(name) if static else None
        smut = set(st['mutated']) if st and st['mutated'] is not None else set()
        if d['ok'] > 0:
            exercised += 1
        for prm, (v, det) in d['changed'].items():
            where = [l for l, q in (st['writes'] if st else []) if q == prm]
            what = '%s modifies its argument %s (%s -> %s)%s' % (name, prm, det['before'][:120], det['after'][:120],
                                                                 '; static analysis: written at EoN source line(s) %s' % where if where else
                                                                 '; NOT predicted by the static analysis (translator tables or model unsound here)')
            report('C19/%s/%s' % (name, prm), what, {'function': name, 'variant': v, 'param': prm, 'diff': det, 'static_lines': where})
        if d['repeat_fail'] is not None:
            v, e = d['repeat_fail']
            report('C19/%s/repeat' % name, '%s succeeds once and fails when called again with the same arguments: %s' % (name, e),
                   {'function': name, 'variant': v, 'error': e})
        if d['diff_result'] is not None:
            report('C19/%s/result-differs' % name, '%s (deterministic ODE model) returns a different result when called again with the same arguments' % name,
                   {'function': name, 'variant': d['diff_result']})
        if st is not None:
            if st['mutated'] is None:
                report('C19/%s/analysis-failed' % name, 'the effect analysis does not terminate with a verdict for %s (abstract heap not a post-fixpoint / out of fuel)' % name,
                       {'broken': 'Gen/Effects.v analysis of ' + name}, no_input=True)
            for prm in sorted(smut - set(d['changed'])):
                lines = [l for l, q in st['writes'] if q == prm]
                report('C19/%s/%s' % (name, prm),
                       'static analysis: %s may modify its argument %s (EoN source line(s) %s); the dynamic search (%d successful calls) found no input showing it'
                       % (name, prm, lines, d['ok']), {'broken': 'obligation C19_all_entry_points_safe for ' + name, 'lines': lines, 'param': prm}, no_input=True)
            if smut == set(d['changed']):
                agree += 1
        if len(samples) < 5 and d['ok']:
            samples.append({'function': name, 'successful_calls': d['ok'], 'changed': sorted(d['changed']), 'static_may_modify': sorted(smut)})
    if rc == 0 and not props['ok']:
        # which entry points break the obligation is already reported above from the per-function verdicts
        new = [n for n in publics if static and static[n]['mutated'] not in ([],) and static[n]['mutated'] is not None]
        report('C19/proof', 'Props/C19.v no longer checks (entry points with a non-empty may-modify set: %s): %s' % (new, props['log'][-300:]),
               {'broken': 'coq/Props/C19.v', 'log': props['log'][-3000:], 'unsafe': new}, no_input=True)
    dist = {'entry_points': len(publics), 'exercised_successfully': exercised,
            'only_raising': sorted(n for n in publics if dyn[n]['ok'] == 0 and dyn[n]['raises'] > 0),
            'no_recipe': sorted(n for n in publics if dyn[n]['ok'] == 0 and dyn[n]['raises'] == 0),
            'calls': n_calls, 'successful_calls': n_ok, 'variants_per_function': len(variants(tier)),
            'static_s': round(t_static, 1), 'dynamic_s': round(time.time() - t1, 1)}
    extra = {'distribution': dist,
             'static_verdicts': {n: static[n] for n in static if static[n]['mutated'] != []} if static else None,
             'model_dead_uses': ({n: static[n].get('dead_uses', 'not-computed') for n in static if static[n].get('dead_uses', 'not-computed') != []}
                                 if static else None),
             'functions_translated': len(table['functions']) if table else 0,
             'statements': sum(f['statements'] for f in table['functions']) if table else 0,
             'translator_notes': table['notes'] if table else [msg],
             'agreement': '%d of %d entry points: static may-modify set == dynamically observed set' % (agree, len(publics)),
             'errors_of_unexercised': {n: sorted(dyn[n]['errors'])[:2] for n in publics if dyn[n]['ok'] == 0}}
    C.proof_coverage(run, props, n_calls, n_ok,
                     'every public function of EoN/simulation.py and EoN/analytic.py x %d argument variants (explicit initial sets as list/set/tuple/ndarray or rho; '
                     'return_full_data on/off; int or str labels; node/edge weights) on an 8-node graph; array arguments of the degree-based ODE models are the ones '
                     'their *_from_graph wrapper passes; each case = snapshot, call, snapshot, call again, snapshot; non-trivial = both calls returned' % len(variants(tier)),
                     samples, extra)
    run.assumptions += ['user callbacks and library functions do not modify their arguments (tables in translate/effects2v.py)',
                        'objects used as numbers/strings/booleans (SCALAR_PARAMS) are immutable']
