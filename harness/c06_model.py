"""Correspondence of the extracted Coq model (component 'ic') with the implementation: row 0."""
