"""Correspondence of the extracted Coq model (component 'ic': Model/IC.v + Model/Wrappers.v)
with the implementation: for every case of a modelled *_from_graph wrapper the model's row 0
(every returned series, or the Python failure mode) must equal the implementation's row 0."""
from fractions import Fraction as F
import numpy as np
from . import common as C
from . import ode_common as OC

MODELLED = ['SIS_homogeneous_meanfield_from_graph', 'SIR_homogeneous_meanfield_from_graph',
            'SIS_homogeneous_pairwise_from_graph', 'SIR_homogeneous_pairwise_from_graph',
            'SIS_heterogeneous_meanfield_from_graph', 'SIR_heterogeneous_meanfield_from_graph',
            'SIS_heterogeneous_pairwise_from_graph', 'SIR_heterogeneous_pairwise_from_graph',
            'SIS_compact_pairwise_from_graph', 'SIR_compact_pairwise_from_graph',
            'SIS_super_compact_pairwise_from_graph', 'SIR_super_compact_pairwise_from_graph',
            'SIS_effective_degree_from_graph', 'SIR_effective_degree_from_graph',
            'SIS_compact_effective_degree_from_graph', 'SIR_compact_effective_degree_from_graph',
            'EBCM_from_graph']

ERRMAP = {'UnboundLocalError': 'NameError'}


def graph_tokens(G, labels):
    """tokens of ocaml/glue_graph.ml read_graph; node ids = position in list(G.nodes())"""
    nodes = list(G.nodes()); idx = {u: i for i, u in enumerate(nodes)}
    n = len(nodes)
    t = [str(n), '0']
    for u in nodes:
        nb = [idx[v] for v in G.neighbors(u)]
        t.append('%d %s' % (len(nb), ' '.join(map(str, nb))))
    for u in nodes:
        nb = [idx[v] for v in G.neighbors(u)]
        t.append('%d %s' % (len(nb), ' '.join(map(str, nb))))
    t.append('0 0')
    t += ['1 1'] * n
    t.append('0')
    return ' '.join(t), idx


def model_line(case):
    G, labels = OC.build_graph(case)
    gt, idx = graph_tokens(G, labels)
    ic = case['ic']
    def nl(l):
        return '1 %d %s' % (len(l), ' '.join(str(idx[labels[u]]) for u in l))
    I = nl(ic['I']) if ic['mode'] == 'sets' else '0'
    R = nl(ic['R']) if ic['mode'] == 'sets' and ic.get('R') is not None else '0'
    rho = ('1 ' + C.qtok(F(ic['rho']))) if ic['mode'] == 'rho' else '0'
    return 'ROW0 %s %d %s %s %s %s' % (case['entry'], int(case['full']), gt, I, R, rho)


def parse_model(line):
    line = line.strip()
    if line.startswith('ERR'):
        return ('ERR', line.split()[1])
    if not line.startswith('OK'):
        return ('FAIL', line)
    out = []
    for part in line[2:].split('|')[1:]:
        tk = part.split()
        nm, kind = tk[0], tk[1]
        if kind == 's':
            out.append((nm, float(F(tk[2]))))
        elif kind == 'v':
            k = int(tk[2]); out.append((nm, np.array([float(F(x)) for x in tk[3:3 + k]])))
        else:
            r, c = int(tk[2]), int(tk[3])
            out.append((nm, np.array([float(F(x)) for x in tk[4:4 + r * c]]).reshape(r, c)))
    return ('OK', out)


def impl_row0(res):
    """implementation output tuple -> list of row-0 values after `times`, in order"""
    from .c06 import row0
    return [row0(v) for v in res[1][1:]]


def correspondence(run, EoN, results, tier):
    ok, log = C.build_driver('ic')
    if not ok:
        run.violation('C06/build', 'extracted model (component ic) does not build: ' + log[-500:], {'log': log[-3000:]}, no_input=True)
        return {'status': 'build failed'}
    sel = [(case, o, res, vio) for case, o, res, vio, obs in results if case['entry'] in MODELLED]
    lines = [model_line(case) for case, o, res, vio in sel]
    outs = C.run_model(lines, 'ic')
    from .c06 import near, short, key_of
    n_ok = n_err = 0; mism = []
    per = {}
    for (case, o, res, vio), line, mo in zip(sel, lines, outs):
        m = parse_model(mo)
        d = per.setdefault(case['entry'], {'cases': 0, 'agree': 0})
        d['cases'] += 1
        if m[0] == 'FAIL':
            mism.append((case, 'model driver failure: %s' % mo[:200], vio)); continue
        if res[0] == 'ERR' and res[1] == 'EoNError' and 'homogeneous_pairwise' in case['entry'] and o.II == 0 and o.mode == 'sets' and m[0] == 'OK':
            d['float_rounding_reject'] = d.get('float_rounding_reject', 0) + 1      # SS0+2*SI0 > n*N by rounding of n: outside the exact model, reported by the oracle
            continue
        if res[0] == 'ERR':
            same = m[0] == 'ERR' and m[1] == ERRMAP.get(res[1], res[1])
            if same: n_err += 1
            detail = 'impl raises %s, model %s' % (res[1], m[:2] if m[0] == 'ERR' else 'returns ' + ','.join(x[0] for x in m[1]))
        elif m[0] == 'ERR':
            same = False; detail = 'impl returns, model fails with %s' % m[1]
        else:
            iv = impl_row0(res)
            same = len(iv) == len(m[1]) and all(near(a, b[1]) for a, b in zip(iv, m[1]))
            detail = 'row 0: impl %s model %s' % ([short(x) for x in iv], [(nm, short(v)) for nm, v in m[1]])
            if same: n_ok += 1
        if same:
            d['agree'] += 1
        else:
            mism.append((case, detail, vio))
    if mism:
        # the theorems are about the model; say whether the property itself was seen to fail on such an input
        withv = [x for x in mism if x[2]]
        case, detail, vio = min(mism, key=lambda x: len(x[0]['nodes']) + len(x[0]['edges']))
        ents = sorted({x[0]['entry'] for x in mism})
        run.violation('C06/correspondence/%s' % ents[0],
                      'correspondence Model/Wrappers.v <-> implementation no longer checks for %s (%d cases; the row0_/accepts_ theorems of Props/C06.v are about the '
                      'model); %s: %s' % (ents, len(mism), 'the oracle reports violations of the property on %d of these inputs (see the other lines)' % len(withv)
                                          if withv else 'the specification oracle found no failing input among them', detail[:300]),
                      {'case': case, 'clause': 'correspondence', 'broken': 'correspondence coq/Model/Wrappers.v vs EoN.%s' % case['entry'], 'detail': detail},
                      no_input=not withv)
    return {'cases': len(sel), 'agree_value': n_ok, 'agree_error': n_err, 'mismatches': len(mism), 'per_entry': per}
