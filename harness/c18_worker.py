"""Worker of the C18 check: runs a fixed battery of simulator calls with Python's random
and numpy.random seeded identically before each call and prints one JSON object
{case name: canonical output}.  Started by harness/c18.py in several interpreter
processes with different PYTHONHASHSEED values (and once more in-process)."""
import sys, os, json, random, warnings
warnings.filterwarnings('ignore')
REPO = os.environ.get('EON_REPO', '/repo')
sys.path.insert(0, REPO)
import numpy as np, networkx as nx
import EoN
assert os.path.abspath(EoN.__file__).startswith(os.path.abspath(REPO) + os.sep)
from collections import defaultdict


def labels(kind, n):
    if kind == 'str': return ['node-%s' % chr(97 + i) for i in range(n)]
    if kind == 'tuple': return [('t', i % 3, i) for i in range(n)]
    return list(range(100, 100 + n))


def graph(kind, n, seed, p=0.3):
    r = random.Random(seed)
    L = labels(kind, n)
    G = nx.Graph(); G.add_nodes_from(L)
    for i in range(n):
        for j in range(i + 1, n):
            if r.random() < p:
                G.add_edge(L[i], L[j], tw=r.choice([0.5, 1.0, 2.0]))
    for u in L: G.nodes[u]['rw'] = r.choice([0.5, 1.0, 1.5])
    return G, L


def canon(x):
    if isinstance(x, np.ndarray): return [canon(y) for y in x.tolist()]
    if isinstance(x, (list, tuple)): return [canon(y) for y in x]
    if isinstance(x, float): return repr(x)
    if isinstance(x, (np.floating,)): return repr(float(x))
    if isinstance(x, (np.integer,)): return int(x)
    return x if isinstance(x, (int, str, type(None))) else repr(x)


def full(inv, G):
    hist = {repr(u): canon(inv.node_history(u)) for u in G.nodes()}
    try: tr = canon([(t, repr(s), repr(g)) for t, s, g in inv.transmissions()])
    except Exception as e: tr = 'EXC ' + type(e).__name__
    return {'t': canon(inv.t()), 'S': canon(inv.S()), 'I': canon(inv.I()), 'hist': hist, 'trans': tr}


def battery(seed):
    out = {}
    def go(name, fn):
        random.seed(seed); np.random.seed(seed % (2 ** 32))
        try: out[name] = fn()
        except Exception as e: out[name] = 'EXC %s: %s' % (type(e).__name__, str(e)[:80])
    for kind in ('str', 'tuple', 'int'):
        G, L = graph(kind, 14, 5)
        i0 = [L[0], L[3]]
        for nm, f, kw in [('Gillespie_SIR', EoN.Gillespie_SIR, {}), ('Gillespie_SIS', EoN.Gillespie_SIS, {'tmax': 3}),
                          ('fast_SIR', EoN.fast_SIR, {}), ('fast_SIS', EoN.fast_SIS, {'tmax': 3})]:
            for w in (False, True):
                kw2 = dict(kw); 
                if w: kw2.update(transmission_weight='tw', recovery_weight='rw')
                go('%s/%s/w%d/plain' % (nm, kind, w), lambda: canon(f(G, 1.0, 1.0, initial_infecteds=list(i0), **kw2)))
                go('%s/%s/w%d/full' % (nm, kind, w), lambda: full(f(G, 1.0, 1.0, initial_infecteds=list(i0), return_full_data=True, **kw2), G))
            go('%s/%s/rho' % (nm, kind), lambda: canon(f(G, 1.0, 1.0, rho=0.25, **kw)))
            if nm.endswith('SIR'):
                # explicit initial sets incl. initially recovered nodes, three infected nodes, tmin != 0
                i3 = [L[2], L[0], L[6]]; r2 = [L[5], L[9]]
                go('%s/%s/r0/plain' % (nm, kind), lambda: canon(f(G, 1.0, 1.0, initial_infecteds=list(i3), initial_recovereds=list(r2), tmin=2.5, **kw)))
                go('%s/%s/r0/full' % (nm, kind), lambda: full(f(G, 1.0, 1.0, initial_infecteds=list(i3), initial_recovereds=list(r2), tmin=2.5, return_full_data=True, **kw), G))
        # non-Markovian simulators with rules that draw from `random`
        tt = lambda u, v: random.expovariate(1.0)
        rt = lambda u: random.expovariate(1.0)
        go('fast_nonMarkov_SIR/%s/plain' % kind, lambda: canon(EoN.fast_nonMarkov_SIR(G, trans_time_fxn=tt, rec_time_fxn=rt, initial_infecteds=list(i0))))
        go('fast_nonMarkov_SIR/%s/full' % kind, lambda: full(EoN.fast_nonMarkov_SIR(G, trans_time_fxn=tt, rec_time_fxn=rt, initial_infecteds=list(i0), return_full_data=True), G))
        go('fast_nonMarkov_SIR/%s/r0/plain' % kind, lambda: canon(EoN.fast_nonMarkov_SIR(G, trans_time_fxn=tt, rec_time_fxn=rt, initial_infecteds=[L[2], L[0], L[6]], initial_recovereds=[L[5], L[9]], tmin=2.5)))
        tts = lambda u, v, rec_delay: [random.expovariate(1.0)]
        go('fast_nonMarkov_SIS/%s/plain' % kind, lambda: canon(EoN.fast_nonMarkov_SIS(G, trans_time_fxn=tts, rec_time_fxn=rt, initial_infecteds=list(i0), tmax=3)))
        go('fast_nonMarkov_SIS/%s/three/plain' % kind, lambda: canon(EoN.fast_nonMarkov_SIS(G, trans_time_fxn=tts, rec_time_fxn=rt, initial_infecteds=[L[2], L[0], L[6]], tmin=2.5, tmax=5)))
        go('fast_nonMarkov_SIS/%s/full' % kind, lambda: full(EoN.fast_nonMarkov_SIS(G, trans_time_fxn=tts, rec_time_fxn=rt, initial_infecteds=list(i0), tmax=3, return_full_data=True), G))
        # Gillespie_simple_contagion: SIRS with string statuses, SEIR with tuple statuses
        H = nx.DiGraph(); H.add_edge('Inf', 'Rec', rate=1.0); H.add_edge('Rec', 'Sus', rate=0.5)
        J = nx.DiGraph(); J.add_edge(('Inf', 'Sus'), ('Inf', 'Inf'), rate=1.0)
        IC = {u: 'Sus' for u in L}; IC[L[0]] = 'Inf'; IC[L[3]] = 'Inf'
        go('simple/SIRS/%s/plain' % kind, lambda: canon(EoN.Gillespie_simple_contagion(G, H, J, dict(IC), ('Sus', 'Inf', 'Rec'), tmax=4)))
        def simple_full():
            inv = EoN.Gillespie_simple_contagion(G, H, J, dict(IC), ('Sus', 'Inf', 'Rec'), tmax=4, return_full_data=True)
            t, D = inv.summary()
            return {'t': canon(t), 'Sus': canon(D['Sus']), 'Inf': canon(D['Inf']), 'Rec': canon(D['Rec']),
                    'hist': {repr(u): canon(inv.node_history(u)) for u in G.nodes()},
                    'trans': canon([(a, repr(b), repr(c)) for a, b, c in inv.transmissions()])}
        go('simple/SIRS/%s/full' % kind, simple_full)
        # the same on a DIRECTED contact network (the directed branch of the bookkeeping has its own loops over
        # successors / predecessors): still independent of the interpreter's hash seed
        rr = random.Random(11)
        DG = nx.DiGraph(); DG.add_nodes_from(L)
        for a, b in G.edges():
            x = rr.random()
            if x < 0.4: DG.add_edge(a, b)
            elif x < 0.8: DG.add_edge(b, a)
            else: DG.add_edge(a, b); DG.add_edge(b, a)
        go('simple/SIRS/%s/directed/plain' % kind, lambda: canon(EoN.Gillespie_simple_contagion(DG, H, J, dict(IC), ('Sus', 'Inf', 'Rec'), tmax=4)))
        def simple_dfull():
            inv = EoN.Gillespie_simple_contagion(DG, H, J, dict(IC), ('Sus', 'Inf', 'Rec'), tmax=4, return_full_data=True)
            t, D = inv.summary()
            return {'t': canon(t), 'Sus': canon(D['Sus']), 'Inf': canon(D['Inf']), 'Rec': canon(D['Rec']),
                    'hist': {repr(u): canon(inv.node_history(u)) for u in DG.nodes()},
                    'trans': canon([(a, repr(b), repr(c)) for a, b, c in inv.transmissions()])}
        go('simple/SIRS/%s/directed/full' % kind, simple_dfull)
        H2 = nx.DiGraph(); H2.add_edge('E', 'I', rate=0.6, weight_label='rw'); H2.add_edge('I', 'R', rate=1.0)
        J2 = nx.DiGraph(); J2.add_edge(('I', 'S'), ('I', 'E'), rate=1.0, weight_label='tw')
        IC2 = {u: 'S' for u in L}; IC2[L[1]] = 'I'
        go('simple/SEIR-weighted/%s/plain' % kind, lambda: canon(EoN.Gillespie_simple_contagion(G, H2, J2, dict(IC2), ('S', 'E', 'I', 'R'), tmax=6)))
        # Gillespie_complex_contagion (influence set returned as an ordered list: the user's container)
        def rate_function(G_, node, status, parameters):
            tau, gamma = parameters
            if status[node] == 'I': return gamma
            if status[node] == 'S': return tau * len([x for x in G_.neighbors(node) if status[x] == 'I'])
            return 0
        def transition_choice(G_, node, status, parameters):
            return 'R' if status[node] == 'I' else 'I'
        def get_influence_set(G_, node, status, parameters):
            return [x for x in G_.neighbors(node) if status[x] == 'S']
        ICc = {u: 'S' for u in L}; ICc[L[0]] = 'I'; ICc[L[3]] = 'I'
        go('complex/%s/plain' % kind, lambda: canon(EoN.Gillespie_complex_contagion(G, rate_function, transition_choice, get_influence_set, dict(ICc), ('S', 'I', 'R'), parameters=(1.0, 1.0))))
        # discrete-time simulators (same process: identical; across hash seeds not required)
        go('discrete_SIR/%s/plain' % kind, lambda: canon(EoN.discrete_SIR(G, args=(0.5,), initial_infecteds=list(i0))))
        go('discrete_SIR/%s/r0/plain' % kind, lambda: canon(EoN.discrete_SIR(G, args=(0.5,), initial_infecteds=[L[2], L[0], L[6]], initial_recovereds=[L[5], L[9]], tmin=2)))
        go('basic_discrete_SIR/%s/plain' % kind, lambda: canon(EoN.basic_discrete_SIR(G, 0.5, initial_infecteds=list(i0))))
        go('basic_discrete_SIS/%s/plain' % kind, lambda: canon(EoN.basic_discrete_SIS(G, 0.5, initial_infecteds=list(i0), tmax=6)))
        go('percolation_based_discrete_SIR/%s/plain' % kind, lambda: canon(EoN.percolation_based_discrete_SIR(G, 0.5, initial_infecteds=list(i0))))
        # full data on a dense graph with a high transmission probability: several simultaneous infectors per node,
        # so the recorded infector is itself a random choice (same process / same interpreter configuration: identical)
        D, LD = graph(kind, 10, 9, p=0.9)
        def dfull(inv, GG):
            return {'t': canon(inv.t()), 'I': canon(inv.I()), 'hist': {repr(u): canon(inv.node_history(u)) for u in GG.nodes()},
                    'trans': canon([(t_, repr(a), repr(b)) for t_, a, b in inv.transmissions()])}
        go('discrete_SIR/%s/dense/full' % kind, lambda: dfull(EoN.discrete_SIR(D, args=(0.8,), initial_infecteds=[LD[0], LD[4], LD[7]], return_full_data=True), D))
        go('basic_discrete_SIR/%s/dense/full' % kind, lambda: dfull(EoN.basic_discrete_SIR(D, 0.8, initial_infecteds=[LD[1], LD[2]], return_full_data=True), D))
        go('basic_discrete_SIS/%s/dense/full' % kind, lambda: dfull(EoN.basic_discrete_SIS(D, 0.8, initial_infecteds=[LD[1], LD[2], LD[5]], tmax=5, return_full_data=True), D))
        go('percolation_based_discrete_SIR/%s/dense/full' % kind, lambda: dfull(EoN.percolation_based_discrete_SIR(D, 0.8, initial_infecteds=[LD[3], LD[6]], return_full_data=True), D))
    return out


if __name__ == '__main__':
    seeds = [int(x) for x in sys.argv[1:]] or [1]
    json.dump({str(s): battery(s) for s in seeds}, sys.stdout)
