"""C11: event-driven SIR with arbitrary delays = first-passage percolation.
Theorems: coq/Props/C11.v over Model/EventSIR.v (queue invariant, soundness, closedness,
Bellman characterisation for any tmax and any tie order, oracles consulted once, fuel).
Tie: the extracted model is run against fast_nonMarkov_SIR (deterministic delay/duration
tables incl. 0, inf and equal values; exhaustively on all graphs <=3 nodes) and against
fast_SIR under the scripted random source, plus the percolation builders.
Failing-input search: plain Dijkstra (Python, independent of the model) evaluated on the
implementation's own output."""
import itertools, random
from fractions import Fraction as F
from . import common as C
from . import simrun as R
from . import sim_check as SC
from . import esir_lib as L

CLAIM = dict(
    text="Machine-checked theorems (coq/Props/C11.v, closed under the global context) over an executable model of myQueue/"
         "_process_trans_SIR_/_process_rec_SIR_/fast_nonMarkov_SIR/fast_SIR written as the code is (heap as a sorted list with counters "
         "and an ARBITRARY tie policy, pred_inf_time assigned even when Q.add drops an event at tmax, rec_time, rows, transmissions, log of "
         "rule calls): for all delay/duration oracles (0, equal and infinite values), graphs (directed or not), initial sets, tmin<tmax "
         "(tmax possibly infinite) and EVERY tie order the run ends within fuel |I0|+sum(deg+1) and infects v at tmin + shortest-path "
         "distance in H = {u->v | delay<=duration(u)} minus R0 iff that is < tmax, recovers it duration(v) later iff < tmax, records a "
         "shortest-path predecessor as infector (esir_first_passage; esir_sound_closed, esir_queue_invariant = J0-J5, generic bellman_char, "
         "esir_tie_independent); user rules consulted at most once per argument (esir_rules_once); the sampler entry used by fast_SIR shares "
         "the loop (fast_nonmarkov_is_esir_det); percolation builders build exactly H with the stated attributes (perc_builder_spec) and "
         "get_infected_nodes returns its out-component minus R0 (get_infected_spec, sound and complete). "
         "Both return modes return and pred_inf_time = infection time for every infected node (esir_det_full, invariant J3b). "
         "Nothing is _partial; not proved: the row counts (S,I,R columns) as a function of the log (C04/C10 material). Tie: extracted model vs the real code on every graph <=3 nodes x delays {0,1,2,inf} x "
         "durations {0,1,2,inf} (exhaustive in thorough), random graphs <=10 nodes, fast_SIR on both paths (per-edge expovariate; "
         "constant-tau = expovariate + np.random.binomial + random.sample + truncated exponential) under a scripted random source with every "
         "rate/binomial argument compared, both return modes, rule-call order, percolation builders.",
    design='DESIGN.md section 4 C11 (+ fast_SIR half of C01), Appendix A.1',
    technique='Coq proof (queue invariants J0-J5 by induction over pops for any tie policy, potential-function termination, generic Bellman characterisation) + extracted-model/implementation correspondence + Dijkstra oracle on the implementation output',
    note="heapq and networkx.descendants are taken by specification; float arithmetic is exact on the dyadic inputs used; the CTMC law of "
         "fast_SIR (C01) is not part of this property. Mutants (scratch worktree): 11 of 12 reported (<= vs < at recovery time, queue keeps "
         "events at tmax, pred_inf_time not updated, rate x1.03, builder strict <, recovered nodes not removed, early recovery cut, wrong "
         "susceptible filter, LIFO ties (correspondence only: the property holds for any tie order), truncated exponential off by one "
         "period, binomial p halved); the non-strict pred test is behaviourally equivalent and is not reported.")

VALS = [F(0), F(1), F(2), None]


class DirectLib:
    """esir_lib with the ESIR command (esir_det itself, fuel = esir_fuel) as the model line"""
    COMP = L.COMP
    def __getattr__(self, k): return getattr(L, k)
    @staticmethod
    def model_line(case, mode): return L.direct_line(case)


def small_cases(stride, rng, directed3_cap):
    """all labelled graphs on <=3 nodes (undirected: all; directed: all on <=2 nodes, on 3 nodes all
    graphs with <=directed3_cap arcs) x every delay table over {0,1,2,inf} x every duration table,
    one (I0, R0, tmax, return mode) variant per table chosen by a counter; every stride-th is kept"""
    k = 0
    labels_by_n = {1: ['vb'], 2: [('t', 1), 'va'], 3: ['w1', ('m', 0), 103]}
    for n in (1, 2, 3):
        for directed in (False, True):
            for edges in R.all_graphs(n, directed):
                if directed and n == 3 and len(edges) > directed3_cap: continue
                if directed and n == 1: continue
                gc = R.graph_from_edges(n, edges, labels_by_n[n], directed)
                arcs = [(u, v) for u in gc.order for v in gc.G.neighbors(u)]
                for dvals in itertools.product(VALS, repeat=len(arcs)):
                    for rvals in itertools.product(VALS, repeat=n):
                        k += 1
                        if k % stride: continue
                        tmin = F(5, 2)
                        var = k // stride
                        i0 = [gc.order[0]] if (n == 1 or var % 3) else [gc.order[1], gc.order[0]]
                        rest = [u for u in gc.order if u not in i0]
                        r0 = [rest[-1]] if (rest and var % 5 == 0) else None
                        tmax = [None, tmin + 1, tmin + 2, tmin + 3, tmin + F(3, 2)][var % 7 % 5]
                        yield {'kind': 'NM', 'gc': gc, 'full': var % 2 == 0, 'tmin': tmin, 'tmax': tmax, 'rho': None,
                               'i0': i0, 'i0_form': 'list', 'r0': r0, 'dtab': dict(zip(arcs, dvals)),
                               'rtab': dict(zip(gc.order, rvals))}


def nontrivial(case, m, impl):
    return m.get('status') == 'OK' and len(m.get('rows', [])) >= 3


def check_builders(EoN, sim, rng, ncases, res):
    """nonMarkov_directed_percolate_network_with_timing / directed_percolate_network / get_infected_nodes
    against the model and against the specification written here in Python"""
    bad = []; mism = []
    cases = [L.gen_case(rng, 'NM', nmax=6, zero_init_dur=True) for _ in range(ncases)]
    cases = [c for c in cases if c['i0']]
    outs = C.run_model([L.perc_line(c) for c in cases], L.COMP)
    for c, o in zip(cases, outs):
        m = R.parse_model_line(o); res.stat('perc_builder')
        rp = dict(L.case_json(c), entry='nonMarkov_directed_percolate_network_with_timing')
        for weights in (True, False):
            try:
                H, calls = L.run_perc_impl(EoN, c, weights)
            except Exception as e:
                bad.append(('builder/crash', 'raised %s' % type(e).__name__, rp)); continue
            h = L.canon_H(H, c['gc'], weights)
            nodes, dur, edges = L.perc_spec(c)
            if not h['directed'] or sorted(h['nodes']) != nodes or set(h['edges']) != set(edges):
                bad.append(('builder/graph', 'built graph has nodes %r arcs %r; the specification (same nodes, u->v iff delay<=duration) gives %r %r' % (h['nodes'], sorted(h['edges']), nodes, sorted(edges)), rp))
            elif weights and (h['dur'] != dur or h['edges'] != edges or h['node_attr_keys'] not in ([], ['duration']) or h['edge_attr_keys'] not in ([], ['delay_to_infection'])):
                bad.append(('builder/attributes', 'attributes duration=%r delay_to_infection=%r; expected %r %r' % (h['dur'], h['edges'], dur, edges), rp))
            elif not weights and (h['node_attr_keys'] or h['edge_attr_keys']):
                bad.append(('builder/attributes', 'weights=False but attributes %r %r present' % (h['node_attr_keys'], h['edge_attr_keys']), rp))
            if len(set(calls)) != len(calls):
                bad.append(('builder/calls-once', 'a rule was consulted twice: %r' % (calls,), rp))
            if m['status'] != 'OK':
                mism.append(('model %r' % (m,), rp)); continue
            mn, md, me = L.parse_pg(m)
            if sorted(h['nodes']) != mn or set(h['edges']) != set(me) or (weights and (h['dur'] != md or h['edges'] != me)) or L.parse_calls(m) != calls:
                mism.append(('builder: implementation %r calls %r, model %r %r %r calls %r' % (h, calls, mn, md, me, L.parse_calls(m)), rp))
    # directed_percolate_network and get_infected_nodes under scripted draws
    lines = []; metas = []
    for _ in range(ncases):
        gc = R.gen_graph(rng, nmax=6, directed=rng.random() < 0.3)
        tau = R.dyadic(rng); gamma = R.dyadic(rng)
        k = rng.randint(1, min(2, len(gc.order)))
        i0 = rng.sample(gc.order, k); rest = [u for u in gc.order if u not in i0]
        r0 = rng.sample(rest, min(len(rest), rng.randint(0, 2))) if rng.random() < 0.5 else []
        if rng.random() < 0.05 and i0: r0 = r0 + [i0[0]]
        ids = lambda l: '%d %s' % (len(l), ' '.join(str(gc.idmap[u]) for u in l))
        lines.append(' '.join(['GINF', gc.tokens(), C.qtok(tau), C.qtok(gamma), ids(i0), ids(r0), 'W ' + R.ent_tokens(rng)]))
        metas.append(('GINF', gc, tau, gamma, i0, r0))
        lines.append(' '.join(['DPERC', gc.tokens(), C.qtok(tau), C.qtok(gamma), 'W ' + R.ent_tokens(rng)]))
        metas.append(('DPERC', gc, tau, gamma, None, None))
    outs = C.run_model(lines, L.COMP)
    for (cmd, gc, tau, gamma, i0, r0), o in zip(metas, outs):
        m = R.parse_model_line(o); res.stat(cmd.lower())
        rp = {'entry': cmd, 'graph': gc.to_json(), 'tau': str(tau), 'gamma': str(gamma), 'i0': [repr(u) for u in i0 or []],
              'r0': [repr(u) for u in r0 or []], 'draws': [str(d) for d in m.get('draws', [])]}
        if m['status'] == 'DRIVERFAIL':
            mism.append(('driver: %r' % (m,), rp)); continue
        s = R.Scripted(m['draws'], gc.idmap)
        if cmd == 'GINF':
            fn = lambda: EoN.get_infected_nodes(gc.G, float(tau), float(gamma), initial_infecteds=list(i0), initial_recovereds=list(r0))
        else:
            fn = lambda: EoN.directed_percolate_network(gc.G, float(tau), float(gamma))
        st, val = R.run_impl(fn, s, sim)
        d = R.compare_trace(s.log, m['trace'])
        if d: mism.append((cmd + ': ' + d, rp)); continue
        if m['status'] == 'ERR':
            if not (st == 'EXC' and R.ERRMAP.get(val, val) == m['err']) and m['err'] not in ('OutOfDraws',):
                mism.append(('%s: model raises %s, implementation %s %r' % (cmd, m['err'], st, val), rp))
            if set(i0 or []) & set(r0 or []) and not (st == 'EXC' and val == 'EoNError'):
                bad.append(('get_infected_nodes/overlap', 'overlapping initial sets not rejected (got %s %r)' % (st, val), rp))
            continue
        if st != 'OK':
            mism.append(('%s: model returns, implementation %s %r' % (cmd, st, val), rp)); continue
        # the tables the draws mean (independent reconstruction: one draw per node then per arc, rate>0 guarded)
        ds = [float(x) for x in m['draws']]; p = 0; dur = {}; dl = {}
        im = gc.idmap
        for u in gc.order:
            if gamma > 0: dur[im[u]] = ds[p]; p += 1
            else: dur[im[u]] = L.INF
            for v in gc.G.neighbors(u):
                if tau > 0: dl[(im[u], im[v])] = ds[p]; p += 1
                else: dl[(im[u], im[v])] = L.INF
        edges = {e: w for e, w in dl.items() if w <= dur[e[0]]}
        if cmd == 'DPERC':
            h = L.canon_H(val, gc, True)
            if sorted(h['nodes']) != [im[u] for u in gc.order] or h['edges'] != edges or h['dur'] != dur:
                bad.append(('directed_percolate_network/graph', 'built %r; expected arcs %r durations %r' % (h, edges, dur), rp))
            mn, md, me = L.parse_pg(m)
            if sorted(h['nodes']) != mn or h['edges'] != me or h['dur'] != md:
                mism.append(('DPERC: implementation %r, model %r %r %r' % (h, mn, md, me), rp))
        else:
            got = sorted(im[u] for u in val)
            exp = sorted(L.reach_py(len(gc.order), edges, [im[u] for u in i0], set(im[u] for u in r0)))
            if got != exp:
                bad.append(('get_infected_nodes/out-component', 'returned %r; out-component of the initial nodes in the percolated graph minus recovered nodes is %r' % (got, exp), rp))
            mg = sorted(int(x) for x in (m.get('extra') or {}).get('NODES', []))
            if got != mg:
                mism.append(('GINF: implementation %r, model %r' % (got, mg), rp))
    return bad, mism


def run(run, tier):
    EoN = C.import_eon()
    import EoN.simulation as sim
    rng = run.rng
    props = C.check_props('C11')
    ok, log = C.build_driver(L.COMP)
    if not ok:
        run.violation('C11/build', 'extracted model does not build: ' + log[-500:], {'log': log[-3000:]}, no_input=True)
        C.proof_coverage(run, props, 1, 0, 'build failed', [log[-300:]]); return
    quick = tier == 'quick'
    res = SC.Result()
    # corpus of past failures first
    for c in C.load_corpus('C11'):
        case = L.case_from_json(c)
        SC.run_cases(L, EoN, sim, [case], ['D %d %s' % (len(c.get('draws', [])), R.qtoks([F(d) for d in c.get('draws', [])]))], oracle=L.oracle, res=res, label='corpus')
    # 1. every small graph x delay/duration table (deterministic rules): the model's esir_det itself
    stride = 11 if quick else 1
    small = list(small_cases(stride, rng, 2 if quick else 3))
    if not quick and len(small) > 700000:
        small = small[::2]
    for i in range(0, len(small), 20000):
        chunk = small[i:i + 20000]
        SC.run_cases(DirectLib(), EoN, sim, chunk, [''] * len(chunk), oracle=L.oracle, nontrivial=nontrivial, res=res, label='small-exhaustive')
    # 1b. every undirected graph on 4 nodes with random tables over {0,1,2,inf}
    four = []
    labels4 = ['vd', ('t', 2), 7, 'va']
    for edges in R.all_graphs(4, False):
        gc = R.graph_from_edges(4, edges, labels4, False)
        for k in range(25 if quick else 1200):
            dt, rt = L.gen_tables(rng, gc, VALS, VALS)
            i0 = rng.sample(gc.order, rng.randint(1, 2)); rest = [u for u in gc.order if u not in i0]
            four.append({'kind': 'NM', 'gc': gc, 'full': k % 2 == 0, 'tmin': F(-3, 2), 'tmax': rng.choice([None, F(-1, 2), F(1, 2), F(3, 2)]),
                         'rho': None, 'i0': i0, 'i0_form': 'list', 'r0': rng.sample(rest, 1) if k % 4 == 0 else None, 'dtab': dt, 'rtab': rt})
    for i in range(0, len(four), 20000):
        chunk = four[i:i + 20000]
        SC.run_cases(DirectLib(), EoN, sim, chunk, [''] * len(chunk), oracle=L.oracle, nontrivial=nontrivial, res=res, label='four-node-tables')
    # 2. random graphs <=10 nodes, tables with ties / 0 / inf, all argument shapes, rho sampling
    nrand = 6000 if quick else 60000
    cases = [L.gen_case(rng, 'NM', nmax=10, zero_init_dur=True) for _ in range(nrand)]
    cases += [L.gen_case(rng, 'NM', malformed=True) for _ in range(nrand // 50)]
    SC.run_cases(L, EoN, sim, cases, ['W ' + R.ent_tokens(rng) for _ in cases], oracle=L.oracle, nontrivial=nontrivial, res=res, label='nonMarkov-random')
    # 3. fast_SIR under the scripted random source (model chooses the script)
    nf = 6000 if quick else 60000
    cases = [L.gen_case(rng, 'FSIR', nmax=10) for _ in range(nf)]
    SC.run_cases(L, EoN, sim, cases, ['W ' + R.ent_tokens(rng) for _ in cases], oracle=L.oracle, nontrivial=nontrivial, res=res, label='fast_SIR-random')
    # every draw script on small graphs (delays from a set with ties)
    cases = []
    for _ in range(120 if quick else 1200):
        c = L.gen_case(rng, 'FSIR', nmax=3); c['rho'] = None
        if not c['i0']: c['i0'] = [c['gc'].order[0]]; c['i0_form'] = 'list'; c['r0'] = None
        cases.append(c)
    SC.run_cases(L, EoN, sim, cases, ['A 12 %d 3 1 2 1 1 3 2' % (60 if quick else 300)] * len(cases), oracle=L.oracle, nontrivial=nontrivial, res=res, label='fast_SIR-allpaths')
    SC.report(run, 'C11', 'fast_nonMarkov_SIR', res, 'coq/Model/EventSIR.v', 'coq/Props/C11.v')
    # 4. percolation builders
    bbad, bmism = check_builders(EoN, sim, rng, 300 if quick else 5000, res)
    seen = set()
    for suffix, what, rp in bbad:
        if suffix in seen: continue
        seen.add(suffix)
        run.violation('C11/%s' % suffix, what, dict(rp, what=what, builder=True))
    if bmism and not bbad:
        what, rp = bmism[0]
        run.violation('C11/percolation-builders/correspondence', 'correspondence coq/Model/EventSIR.v <-> percolation builders no longer checks; the specification oracle found no failing input; ' + what[:400],
                      dict(rp, broken='correspondence percolation builders', what=what, builder=True), no_input=True)
    if not props['ok']:
        run.violation('C11/proof', 'Props/C11.v no longer checks: %s' % props['log'][-400:], {'broken': 'coq/Props/C11.v', 'log': props['log']}, no_input=True)
    C.proof_coverage(run, props, res.n, min(len(res.distinct), res.nontrivial),
                     'deterministic rules: every labelled graph on <=3 nodes (undirected all; directed with <=%d arcs on 3 nodes) x every delay table over {0,1,2,inf} x every duration table over {0,1,2,inf} (every %d-th kept), one (I0,R0,tmax,return mode) variant each, tmin=5/2; every undirected graph on 4 nodes x random tables over {0,1,2,inf} (tmin=-3/2); random graphs <=10 nodes (30%% directed) with delays in {0,1/2,1,2,3,inf}, durations in {0,1/2,1,2,inf}, tmin in {0,5/2,-3/2,..}, finite/infinite tmax, initial recovered nodes, rho sampling, container shapes; fast_SIR random scripts (dyadic draws) + every draw script on graphs <=3 nodes; percolation builders. Compared: calls of the user rules (order and arguments), expovariate rates, arrays, histories, transmissions; the Dijkstra oracle judges the implementation\'s own output. Non-trivial = at least two reported events' % (2 if quick else 3, stride),
                     res.samples, {'distribution': res.stats, 'mismatches': len(res.mism), 'oracle_failures': len(res.oracle_bad),
                                   'builder_failures': len(bbad), 'builder_mismatches': len(bmism)})
    run.assumptions += ['heapq.heappush/heappop return the least (time, counter) tuple (specification of heapq)',
                        'networkx descendants = reachability (specification); dict iteration = insertion order',
                        'user rule functions are pure tables (deterministic, called with (u,v) / (u))']


def replay(rp):
    """re-execute a replay against /repo: 1 if it still fails"""
    EoN = C.import_eon()
    import EoN.simulation as sim
    j = rp['replay']
    if j.get('builder') or 'kind' not in j:
        print('builder replays are re-run by the check itself'); return 2
    case = L.case_from_json(j)
    draws = [F(d) for d in j.get('draws', [])]
    impl = L.run_impl(EoN, sim, case, draws)
    bad = L.oracle(case, impl, {'draws': draws})
    C.build_driver(L.COMP)
    out = C.run_model([L.model_line(case, 'D %d %s' % (len(draws), R.qtoks(draws)))], L.COMP)[0]
    d = L.compare(case, R.parse_model_line(out), impl)
    for b in bad: print('oracle:', b)
    if d: print('correspondence:', d)
    return 1 if (bad or d) else 0
