"""C02: Gillespie_SIS and fast_SIS sample the exact network SIS Markov chain.
Theorems: coq/Props/C02.v.  Tie: extracted model (Model/Gillespie.v) vs the
implementation on model-chosen draw scripts (trace + outputs), exhaustive on small
graphs.  Failing-input search: an L0 oracle replays the implementation's own trace
against the chain's generator (rates, branch odds, candidate sets)."""
from . import common as C
from . import gil_lib as GL
from . import sim_check as SC

CLAIM = dict(
    text="Machine-checked theorems (coq/Props/C02.v, closed under the global context) over an executable model of Gillespie_SIS written as the code is "
         "(two _ListDict_ candidate structures, weighted and unweighted paths, both return modes): the initial condition establishes and EVERY event "
         "preserves the agreement 'infecteds = I nodes with recovery weights, IS_links = ordered I-S edges with transmission weights' (so it holds in "
         "every reachable state of every graph), the waiting time is drawn with the chain's total rate, the jump distribution is exactly "
         "gamma*w_u/total for each recovery (I->S) and tau*w_uv/total for each transmission with total mass 1 (nothing else happens), no run crashes. "
         "Weighted selection inside a candidate set is C16's rejection-loop law. Tie: the extracted model chooses draw scripts (every path on all graphs "
         "<=3/4 nodes, random walks on larger ones) and the implementation must make the same calls to random with the same arguments and return the same arrays/full data.",
    design='DESIGN.md section 4, C02',
    technique='Coq proof (bookkeeping invariant by induction over events, closed-form jump law) + extracted-model/implementation trace correspondence',
    note="fast_SIS half: the event-driven model and its theorems are delivered by Props/C02fast.v (valid path; full clock structure: every expovariate call is a clock of rate gamma*w_v or tau*w_uv started at the infection of its source, at an earlier attempt of the same pair or at the single redraw from rec_time[v], and at every loop head every enabled pair has a pending or dead clock); "
         "the step from independent exponential clocks to the CTMC law (memorylessness of the exponential clocks) is cited, not formalised. "
         "Assumed: random.random uniform on [0,1), random.choice uniform, random.expovariate(r) exponential with rate r, draws independent (DESIGN 2.3). "
         "The master-equation clause follows from the jump chain + holding rates by the standard construction of a CTMC (cited).")


def run(run, tier):
    EoN = C.import_eon()
    import EoN.simulation as sim
    props = C.check_props('C02')
    ok, log = C.build_driver(GL.COMP)
    if not ok:
        run.violation('C02/build', 'extracted model does not build: ' + log[-500:], {'log': log[-3000:]}, no_input=True)
        C.proof_coverage(run, props, 1, 0, 'build failed', [log[-300:]]); return
    res = GL.standard_run(run, EoN, sim, 'SIS', tier)
    SC.report(run, 'C02', 'Gillespie_SIS', res, 'Model/Gillespie.v', 'Props/C02.v')
    extra = {'distribution': res.stats, 'mismatches': len(res.mism), 'oracle_failures': len(res.oracle_bad)}
    # fast_SIS half (Model/EventSIS.v, theorems Props/C02fast.v)
    try:
        from . import c02_fast
        fp = c02_fast.run_fast_part(run, tier, 'C02')
        extra['fast_SIS'] = {k: v for k, v in fp.items() if k not in ('props', 'samples')}
        extra['fast_SIS']['theorems'] = (fp.get('props') or {}).get('theorems')
        if fp.get('props'):
            props['theorems'] = list(props['theorems']) + list(fp['props']['theorems'])
            props['axioms'] = dict(props['axioms'], **fp['props']['axioms'])
            props['ok'] = props['ok'] and fp['props']['ok']
        res.n += fp.get('n', 0); res.nontrivial += fp.get('nontrivial', 0)
        res.distinct |= {('fast_SIS', i) for i in range(fp.get('distinct', 0))}
    except ImportError:
        extra['fast_SIS'] = 'event-driven component not built yet'
    # the jump law inside a weighted candidate set is C16's: a change to _ListDict_ that biases the choice is a failing input here too
    from . import c16 as _c16
    import EoN.simulation as _sim
    _c16.selection_law_part(run, 'C02', _sim, run.rng, 300 if tier == 'quick' else 4000)
    if not props['ok']:
        run.violation('C02/proof', 'Props/C02.v no longer checks: %s' % props['log'][-400:], {'broken': 'coq/Props/C02.v', 'log': props['log']}, no_input=True)
    C.proof_coverage(run, props, res.n, min(len(res.distinct), res.nontrivial),
                     'draw scripts chosen by the extracted model: every path (both sides of each recovery/transmission draw at p -/+ 2^-30, every candidate) on every '
                     'labelled graph <=3 (quick) / <=4 (thorough) nodes x {unweighted, edge, node, both weights} x initial sets, plus random walks on random graphs <=12 '
                     'nodes with permuted-int/str/tuple labels, dyadic rates and weights incl. 0, tmin != 0, finite/infinite tmax, rho, both return '
                     'modes (4% malformed: rho together with initial_infecteds). Non-trivial = at least 2 events; distinct = distinct (case, script).',
                     res.samples, extra)
    run.assumptions += ['random.random uniform on [0,1), random.choice uniform, expovariate exponential, draws independent (DESIGN 2.3)']


def replay(rp):
    if rp['replay'].get('listdict'):
        from . import c16
        return c16.replay(rp)
    return GL.replay(rp)
