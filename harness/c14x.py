"""C14, proof-side extension (coq/Props/C14x.v; proofs coq/Proofs/C14x*.v): called from harness/c14.py.

part(run, tier, props) does three things, all reported under property C14:

 1. re-checks Props/C14x.v (its theorems join the obligations of C14; a break is a violation with no_input=True);
 2. point-evaluates the decidable statement of C14x_node_rhs_equivariant_b on the PYTHON functions
    _dSIS/_dSIR_individual_based_, _dSIS/_dSIR_pair_based_ of the working tree: a random problem (graph, nodelist,
    index_of_node, direction-dependent rates, state V) and a relabelled copy (tuple / str / frozenset / permuted-int labels,
    shuffled node and edge insertion order, so G.neighbors lists in another order, nodelist re-ordered); requires
        rhs(G', nodelist', idx', tr', rc')(P V) = P (rhs(G, nodelist, idx, tr, rc)(V))     (rel 1e-9)
    where P = perm_state is computed by the EXTRACTED action (and independently in Python, the two must agree exactly);
    the extracted relabel_okb certifies that the generated pair is inside the theorem's hypotheses, the extracted
    equivariant_at is the theorem's own boolean, and the extracted right-hand side of the relabelled problem is compared
    with the Python value (the model/implementation tie on the relabelled side);
 3. ties the initial-vector builders node_V0 (C14x_node_problem_equivariant) to the entry points: row 0 of the full-data
    output of SIS/SIR_individual_based and SIS/SIR_pair_based on both problems against the extracted node_V0, and the
    two rows against each other through P.
A failing Python-vs-Python comparison is a failing input of the property; a bare model disagreement is reported with
no_input=True and names the correspondence."""
import math
from fractions import Fraction as F
from . import common as C
from . import rhs2_lib as L

CLAIM = dict(
    claimed=False,        # part of C14: text proposed for the CLAIM of harness/c14.py
    text="Machine-checked theorems (coq/Props/C14x.v + C14xg.v, closed under the global context). (1) Node-level ODE systems (individual-based / pair-based SIS and SIR, the "
         "definitions of Model/Rhs2D.v that are proved equal to the definitions regenerated from EoN/analytic.py on every run): for every injective relabelling, every order of every "
         "adjacency list and every re-ordering of nodelist (decidable hypothesis relabel_okb) the right-hand side at the re-ordered state is the re-ordered right-hand side, at every "
         "state; the initial vectors (rho, Y0/X0, *_pure_IC sets, XY0/XX0 through the adjacency matrix) are re-ordered likewise, so the two initial-value problems are conjugate; "
         "solutions are mapped to solutions; the discrete solutions of every explicit Runge-Kutta method (Euler, RK4, any tableau/step/number of steps) are re-ordered block by block "
         "and all aggregated outputs (sums of X, Y, 1-X-Y) coincide. (2) All 17 modelled *_from_graph wrappers: under a graph isomorphism with any node / adjacency (hence edge) order "
         "and the request renamed, the same error or outputs with the same series whose values are equal rationals at every time, for every solver that is a function of its input "
         "(six wrappers: literally identical for every solver); every graph quantity read (N, N_k, class counts, edge-type counts, NkNl matrices, mean degree, PGFs, Pnk, estimate_R0, "
         "neighbour counts) is invariant. (3) discrete_SIR with a table test and fast_nonMarkov_SIR with delay/duration tables: rows identical / per-node histories, infection and "
         "recovery times, final statuses and transmissions() mapped through the relabelling, for any two iteration orders / tie policies (corollaries of the C12 / C11 characterisations); "
         "fast_nonMarkov_SIS with rule tables: same rows, transmissions() and node histories renamed, whenever all event times are distinct (C13 + equivariance of the reference agenda semantics).",
    design='DESIGN.md section 4, C14; section 8.2 row C14',
    technique='Coq proof (node forms of the right-hand sides + transport of sums along permutations; esum handshake; BFS / shortest-path transport) + extracted relabelling action '
              'and decidable commutation statement evaluated on the Python right-hand sides and entry points',
    note='Lift from vector fields to exact ODE flows (Picard-Lindelof) cited; scipy odeint (adaptive multistep) is covered numerically by harness/c14_ode.py.')

COMP = 'c14x'
PROPS = 'C14x'
PROPS_GEN = 'C14xg'       # over coq/Gen/Rhs2.v, regenerated from the working tree on every run
SYS = {name: i for i, name in enumerate(L.NODE)}
ENTRY = ['SIS_individual_based', 'SIR_individual_based', 'SIS_pair_based', 'SIR_pair_based']


# ---------------------------------------------------------------- the relabelled copy ----
def new_labels(rng, n, kind):
    if kind == 'perm':
        l = list(range(n)); rng.shuffle(l); return l
    if kind == 'str':
        l = ['v%d' % (13 * i % 17) for i in range(n)]; rng.shuffle(l); return l
    if kind == 'tuple':
        l = [(i % 2, 'a%d' % i) for i in range(n)]; rng.shuffle(l); return l
    if kind == 'frozenset':
        l = [frozenset([i, n + 1]) for i in range(n)]; rng.shuffle(l); return l
    raise KeyError(kind)


def relabel(rng, p, kind):
    """p: a point of rhs2_lib.gen_node_point.  Returns the data of problem 2 as JSON-able lists (positions refer to
    problem 1's node ids = positions in list(G1.nodes()))."""
    n = p['n']
    order2 = list(range(n)); rng.shuffle(order2)                  # node insertion order of G2
    eo = list(range(len(p['edges']))); rng.shuffle(eo)            # edge insertion order
    flips = [rng.random() < .5 for _ in eo]
    nl2 = list(p['nodelist']); rng.shuffle(nl2)                   # re-ordered nodelist
    return {'kind': kind, 'labels2': [repr(x) for x in new_labels(rng, n, kind)], 'order2': order2, 'eo': eo, 'flips': flips, 'nl2': nl2}


def build2(p, r):
    import networkx as nx
    new = [eval(x, {'frozenset': frozenset}) for x in r['labels2']]
    G2 = nx.Graph()
    G2.add_nodes_from(new[u] for u in r['order2'])
    for k, fl in zip(r['eo'], r['flips']):
        u, v = p['edges'][k]
        if fl: u, v = v, u
        G2.add_edge(new[u], new[v])
    return G2, new


def adj_ids(G, ids):
    """adjacency lists in networkx iteration order, as ids; one list per node in id order"""
    by = {i: u for u, i in ids.items()}
    return [[ids[v] for v in G.neighbors(by[i])] for i in range(len(ids))]


def perm_py(sys, n, idx1, nl2, V):
    """the relabelling action, independently of the extracted one: idx1[u] = position of node u in problem 1's nodelist"""
    b1 = lambda off: [V[off + idx1[u]] for u in nl2]
    b2 = lambda off: [V[off + idx1[u] * n + idx1[v]] for u in nl2 for v in nl2]
    if sys == 0: return b1(0)
    if sys == 1: return b1(0) + b1(n)
    if sys == 2: return b1(0) + b2(n) + b2(n + n * n)
    return b1(0) + b1(n) + b2(2 * n) + b2(2 * n + n * n)


def setup(p, r):
    """everything both sides need: graphs, id maps, index maps, rate tables"""
    G1, lab1 = L.nx_graph(p)
    G2, new = build2(p, r)
    n = p['n']
    ids1 = {lab1[u]: u for u in range(n)}
    ids2 = {u: i for i, u in enumerate(G2.nodes())}
    phi = [ids2[new[u]] for u in range(n)]                        # node id of problem 1 -> node id of problem 2
    inv = {phi[u]: u for u in range(n)}
    idx1 = {u: k for k, u in enumerate(p['nodelist'])}
    idx2 = {phi[u]: k for k, u in enumerate(r['nl2'])}            # by node id of problem 2
    nodelist1 = [lab1[u] for u in p['nodelist']]
    nodelist2 = [new[u] for u in r['nl2']]
    return dict(G1=G1, G2=G2, lab1=lab1, new=new, ids1=ids1, ids2=ids2, phi=phi, inv=inv, idx1=idx1, idx2=idx2,
                nodelist1=nodelist1, nodelist2=nodelist2, n=n)


def eqv_line(p, r, s):
    n = s['n']; sys = SYS[p['fn']]
    toks = ['EQV', str(sys), str(n)]
    for a in adj_ids(s['G1'], s['ids1']):
        toks += [str(len(a))] + [str(x) for x in a]
    toks += [str(u) for u in p['nodelist']]
    toks += [str(s['idx1'][u]) for u in range(n)]
    toks += [C.qtok(F(x)) for x in p['rc']]
    toks.append(str(len(p['tr'])))
    for k, w in p['tr'].items():
        u, v = k.split(',')
        toks += [u, v, C.qtok(F(w))]
    for a in adj_ids(s['G2'], s['ids2']):
        toks += [str(len(a))] + [str(x) for x in a]
    toks += [str(u) for u in r['nl2']]
    toks += [str(s['phi'][u]) for u in range(n)]
    toks += [str(s['idx2'][j]) for j in range(n)]
    toks += [C.qtok(F(p['rc'][s['inv'][j]])) for j in range(n)]
    toks.append(str(len(p['tr'])))
    for k, w in p['tr'].items():
        u, v = k.split(',')
        toks += [str(s['phi'][int(u)]), str(s['phi'][int(v)]), C.qtok(F(w))]
    toks.append(L._ql(p['V'])); toks.append(C.qtok(F(p['t'])))
    return ' '.join(toks)


def parse_blocks(line):
    if not line.startswith('OK'):
        raise RuntimeError('c14x driver: ' + line[:200])
    return [[F(x) for x in b.split()] for b in line[2:].split('|')]


def py_rhs(EoN, p, s, side, V):
    import numpy as np
    fn = getattr(EoN.analytic, p['fn'])
    tr = {k: float(F(v)) for k, v in p['tr'].items()}
    rc = [float(F(x)) for x in p['rc']]
    t = float(F(p['t']))
    Vf = np.array([float(x) for x in V], dtype=float)
    with np.errstate(all='ignore'):
        if side == 1:
            pos = s['ids1']
            out = fn(Vf, t, s['G1'], s['nodelist1'], {u: i for i, u in enumerate(s['nodelist1'])},
                     lambda u, v: tr['%d,%d' % (pos[u], pos[v])], lambda u: rc[pos[u]])
        else:
            back = {s['new'][u]: u for u in range(s['n'])}
            out = fn(Vf, t, s['G2'], s['nodelist2'], {u: i for i, u in enumerate(s['nodelist2'])},
                     lambda u, v: tr['%d,%d' % (back[u], back[v])], lambda u: rc[back[u]])
    return [float(x) for x in np.asarray(out, dtype=float).ravel()]


def vec_close(a, b, tol=1e-9):
    return len(a) == len(b) and all(C.close(x, y, tol) for x, y in zip(a, b))


def eqv_cases(rng, n_per_fn):
    cases = []
    kinds = ['perm', 'str', 'tuple', 'frozenset']
    for name in L.NODE:
        for k in range(n_per_fn):
            p = L.gen_node_point(rng, name)
            cases.append((p, relabel(rng, p, kinds[k % 4])))
    return cases


def eqv_check(EoN, cases, report):
    """report(key, what, replay, no_input)"""
    stats = {'cases': 0, 'agree': 0, 'nontrivial': 0, 'outside_domain': 0}
    samples = []
    setups = [setup(p, r) for p, r in cases]
    outs = C.run_model([eqv_line(p, r, s) for (p, r), s in zip(cases, setups)], COMP)
    for (p, r), s, o in zip(cases, setups, outs):
        sys = SYS[p['fn']]; n = s['n']
        rp = {'kind': 'rhs-equivariance', 'point': p, 'relabel': r}
        try:
            flags, PV, m1, m2 = parse_blocks(o)
        except Exception as e:
            report('C14/c14x/driver', 'extracted driver failed: %s' % str(e)[:200], rp, True); continue
        V = [F(x) for x in p['V']]
        PVpy = perm_py(sys, n, s['idx1'], r['nl2'], V)
        if flags[0] != 1:
            report('C14/c14x/generator', 'the generated relabelled copy is rejected by the extracted relabel_okb (harness bug)', rp, True); continue
        if PV != PVpy:
            report('C14/c14x/action', 'extracted perm_state and its Python transcription differ', rp, True); continue
        if flags[1] != 1:
            report('C14/c14x/theorem-boolean', 'extracted equivariant_at is false inside relabel_okb: contradicts C14x_node_rhs_equivariant_b', rp, True); continue
        try:
            r1 = py_rhs(EoN, p, s, 1, V)
            r2 = py_rhs(EoN, p, s, 2, PV)
        except ZeroDivisionError:
            stats['outside_domain'] += 1; continue
        except Exception as e:
            report('C14/%s/rhs-raises/labels=%s' % (p['fn'], r['kind']), '%s raises %s: %s on a relabelled / re-ordered problem' % (p['fn'], type(e).__name__, str(e)[:100]), rp, False); continue
        if not all(math.isfinite(x) for x in r1 + r2):
            stats['outside_domain'] += 1; continue
        stats['cases'] += 1
        Pr1 = perm_py(sys, n, s['idx1'], r['nl2'], r1)
        if any(abs(x) > 0 for x in r1) and PVpy != V: stats['nontrivial'] += 1
        if not vec_close(r2, Pr1):
            k = next(i for i, (x, y) in enumerate(zip(r2, Pr1)) if not C.close(x, y, 1e-9))
            report('C14/%s/rhs-not-equivariant/labels=%s' % (p['fn'], r['kind']),
                   '%s: the right-hand side of the relabelled + re-ordered problem at the re-ordered state is not the re-ordered right-hand side '
                   '(component %d: %.12g vs %.12g); labels %s, node/edge insertion order and nodelist shuffled' % (p['fn'], k, r2[k], Pr1[k], r['kind']),
                   dict(rp, python_relabelled=r2[:12], python_reordered_original=Pr1[:12]), False)
            continue
        if not vec_close(r2, [float(x) for x in m2]) or not vec_close(r1, [float(x) for x in m1]):
            report('C14/c14x/tie/%s' % p['fn'], 'model (Model/Rhs2D.v) and %s disagree on the relabelled problem although the implementation is equivariant there: '
                   'correspondence rhs2 broken' % p['fn'], dict(rp, python=r2[:12], model=[float(x) for x in m2[:12]]), True)
            continue
        stats['agree'] += 1
        if len(samples) < 2 and any(abs(x) > 0 for x in r1):
            samples.append({'rhs_equivariance': {'function': p['fn'], 'labels': r['kind'], 'nodelist': p['nodelist'], 'nl2': r['nl2'],
                                                 'rhs_relabelled': r2[:6], 'reordered_rhs': Pr1[:6]}})
    return stats, samples


# ---------------------------------------------------------------- initial vectors ----
def ic_row0(EoN, entry, G, nodelist, X0, Y0):
    import numpy as np
    A = EoN.analytic
    kw = dict(tmax=0.125, tcount=2, return_full_data=True)
    Y = np.array([float(x) for x in Y0]); X = np.array([float(x) for x in X0])
    with np.errstate(all='ignore'):
        if entry == 'SIS_individual_based':
            t, Ss, Is = A.SIS_individual_based(G, 0.5, 1.0, Y0=Y, nodelist=nodelist, **kw)
            return list(Is[:, 0])
        if entry == 'SIR_individual_based':
            out = A.SIR_individual_based(G, 0.5, 1.0, Y0=Y, X0=X, nodelist=nodelist, **kw)
            return list(out[4][:, 0]) + list(out[5][:, 0])
        if entry == 'SIS_pair_based':
            t, S, I, Xs, Ys, XY, XX = A.SIS_pair_based(G, 0.5, 1.0, nodelist=nodelist, Y0=Y, **kw)
            return list(Ys[:, 0]) + list(XY[:, :, 0].ravel()) + list(XX[:, :, 0].ravel())
        t, S, I, R, Xs, Ys, Zs, XY, XX = A.SIR_pair_based(G, 0.5, 1.0, nodelist=nodelist, Y0=Y, X0=X, **kw)
        return list(Xs[:, 0]) + list(Ys[:, 0]) + list(XY[:, :, 0].ravel()) + list(XX[:, :, 0].ravel())


def pic_row0(EoN, entry, G, nodelist, I0, R0):
    A = EoN.analytic
    import numpy as np
    kw = dict(nodelist=nodelist, tmax=0.125, tcount=2, return_full_data=True)
    with np.errstate(all='ignore'):
        if entry == 'SIS_individual_based':
            t, Ss, Is = A.SIS_individual_based_pure_IC(G, 0.5, 1.0, I0, **kw)
            return list(Is[:, 0])
        if entry == 'SIR_individual_based':
            out = A.SIR_individual_based_pure_IC(G, 0.5, 1.0, I0, initial_recovereds=R0, **kw)
            return list(out[4][:, 0]) + list(out[5][:, 0])
        if entry == 'SIS_pair_based':
            t, S, I, Xs, Ys, XY, XX = A.SIS_pair_based_pure_IC(G, 0.5, 1.0, I0, **kw)
            return list(Ys[:, 0]) + list(XY[:, :, 0].ravel()) + list(XX[:, :, 0].ravel())
        t, S, I, R, Xs, Ys, Zs, XY, XX = A.SIR_pair_based_pure_IC(G, 0.5, 1.0, I0, initial_recovereds=R0, **kw)
        return list(Xs[:, 0]) + list(Ys[:, 0]) + list(XY[:, :, 0].ravel()) + list(XX[:, :, 0].ravel())


def pic_line(sys, p, r, s, I0, R0):
    n = s['n']
    toks = ['PIC', str(sys), str(n)]
    for a in adj_ids(s['G1'], s['ids1']):
        toks += [str(len(a))] + [str(x) for x in a]
    toks += [str(u) for u in p['nodelist']]
    toks += [str(s['idx1'][u]) for u in range(n)]
    for a in adj_ids(s['G2'], s['ids2']):
        toks += [str(len(a))] + [str(x) for x in a]
    toks += [str(u) for u in r['nl2']]
    toks += [str(s['phi'][u]) for u in range(n)]
    toks += [str(len(I0))] + [str(u) for u in I0] + [str(len(R0))] + [str(u) for u in R0]
    return ' '.join(toks)


def pic_cases(rng, n_per_entry):
    cases = []
    for sys, entry in enumerate(ENTRY):
        for k in range(n_per_entry):
            p = L.gen_node_point(rng, L.NODE[sys])
            r = relabel(rng, p, ['perm', 'str', 'tuple', 'frozenset'][k % 4])
            nodes = list(range(p['n'])); rng.shuffle(nodes)
            ni = rng.randint(1, max(1, p['n'] - 1))
            I0 = nodes[:ni]
            R0 = nodes[ni:ni + rng.randint(0, p['n'] - ni)] if sys in (1, 3) and rng.random() < .6 else []
            cases.append((sys, entry, p, r, I0, R0))
    return cases


def pic_check(EoN, cases, report):
    """the *_pure_IC entry points with initial sets (any container, any order) on both problems against node_V0 o (x0_sets, y0_set)"""
    stats = {'pure_ic_cases': 0, 'pure_ic_agree': 0}
    setups = [setup(p, r) for _, _, p, r, _, _ in cases]
    outs = C.run_model([pic_line(sys, p, r, s, I0, R0) for (sys, _, p, r, I0, R0), s in zip(cases, setups)], COMP)
    for (sys, entry, p, r, I0, R0), s, o in zip(cases, setups, outs):
        n = s['n']; name = entry + '_pure_IC'
        rp = {'kind': 'pure-ic', 'sys': sys, 'entry': entry, 'point': p, 'relabel': r, 'I0': I0, 'R0': R0}
        try:
            V0, PV0, V0b = parse_blocks(o)
        except Exception as e:
            report('C14/c14x/driver', 'extracted driver failed: %s' % str(e)[:200], rp, True); continue
        if PV0 != V0b:
            report('C14/c14x/theorem-pure-ic', 'extracted node_V0 from the renamed sets is not the re-ordered node_V0: contradicts C14x_node_pure_IC_equivariant', rp, True); continue
        I1 = [s['lab1'][u] for u in I0]; R1 = [s['lab1'][u] for u in R0]
        I2 = [s['new'][u] for u in reversed(I0)]; R2 = [s['new'][u] for u in reversed(R0)]
        try:
            a = pic_row0(EoN, entry, s['G1'], s['nodelist1'], I1, (R1 if R0 else None))
            b = pic_row0(EoN, entry, s['G2'], s['nodelist2'], set(I2), (set(R2) if R0 else None))
        except Exception as e:
            report('C14/%s/raises/labels=%s' % (name, r['kind']), '%s raises %s: %s' % (name, type(e).__name__, str(e)[:100]), rp, False); continue
        stats['pure_ic_cases'] += 1
        Pa = perm_py(sys, n, s['idx1'], r['nl2'], a)
        if not vec_close(b, Pa):
            k = next(i for i, (x, y) in enumerate(zip(b, Pa)) if not C.close(x, y, 1e-9))
            report('C14/%s/initial-vector-not-equivariant/labels=%s' % (name, r['kind']),
                   '%s: row 0 on the relabelled + re-ordered graph with the renamed initial sets is not the re-ordered row 0 of the original '
                   '(component %d: %.12g vs %.12g)' % (name, k, b[k], Pa[k]), dict(rp, relabelled=b[:16], reordered_original=Pa[:16]), False)
            continue
        if not vec_close(a, [float(x) for x in V0]) or not vec_close(b, [float(x) for x in V0b]):
            report('C14/c14x/tie/%s' % name, 'node_V0 o (x0_sets, y0_set) (Proofs/C14xDef.v) and row 0 of %s disagree: correspondence of the initial-vector model broken' % name,
                   dict(rp, python=a[:16], model=[float(x) for x in V0[:16]]), True)
            continue
        stats['pure_ic_agree'] += 1
    return stats


def ic_line(sys, p, r, s, X0, Y0):
    n = s['n']
    toks = ['IC', str(sys), str(n)]
    for a in adj_ids(s['G1'], s['ids1']):
        toks += [str(len(a))] + [str(x) for x in a]
    toks += [str(u) for u in p['nodelist']]
    toks += [str(s['idx1'][u]) for u in range(n)]
    for a in adj_ids(s['G2'], s['ids2']):
        toks += [str(len(a))] + [str(x) for x in a]
    toks += [str(u) for u in r['nl2']]
    toks += [str(s['phi'][u]) for u in range(n)]
    toks += [L._ql(X0), L._ql(Y0)]
    return ' '.join(toks)


def ic_cases(rng, n_per_entry):
    cases = []
    for sys, entry in enumerate(ENTRY):
        for k in range(n_per_entry):
            p = L.gen_node_point(rng, L.NODE[sys])
            r = relabel(rng, p, ['perm', 'str', 'tuple', 'frozenset'][k % 4])
            n = p['n']
            Y0 = [F(rng.randint(0, 8), 16) for _ in range(n)]
            if sys in (1, 3) and rng.random() < 0.6:                         # SIR: X0 given, Z0 = 1 - X0 - Y0 >= 0
                X0 = [F(rng.randint(1, 8), 16) for _ in range(n)]
            else:
                X0 = [1 - y for y in Y0]
            cases.append((sys, entry, p, r, X0, Y0))
    return cases


def ic_check(EoN, cases, report):
    stats = {'ic_cases': 0, 'ic_agree': 0}
    setups = [setup(p, r) for _, _, p, r, _, _ in cases]
    outs = C.run_model([ic_line(sys, p, r, s, X0, Y0) for (sys, _, p, r, X0, Y0), s in zip(cases, setups)], COMP)
    for (sys, entry, p, r, X0, Y0), s, o in zip(cases, setups, outs):
        n = s['n']
        rp = {'kind': 'initial-vector', 'sys': sys, 'entry': entry, 'point': p, 'relabel': r,
              'X0': [str(x) for x in X0], 'Y0': [str(x) for x in Y0]}
        try:
            V0, PV0, V0b = parse_blocks(o)
        except Exception as e:
            report('C14/c14x/driver', 'extracted driver failed: %s' % str(e)[:200], rp, True); continue
        if PV0 != V0b:
            report('C14/c14x/theorem-ic', 'extracted node_V0 of the relabelled problem is not the re-ordered node_V0: contradicts C14x_node_problem_equivariant', rp, True); continue
        PX0 = [X0[s['idx1'][u]] for u in r['nl2']]; PY0 = [Y0[s['idx1'][u]] for u in r['nl2']]
        try:
            a = ic_row0(EoN, entry, s['G1'], s['nodelist1'], X0, Y0)
            b = ic_row0(EoN, entry, s['G2'], s['nodelist2'], PX0, PY0)
        except Exception as e:
            report('C14/%s/raises/labels=%s' % (entry, r['kind']), '%s raises %s: %s' % (entry, type(e).__name__, str(e)[:100]), rp, False); continue
        stats['ic_cases'] += 1
        Pa = perm_py(sys, n, s['idx1'], r['nl2'], a)
        if not vec_close(b, Pa):
            k = next(i for i, (x, y) in enumerate(zip(b, Pa)) if not C.close(x, y, 1e-9))
            report('C14/%s/initial-vector-not-equivariant/labels=%s' % (entry, r['kind']),
                   '%s: row 0 of the full-data output on the relabelled + re-ordered graph (nodelist and X0/Y0 re-ordered accordingly) is not the re-ordered row 0 of the original '
                   '(component %d: %.12g vs %.12g)' % (entry, k, b[k], Pa[k]), dict(rp, relabelled=b[:16], reordered_original=Pa[:16]), False)
            continue
        if not vec_close(a, [float(x) for x in V0]) or not vec_close(b, [float(x) for x in V0b]):
            report('C14/c14x/tie/%s' % entry, 'node_V0 (Proofs/C14xDef.v) and row 0 of %s disagree: correspondence of the initial-vector model broken' % entry,
                   dict(rp, python=a[:16], model=[float(x) for x in V0[:16]]), True)
            continue
        stats['ic_agree'] += 1
    return stats



# ---------------------------------------------------------------- hypotheses of the wrapper / simulator theorems ----
def iso_line(G1, G2, f):
    """G2 = copy of G1 under the label map f; node ids = positions in list(G.nodes()); adjacency = successors in networkx order"""
    ids1 = {u: i for i, u in enumerate(G1.nodes())}
    ids2 = {u: i for i, u in enumerate(G2.nodes())}
    n = len(ids1)
    toks = ['ISO', str(n)]
    for G, ids in ((G1, ids1), (G2, ids2)):
        for a in adj_ids(G, ids):
            toks += [str(len(a))] + [str(x) for x in a]
    by1 = {i: u for u, i in ids1.items()}
    toks += [str(ids2[f[by1[i]]]) for i in range(n)]
    return ' '.join(toks)


def iso_check(rng, n_cases, report):
    """the relabelled + re-ordered copies that the numerical halves of C14 build (harness/c14.py `relabelled`, harness/c14_ode.py
    `variants` / ode_common.build_graph) are instances of the hypotheses of C14x_wrapper_outputs_invariant and of the simulator
    theorems: the extracted iso_okb (C14xIso.iso_okb_spec) must accept them"""
    from . import c14, c14_ode, simrun as R, ode_common as OC
    lines = []; meta = []
    for i in range(n_cases):
        if i % 2 == 0:
            gc = R.gen_graph(rng, nmax=8, nmin=2, kind='perm', directed=(i % 4 == 0))
            G2, f = c14.relabelled(rng, gc, ('perm', 'str', 'tuple')[i % 3])
            lines.append(iso_line(gc.G, G2, f)); meta.append('c14.relabelled')
        else:
            case = OC.gen_case(rng, 'SIS_homogeneous_pairwise_from_graph', False, False)
            vs = c14_ode.variants(rng, case)
            G1, l1 = OC.build_graph(case, perm=vs[0][2], relabel=vs[0][1])
            kind, labels, perm = vs[1 + i % 3]
            G2, l2 = OC.build_graph(case, perm=perm, relabel=labels)
            lines.append(iso_line(G1, G2, dict(zip(l1, l2)))); meta.append('c14_ode.variants/' + kind)
    outs = C.run_model(lines, COMP)
    bad = [(m, l) for m, l, o in zip(meta, lines, outs) if o.strip() != 'OK 1']
    for m, l in bad[:1]:
        report('C14/c14x/iso-hypotheses', 'a relabelled copy built by %s is rejected by the extracted iso_okb: the numerical comparison is outside the hypotheses of the theorems (harness bug)' % m,
               {'kind': 'iso', 'line': l}, True)
    return {'iso_cases': len(lines), 'iso_accepted': len(lines) - len(bad)}

# ---------------------------------------------------------------- entry ----
def part(run, tier, props):
    """called from harness/c14.py; returns a dict for the evidence file"""
    EoN = C.import_eon()
    # Props/C14xg.v is about the definitions GENERATED from the working tree: regenerate first (fail closed)
    regen_err = None
    try:
        L.regen()
    except L.Rhs2Refused as e:
        regen_err = 'translate/rhs2d2v.py refuses the current EoN/analytic.py: %s' % e
    except Exception as e:
        regen_err = 'translate/rhs2d2v.py failed: %s: %s' % (type(e).__name__, str(e)[:300])
    xps = {}
    for name in (PROPS, PROPS_GEN):
        if name == PROPS_GEN and regen_err:
            xp = {'ok': False, 'theorems': [], 'axioms': {}, 'log': regen_err}
        else:
            xp = C.check_props(name)
        xps[name] = xp
        props['theorems'] = list(props['theorems']) + list(xp['theorems'])
        props['axioms'] = dict(props['axioms'], **xp['axioms'])
        if not xp['ok']:
            props['ok'] = False
            props['log'] = (props.get('log') or '') + ' | ' + xp['log'][-400:]
            run.violation('C14/proof/%s' % name, 'Props/%s.v no longer checks: %s' % (name, xp['log'][-400:]),
                          {'broken': 'coq/Props/%s.v' % name, 'log': xp['log']}, no_input=True)
    xp = xps[PROPS]
    ok, log = C.build_driver(COMP)
    if not ok:
        run.violation('C14/build/c14x', 'extracted relabelling action does not build: ' + log[-500:], {'log': log[-3000:]}, no_input=True)
        return {'built': False}
    import random as pyrandom
    rng = pyrandom.Random(run.seed * 7919 + 14)              # own stream: does not disturb the other halves of C14
    found = {}
    def report(key, what, rp, no_input):
        found.setdefault(key, (what, rp, no_input))
    n = 40 if tier == 'quick' else 400
    stats, samples = eqv_check(EoN, eqv_cases(rng, n), report)
    stats.update(ic_check(EoN, ic_cases(rng, 10 if tier == 'quick' else 80), report))
    stats.update(pic_check(EoN, pic_cases(rng, 10 if tier == 'quick' else 80), report))
    stats.update(iso_check(rng, 60 if tier == 'quick' else 600, report))
    for key, (what, rp, no_input) in sorted(found.items()):
        if isinstance(rp, dict) and rp.get('kind') in KINDS:
            rp = dict(rp, replay_cmd='cd /verif && [EON_REPO=...] /venv/bin/python -m harness.c14x <this file>   (harness/c14.py replay() dispatches only its own kinds)')
        run.violation(key, what, rp, no_input=no_input)
    return {'built': True, 'stats': stats, 'samples': samples, 'rhs2_regeneration': regen_err or 'ok',
            'props': {k: {'ok': v['ok'], 'theorems': v['theorems']} for k, v in xps.items()}}


KINDS = ('rhs-equivariance', 'initial-vector', 'pure-ic')


def replay(rp):
    """re-execute one recorded case of this module against C.REPO; 1 if it still fails"""
    EoN = C.import_eon()
    C.build_driver(COMP)
    j = rp['replay']
    bad = []
    rep = lambda key, what, r, no_input: bad.append((key, what))
    k = j.get('kind')
    if k == 'rhs-equivariance':
        eqv_check(EoN, [(j['point'], j['relabel'])], rep)
    elif k == 'initial-vector':
        ic_check(EoN, [(j['sys'], j['entry'], j['point'], j['relabel'], [F(x) for x in j['X0']], [F(x) for x in j['Y0']])], rep)
    elif k == 'pure-ic':
        pic_check(EoN, [(j['sys'], j['entry'], j['point'], j['relabel'], j['I0'], j['R0'])], rep)
    else:
        print('not a c14x replay; use ./check replay'); return 2
    for key, w in bad: print(key, '|', w)
    print('still fails' if bad else 'passes now')
    return 1 if bad else 0


if __name__ == '__main__':
    import sys, json
    sys.exit(replay(json.load(open(sys.argv[1]))))
