"""C09: recorded transmissions are causally valid and complete.
Theorems: coq/Props/C09.v (Gillespie_SIR/SIS: the event log, the transmission list, the
rows and the per-node histories of every full-data run are views of one sequence of
enabled events; SIR forest).  Tie: Gillespie model/implementation correspondence on full
data.  Failing-input search: the Python oracle xcut.valid_transmissions on the full-data
output of every simulator that offers it."""
import random as pyrandom
from . import common as C
from . import simrun as R
from . import xcut as X

CLAIM_MORE = 'ALSO proved with sound extracted checkers applied to implementation outputs: fast_SIS / fast_nonMarkov_SIS (C09esis.v), the discrete-time simulators (C09disc.v: lock-step theorem, forest, dtx_okb) and Gillespie_simple_contagion (C09gen.v: entries are the induced events, the source had the inducing status).'

CLAIM = dict(
    text="Machine-checked theorems (coq/Props/C09.v, closed under the global context) for Gillespie_SIR/SIS, every graph and every run: transmissions() is the source-less entries of the "
         "initially infected nodes followed by exactly one entry per infection event (same time, same target), in time order; replaying the event log, every entry goes along an edge "
         "from a node infectious at that moment to a node susceptible at that moment (executable checker valid_logb = true), every source was infectious initially or as the target of an "
         "earlier entry, in SIR nobody is infected twice (forest rooted at the initial nodes), and rows/histories are projections of the same log. "
         "The same is proved for the event-driven fast_nonMarkov_SIR / fast_SIR loop for every tie policy (coq/Props/C09esir.v: edge, source infectious on the closed "
         "interval up to its recovery, target susceptible just before, one entry per infection, source-less entries = the initial nodes at tmin, forest) with an extracted checker tx_validb "
         "(proved sound, accepted on every model run) applied to the implementation's own transmissions(). "
         "For ALL simulators offering full data (Gillespie_*, fast_*, fast_nonMarkov_*, discrete_SIR, basic_discrete_SIR/SIS, percolation_based_discrete_SIR, "
         "Gillespie_simple_contagion incl. directed graphs) a Python oracle checks every clause of the property on the returned object.",
    design='DESIGN.md section 4, C09',
    technique='Coq proof (lock-step invariant of event log / transmission list / rows over the event loop; forest lemmas) + correspondence + all-simulator transmission oracle',
    note="Simulator by simulator (evidence lists which are proved). With user rules a transmission at exactly the source's recovery time counts as valid (DESIGN C09).")

CODE = {'S': 0, 'I': 1, 'R': 2}


def adj_of(gc):
    G = gc.G
    return {gc.idmap[u]: {gc.idmap[v] for v in G.neighbors(u)} for u in gc.order}


def sim_cases(EoN, rng, name, n, stats):
    import numpy as np, networkx as nx
    found = {}
    for i in range(n):
        directed = (name == 'simple_SIR_directed')
        gc = R.gen_graph(rng, nmax=9, nmin=2, directed=directed, ewl=rng.choice([None, 'tw']) if 'fast' in name or 'Gillespie_S' in name else None,
                         nwl=None, zero_w=False)
        G = gc.G
        if i % 4 == 3 and not name.startswith('simple') and 'discrete' not in name:
            # self-loops are legal networkx input (configuration_model produces them) and the simulators have code for them
            for u in rng.sample(gc.order, min(2, len(gc.order))):
                G.add_edge(u, u)
                if gc.ewl: G.adj[u][u][gc.ewl] = 1.0
            stats['selfloop_cases'] = stats.get('selfloop_cases', 0) + 1
        sel = rng.sample(gc.order, rng.randint(1, min(2, len(gc.order))))
        tmin = rng.choice([0, 1.5, -2])
        seed = rng.randrange(10 ** 6); pyrandom.seed(seed); np.random.seed(seed)
        sir = True; discrete = False; tmax = tmin + rng.choice([2.0, 4.0])
        try:
            if name == 'Gillespie_SIR': inv = EoN.Gillespie_SIR(G, 1.0, 1.0, initial_infecteds=sel, tmin=tmin, tmax=tmax, transmission_weight=gc.ewl, return_full_data=True)
            elif name == 'Gillespie_SIS': inv = EoN.Gillespie_SIS(G, 1.0, 1.0, initial_infecteds=sel, tmin=tmin, tmax=tmax, transmission_weight=gc.ewl, return_full_data=True); sir = False
            elif name == 'fast_SIR': inv = EoN.fast_SIR(G, 1.0, 1.0, initial_infecteds=sel, tmin=tmin, tmax=tmax, transmission_weight=gc.ewl, return_full_data=True)
            elif name == 'fast_SIS': inv = EoN.fast_SIS(G, 1.0, 1.0, initial_infecteds=sel, tmin=tmin, tmax=tmax, transmission_weight=gc.ewl, return_full_data=True); sir = False
            elif name == 'fast_nonMarkov_SIR':
                inv = EoN.fast_nonMarkov_SIR(G, trans_time_fxn=lambda u, v: pyrandom.choice([0.25, 0.5, 1.0, 2.0]), rec_time_fxn=lambda u: pyrandom.choice([0.5, 1.0, 1.5]),
                                             initial_infecteds=sel, tmin=tmin, tmax=tmax, return_full_data=True)
            elif name == 'fast_nonMarkov_SIS':   # documented contract of trans_time_fxn: all delays are before recovery
                inv = EoN.fast_nonMarkov_SIS(G, trans_time_fxn=lambda u, v, d: [x for x in sorted(pyrandom.sample([0.3, 0.7, 1.1, 1.9], 2)) if x <= d], rec_time_fxn=lambda u: pyrandom.choice([0.8, 1.3]),
                                             initial_infecteds=sel, tmin=tmin, tmax=tmax, return_full_data=True); sir = False
            elif name == 'discrete_SIR': inv = EoN.discrete_SIR(G, args=(0.6,), initial_infecteds=sel, tmin=tmin, tmax=tmin + 5, return_full_data=True); discrete = True
            elif name == 'basic_discrete_SIR': inv = EoN.basic_discrete_SIR(G, 0.6, initial_infecteds=sel, tmin=tmin, tmax=tmin + 5, return_full_data=True); discrete = True
            elif name == 'basic_discrete_SIS': inv = EoN.basic_discrete_SIS(G, 0.6, initial_infecteds=sel, tmin=tmin, tmax=tmin + 5, return_full_data=True); discrete = True; sir = False
            elif name == 'percolation_based_discrete_SIR': inv = EoN.percolation_based_discrete_SIR(G, 0.6, initial_infecteds=sel, tmin=tmin, tmax=tmin + 5, return_full_data=True); discrete = True
            elif name.startswith('simple_SIR'):
                H = nx.DiGraph(); H.add_edge('I', 'R', rate=1.0)
                J = nx.DiGraph(); J.add_edge(('I', 'S'), ('I', 'I'), rate=1.0)
                IC = {u: 'S' for u in gc.order}
                for u in sel: IC[u] = 'I'
                inv = EoN.Gillespie_simple_contagion(G, H, J, IC, ('S', 'I', 'R'), tmin=tmin, tmax=tmax, return_full_data=True)
            else:
                raise KeyError(name)
        except Exception as e:
            key = '%s/crash' % name
            found.setdefault(key, (key, '%s(return_full_data=True) raised %s: %s' % (name, type(e).__name__, str(e)[:100]), {'sim': name, 'graph': gc.to_json(), 'seed': seed}))
            continue
        hist, trans = R.canon_full(inv, gc, CODE)
        I0 = {gc.idmap[u] for u in sel}
        if name.startswith('simple_SIR'):
            # the generic simulator records no source-less entries for the initial condition
            d = X.valid_transmissions(trans, hist, adj_of(gc), I0, tmin, sir=True, discrete=False) if not isinstance(trans, str) else trans
        else:
            d = X.valid_transmissions(trans, hist, adj_of(gc), I0, tmin, sir=sir, discrete=discrete)   # discrete: entries carry the contact step; the initial ones are at tmin-1
        stats['cases_' + name] = stats.get('cases_' + name, 0) + 1
        if not isinstance(trans, str): stats['entries'] = stats.get('entries', 0) + len(trans)
        if d:
            key = '%s/%s' % (name, d.split(':')[0].split(' ')[0] if d.startswith('entry') else 'transmissions')
            found.setdefault(key, (key, '%s: %s' % (name, d), {'sim': name, 'graph': gc.to_json(), 'i0': [repr(u) for u in sel], 'tmin': tmin, 'seed': seed}))
        else:
            stats['ok'] = stats.get('ok', 0) + 1
        # the transmission tree
        try:
            T = inv.transmission_tree()
            want = sorted((gc.idmap[s], gc.idmap[g]) for t, s, g in inv.transmissions() if s is not None)
            got = sorted((gc.idmap[a], gc.idmap[b]) for a, b in T.edges())
            if want != got:
                key = '%s/transmission_tree' % name
                found.setdefault(key, (key, '%s: transmission_tree() edges %r differ from the sourced transmissions %r' % (name, got[:6], want[:6]), {'sim': name, 'graph': gc.to_json(), 'seed': seed}))
        except Exception as e:
            key = '%s/transmission_tree' % name
            found.setdefault(key, (key, '%s: transmission_tree() raised %s' % (name, type(e).__name__), {'sim': name, 'graph': gc.to_json(), 'seed': seed}))
    return found


ALL = ['Gillespie_SIR', 'Gillespie_SIS', 'fast_SIR', 'fast_SIS', 'fast_nonMarkov_SIR', 'fast_nonMarkov_SIS', 'discrete_SIR', 'basic_discrete_SIR',
       'basic_discrete_SIS', 'percolation_based_discrete_SIR', 'simple_SIR', 'simple_SIR_directed']


def run(run, tier):
    EoN = C.import_eon()
    import EoN.simulation as sim
    from . import gil_lib as GL
    from . import sim_check as SC
    props = C.check_props('C09')
    ok, log = C.build_driver(GL.COMP)
    if not ok:
        run.violation('C09/build', 'extracted model does not build: ' + log[-500:], {'log': log[-3000:]}, no_input=True)
        C.proof_coverage(run, props, 1, 0, 'build failed', [log[-300:]]); return
    rng = run.rng; stats = {}; per = {}
    total = SC.Result()

    def gil_oracle(case, impl, m):
        if impl['status'] != 'OK' or 'hist' not in impl or case['i0'] is None: return []
        gc = case['gc']
        d = X.valid_transmissions(impl['trans'], impl['hist'], adj_of(gc), {gc.idmap[u] for u in case['i0']}, case['tmin'], sir=case['kind'] == 'SIR')
        return [('transmissions', d)] if d else []
    for kind in ('SIR', 'SIS'):
        res = SC.Result()
        n = 800 if tier == 'quick' else 12000
        cases = [dict(GL.gen_case(rng, kind, nmax=8), full=True) for i in range(n)]
        SC.run_cases(GL, EoN, sim, cases, ['W ' + R.ent_tokens(rng) for _ in cases], gil_oracle,
                     lambda case, m, impl: m['status'] == 'OK' and len(m.get('trans', [])) > len(case['i0'] or []), res, 'Gillespie_' + kind)
        SC.report(run, 'C09', 'Gillespie_' + kind, res, 'Model/Gillespie.v', 'Props/C09.v')
        per['Gillespie_' + kind] = {'proved': True, 'cases': res.n, 'mismatches': len(res.mism), 'oracle_failures': len(res.oracle_bad)}
        total.n += res.n; total.nontrivial += res.nontrivial; total.distinct |= res.distinct; total.samples += res.samples[:1]
    nper = 50 if tier == 'quick' else 1500
    for name in ALL:
        found = sim_cases(EoN, rng, name, nper, stats)
        total.n += nper; total.nontrivial += stats.get('cases_' + name, 0); total.distinct |= {(name, i) for i in range(stats.get('cases_' + name, 0))}
        for key, (k, what, rp) in sorted(found.items()):
            run.violation('C09/' + k, what, dict(rp, kind='all-simulator-oracle'))
    from . import xsim
    xsim.run_others(run, 'C09', EoN, sim, tier, per, total, 'valid_transmissions')
    from . import esirx
    esirx.part(run, tier, 'C09', props, per)
    C.extra_props(run, 'C09', props, ['C09esis'])
    from . import discx; discx.part(run, tier, 'C09', props, per)
    from . import genx; genx.part(run, tier, 'C09', props, per)
    if not props['ok']:
        run.violation('C09/proof', 'Props/C09.v no longer checks: %s' % props['log'][-400:], {'broken': 'coq/Props/C09.v', 'log': props['log']}, no_input=True)
    C.proof_coverage(run, props, total.n, min(len(total.distinct), total.nontrivial),
                     'Gillespie_SIR/SIS: model-chosen scripts, full data, random graphs <=8 nodes; all %d full-data simulators: %d runs each with real random (seeded), graphs <=9 nodes (directed for the generic simulator), '
                     'exotic labels, tmin in {0,1.5,-2}: every entry of transmissions() checked (time order, edge direction, source infectious, target susceptible and changing at t (t+1 discrete), one entry per infection, '
                     'source-less only for initial nodes, SIR forest, transmission_tree edges). Non-trivial = run with at least one sourced entry (Gillespie) / run completed (others).' % (len(ALL), nper),
                     total.samples, {'simulators': per, 'distribution': stats})


def replay(rp):
    if rp['replay'].get('genx'):
        from . import genx
        return genx.replay(rp)
    if rp['replay'].get('discx'):
        from . import discx
        return discx.replay(rp)
    if rp['replay'].get('checker'):
        from . import esirx
        return esirx.replay(rp)
    j = rp['replay']
    if j.get('lib'):
        from . import gil_lib as GL
        return GL.replay(rp)
    print('all-simulator oracle case:', {k: v for k, v in j.items() if k != 'graph'}); print('re-run ./check C09'); return 2
