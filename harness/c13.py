"""C13: fast_nonMarkov_SIS follows the plain agenda semantics (ref_sis).
Theorems: coq/Props/C13.v over Model/EventSIS.v (the queue model written as the code is
and the one-agenda reference semantics).  Tie: the extracted model against the working
tree on deterministic rule tables (closures counting calls per node = infection ordinal),
interleavings enumerated by permuting a fixed set of distinct times on small graphs, random
graphs up to 8 nodes, both return modes and both user-function APIs.  Failing-input search:
an independent Python agenda simulator (esis_lib.ref_sis) evaluated on the implementation's
outputs; the extracted Coq reference [ref_sis] is cross-checked against it as well."""
import itertools, json
from fractions import Fraction as F
from . import common as C
from . import simrun as R
from . import sim_check as SC
from . import esis_lib as L

CLAIM_MORE = "ALSO (coq/Props/C13x.v): the refinement is unconditional on two decidable domains with an explicit fuel computed from the inputs — (A) finite tmax and durations >= delta > 0, (B) finite rule tables with any tmax incl. infinity — and fast_nonMarkov_SIS terminates within that fuel there; a budget oracle on the implementation's queue events turns a loop that runs on into a violation instead of a hang."

CLAIM = dict(
    text="Machine-checked theorems (coq/Props/C13.v) over an executable model of fast_nonMarkov_SIS written as the code is (myQueue ordered by "
         "(time, counter) dropping times >= tmax, stored tails of delay lists, the two pruning sites status[v]=='I' / time > rec_time[target], "
         "user rules indexed by infection ordinal) and the one-agenda reference semantics ref_sis. Tie: extracted model vs the working tree on "
         "deterministic rule tables, enumerated interleavings on small graphs + random graphs, both return modes; independent Python agenda oracle.",
    design='DESIGN.md section 4, C13 and Appendix A.2',
    technique='Coq proof (simulation relation queue <-> agenda) + extracted-model/implementation correspondence + independent agenda oracle',
    note="Hypotheses of the theorems (and domain of the generator): delay lists ascending, all pending event times distinct and strictly in the future, "
         "tmin < tmax. Equality in law with fast_SIS under exponential rules is cited, not proved.")

ENTRY = 'fast_nonMarkov_SIS'
TIMES = [F(x, 64) for x in (37, 53, 71, 89, 101, 127, 149, 163, 181, 199, 211, 229, 241, 263, 277, 293, 311, 331)]


def small_case(edges, n, i0, durs, dels, tmax, full, api, labels=None):
    labels = labels or [('t', 5, 0), 'vb', 14, ('m', 3)][:n]
    gc = R.graph_from_edges(n, edges, labels)
    inv = gc.order
    return {'kind': ENTRY, 'gc': gc, 'full': full, 'tmin': F(0), 'tmax': tmax, 'rho': None, 'i0_form': 'list',
            'i0': [labels[i] for i in i0], 'api': api,
            'durs': {labels[u]: d for u, d in durs.items()},
            'dels': {(labels[u], labels[v]): l for (u, v), l in dels.items()}}


def slots_of(edges, n, nd, nl, ll):
    """slot layout: nd duration ordinals per node; per directed edge nl lists of length ll"""
    dirs = sorted(set([(a, b) for a, b in edges] + [(b, a) for a, b in edges]))
    return [('d', u, k) for u in range(n) for k in range(nd)] + [('l', e, k, j) for e in dirs for k in range(nl) for j in range(ll)], dirs


def assign(edges, n, nd, nl, ll, values):
    slots, dirs = slots_of(edges, n, nd, nl, ll)
    durs = {u: [None] * nd for u in range(n)}
    dels = {e: [[None] * ll for _ in range(nl)] for e in dirs}
    for s, v in zip(slots, values):
        if s[0] == 'd': durs[s[1]][s[2]] = v
        else: dels[s[1]][s[2]][s[3]] = v
    canon = True
    for e in dirs:
        for l in dels[e]:
            if l != sorted(l): canon = False
    return durs, dels, canon


def enum_cases(rng, tier):
    """interleavings by permuting a fixed set of distinct times over the rule tables"""
    out = []
    # 2 nodes, one edge: every permutation (ascending lists only)
    cfgs = [([(0, 1)], 2, 1, 1, 2), ([(0, 1)], 2, 2, 1, 2)] if tier != 'quick' else [([(0, 1)], 2, 1, 1, 2), ([(0, 1)], 2, 1, 2, 1), ([(0, 1)], 2, 2, 1, 1)]
    for edges, n, nd, nl, ll in cfgs:
        slots, _ = slots_of(edges, n, nd, nl, ll)
        vals = TIMES[:len(slots)]
        for perm in itertools.permutations(vals):
            durs, dels, canon = assign(edges, n, nd, nl, ll, perm)
            if not canon: continue
            for i0 in ([0], [0, 1]):
                out.append(small_case(edges, n, i0, durs, dels, F(rng.choice([9, 13, 17]), 4), rng.random() < .5, rng.choice(['separate', 'joint'])))
    # 3 and 4 nodes: sampled permutations
    graphs3 = [e for e in R.all_graphs(3) if e]
    graphs4 = [e for e in R.all_graphs(4) if len(e) >= 2]
    k3 = 3000 if tier == 'quick' else 20000
    k4 = 1500 if tier == 'quick' else 12000
    for graphs, n, cnt in ((graphs3, 3, k3), (graphs4, 4, k4)):
        for _ in range(cnt):
            edges = rng.choice(graphs)
            nd, nl, ll = rng.choice([(1, 1, 1), (1, 1, 2), (2, 1, 1), (2, 2, 1), (1, 2, 2)])
            slots, _ = slots_of(edges, n, nd, nl, ll)
            pool = TIMES if len(slots) <= len(TIMES) else TIMES + [t + F(2 * j + 1, 512) for j in range(1, 4) for t in TIMES]
            vals = rng.sample(pool, len(slots))
            durs, dels, _ = assign(edges, n, nd, nl, ll, vals)
            for e in dels:
                dels[e] = [sorted(l) for l in dels[e]]
            i0 = rng.sample(range(n), rng.randint(1, 2))
            out.append(small_case(edges, n, i0, durs, dels, F(rng.choice([7, 10, 14, 19]), 4), rng.random() < .5, rng.choice(['separate', 'joint'])))
    return out


def nontrivial(case, m, impl):
    return m['status'] == 'OK' and 'rows' in m and len(m['rows']) >= 4


def cross_check_coq_ref(run, cases, res):
    """the extracted Coq reference [ref_sis] (the L0 object of the theorems) against the
    independent Python agenda oracle, on the same tables"""
    sel = [c for c in cases if c['i0'] is not None and c['rho'] is None]
    lines = [L.ref_line(c) for c in sel]
    outs = C.run_model(lines, L.COMP)
    n = 0; clean = 0; diff = []
    for c, o in zip(sel, outs):
        m = R.parse_model_line(o)
        i0 = [c['gc'].idmap[u] for u in c['i0']]
        ref = L.ref_sis(c, i0)
        if ref['unfinished']: continue
        if m['status'] != 'OK':
            if m.get('err') == 'OutOfFuel': continue
            diff.append(('Coq ref_sis: %s' % (m.get('err') or m.get('raw')), c)); continue
        n += 1
        ok = m['extra'].get('REFOK') == ['1']
        if ok != (not ref['ties']):
            diff.append(('Coq ref_sis domain flag %s, Python oracle ties=%s' % (ok, ref['ties']), c)); continue
        if ref['ties']: continue
        clean += 1
        rows, hist = L.expected_outputs(c, ref['events'], len(i0))
        d = R.rows_equal([(float(t), x) for t, x in rows], m['rows'])
        if not d and 'hist' in m:
            d = R.hist_equal({k: [(float(t), s) for t, s in h] for k, h in hist.items()}, m['hist']) or \
                R.trans_equal([(float(t), s, g) for t, s, g in ref['trans']], m['trans'])
        if d: diff.append((d, c))
    res.stat('coq_ref_checked', n); res.stat('coq_ref_tie_free', clean)
    if diff:
        what, c = diff[0]
        run.violation('C13/ref_sis/coq-vs-python', 'the Coq reference semantics ref_sis and the independent Python agenda oracle disagree (%d cases): %s' % (len(diff), what),
                      dict(L.case_json(c), entry=ENTRY, what=what, lib=True, broken='Coq ref_sis vs Python ref_sis'), no_input=True)


def run(run, tier):
    EoN = C.import_eon()
    import EoN.simulation as sim
    rng = run.rng
    props = C.check_props('C13')
    C.extra_props(run, 'C13', props, ['C13x'])
    ok, log = C.build_driver(L.COMP)
    if not ok:
        run.violation('C13/build', 'extracted model does not build: ' + log[-500:], {'log': log[-3000:]}, no_input=True)
        C.proof_coverage(run, props, 1, 0, 'build failed', [log[-300:]]); return
    # budget oracle first (queue events counted against the proven fuel nm_fuel): a change that makes the event loop run on
    # is reported here instead of hanging the correspondence below
    from . import c13x
    perx = c13x.part(run, tier, None, {})
    if perx.get('over_budget'):
        C.proof_coverage(run, props, perx['A_cases'] + perx['B_cases'], 0, 'budget oracle failed; correspondence not run', [], {'c13x': perx}); return
    res = SC.Result()
    judged = {'n': 0}
    def oracle(case, impl, m):
        if impl['status'] == 'OK' and case['i0'] is not None and case['rho'] is None:
            r = L.ref_sis(case, [case['gc'].idmap[u] for u in case['i0']])
            if not r['ties'] and not r['unfinished']:
                judged['n'] += 1; res.stat('tie_free')
                res.stat('ref_events', len(r['events']))
                res.stat('reinfections', sum(1 for i, e in enumerate(r['events']) if e[2] == 1 and any(x[1] == e[1] and x[2] == 1 for x in r['events'][:i])))
            else:
                res.stat('with_ties_not_judged')
        return L.oracle_ref(case, impl, m)
    corpus = [L.case_from_json(j) for j in C.load_corpus('C13')]
    if corpus:
        SC.run_cases(L, EoN, sim, corpus, ['D 0'] * len(corpus), oracle=oracle, nontrivial=nontrivial, res=res, label='corpus')
    enum = enum_cases(rng, tier)
    SC.run_cases(L, EoN, sim, enum, ['D 0'] * len(enum), oracle=oracle, nontrivial=nontrivial, res=res, label='enumerated')
    nrand = 4000 if tier == 'quick' else 40000
    rnd = [L.gen_case(rng, ENTRY, nmax=8, malformed=(i % 40 == 0)) for i in range(nrand)]
    # an event at exactly t = 0.0 (a falsy time): every 10th case starts at minus the first duration of its first initial node, so that
    # node's first recovery lands on 0; full data, where the node histories are assembled from the lists of times
    for i, c in enumerate(rnd):
        if i % 10 == 3 and c.get('i0') and c.get('rho') is None and c.get('durs') and c['i0'][0] in c['durs']:
            shift = c['tmax'] - c['tmin']
            c['tmin'] = -c['durs'][c['i0'][0]][0]; c['tmax'] = c['tmin'] + shift; c['full'] = True
            res.stat('event_at_time_zero_cases')
    SC.run_cases(L, EoN, sim, rnd, ['W ' + R.ent_tokens(rng, 8) for _ in rnd], oracle=oracle, nontrivial=nontrivial, res=res, label='random')
    cross_check_coq_ref(run, enum[::3] + rnd[::2], res)
    SC.report(run, 'C13', ENTRY, res, 'Model/EventSIS.v', 'Props/C13.v')
    if not props['ok']:
        run.violation('C13/proof', 'Props/C13.v no longer checks: %s' % props['log'][-400:], {'broken': 'coq/Props/C13.v', 'log': props['log']}, no_input=True)
    C.proof_coverage(run, props, res.n, min(len(res.distinct), res.nontrivial),
                     'fast_nonMarkov_SIS on deterministic rule tables (closures counting calls per node = infection ordinal; separate and joint user-function API; both return modes; exotic node labels). '
                     'Enumerated: every assignment of a fixed set of distinct dyadic times to the durations and (ascending) delay lists of the one-edge graph, sampled assignments on all graphs with 3 and 4 nodes; '
                     'random: graphs <= 8 nodes, random distinct dyadic tables (3 ordinals, lists of 0-3 delays), rho/initial-node forms, a malformed stream (rho + initial nodes). '
                     'Every case: trace + arrays + histories + transmissions compared with the extracted model (ties included: the model fixes the heap order); cases without ties are judged by the independent Python agenda oracle ref_sis; '
                     'the extracted Coq ref_sis is cross-checked against that oracle. Non-trivial = at least 3 events after tmin; distinct = distinct model input lines.',
                     res.samples, {'distribution': res.stats, 'mismatches': len(res.mism), 'oracle_failures': len(res.oracle_bad),
                                   'judged_by_agenda_oracle': judged['n'], 'c13x': perx})
    run.assumptions += ['heapq on (time, counter, ...) tuples pops the least (time, counter) (specification of heapq, not verified)',
                        'equality in law of fast_nonMarkov_SIS under exponential rules with fast_SIS is cited (memorylessness), not proved']


def replay(rp):
    EoN = C.import_eon()
    import EoN.simulation as sim
    r = rp['replay']
    case = L.case_from_json(r)
    draws = [F(x) for x in r.get('draws', [])]
    impl = L.run_impl(EoN, sim, case, draws)
    m = {'draws': draws}
    bad = L.oracle(case, impl, m)
    print('case:', json.dumps({k: v for k, v in r.items() if k not in ('graph',)})[:600])
    print('implementation:', impl['status'], impl.get('err', ''), 'rows', str(impl.get('rows'))[:300])
    print('oracle verdict:', bad or 'holds')
    if not bad and rp.get('no_failing_input_found'):
        ok, log = C.build_driver(L.COMP)
        out = C.run_model([L.model_line(case, 'D %d %s' % (len(draws), R.qtoks(draws)))], L.COMP)[0]
        d = L.compare(case, R.parse_model_line(out), impl)
        print('correspondence:', d or 'agrees')
        return 1 if d else 0
    return 1 if bad else 0
