"""C10: Simulation_Investigation's summary / S,I,R,t / node_status /
get_statuses describe the node histories they are built from, and the object returned with
return_full_data=True describes the same epidemic as the arrays returned without it.
Theorems: coq/Props/C10.v over Model/Investigation.v.  Tie: (a) the class itself is driven with
random legal node histories and compared with the extracted model query by query; (b) the real
simulators Gillespie_SIR/SIS, fast_SIR/SIS are run in both return modes from identical seeds and
the extracted checker `consistent` (Props/C10.v) is applied to their outputs.  Failing-input
search: pure-Python oracles of harness/c10_lib.py (latest change <= t; counts of nodes).
The per-simulator models (outputs_from_one_log) are added by the coordinator."""
import json, random as pyrandom
from fractions import Fraction as F
from . import common as C
from . import c10_lib as L

CLAIM_MORE = 'ALSO proved: fast_SIS / fast_nonMarkov_SIS (C10esis.v), the discrete-time simulators (C10disc.v: summary() equals the arrays as a step function; both modes equal under table rules), simple and complex contagion (C10gen.v: summary = arrays, flag independence).'

CLAIM = dict(
    text="Machine-checked theorems (coq/Props/C10.v, closed under the global context): for Gillespie_SIR/SIS, every graph and every full-data run, the per-node histories are the projections of ONE event log and "
         "the arrays its running counts, hence summary(histories) = arrays whenever event times are strictly increasing (C10_gillespie_summary_equals_arrays; with C18's flag independence these are the plain-mode arrays); "
         "the same for the event-driven fast_nonMarkov_SIR / fast_SIR loop (coq/Props/C10esir.v: histories = per-node transforms of one event log, arrays = its running counts, summary = arrays "
         "with strict times and, with ties, the last array row per distinct time; consistent_b accepts every model run); "
         "and over an executable model of Simulation_Investigation "
         "(summary with its delta tables, sorted distinct times, running sums and the 'not in delta' skip; node_status/get_statuses; S/I/R/t; "
         "_transform_to_node_history_ for SIR and SIS): for ALL histories that start at tmin, are time-ordered and use possible statuses, "
         "summary at each listed time = number of listed nodes whose node_status is s (whole node set or any list of nodes); node_status = status of "
         "the latest change <= t; generic log lemma (arrays = running counts of an event log, histories = its projections => summary = arrays); "
         "a decidable checker `consistent` proved sound. Tie: the class in /repo vs the extracted model on random legal histories (int/str/tuple labels, "
         "string statuses, subsets, all query times), and the checker + an independent Python oracle applied to the outputs of Gillespie_SIR/SIS and "
         "fast_SIR/SIS run in both return modes from identical seeds.",
    design='DESIGN.md section 4, C10 (generic part: (i)-(iii) and the checker)',
    technique='Coq proof over hand-written model + extracted-model/implementation correspondence + extracted checker on implementation outputs',
    note="Per-simulator theorem delivered for Gillespie_SIR/SIS; the event-driven simulators are covered by their own theorems (C11 arrays/transmissions read off the final state, C02fast/C13 logs) and by the "
         "scripted both-modes comparison here. Discrete-time simulators draw extra random numbers with full data and are compared only under deterministic rules.")

SCHEMES = ['int', 'int5', 'str', 'tup']
MODELS = {
    'SIR': (['S', 'I', 'R'], [('S', 'I'), ('I', 'R')]),
    'SIS': (['S', 'I'], [('S', 'I'), ('I', 'S')]),
    'SIRS': (['S', 'I', 'R'], [('S', 'I'), ('I', 'R'), ('R', 'S')]),
    'SEIR': (['S', 'E', 'I', 'R'], [('S', 'E'), ('E', 'I'), ('I', 'R')]),
    'XY': (['Y', 'X', 'Sus'], [('X', 'Y'), ('Y', 'Sus'), ('Sus', 'X'), ('X', 'Sus')]),
}


def labels_of(scheme, perm):
    if scheme == 'int': return list(perm)
    if scheme == 'int5': return [p + 5 for p in perm]
    if scheme == 'str': return ['v%d' % p for p in perm]
    return [(p // 3, p % 3) for p in perm]


# ------------------------------------------------------------------ (a) the class itself
def gen_obj(rng):
    n = rng.randint(1, 8)
    perm = list(range(n)); rng.shuffle(perm)
    scheme = rng.choice(SCHEMES)
    mname = rng.choice(list(MODELS))
    ps, moves = MODELS[mname]
    tmin = rng.choice([F(0), F(0), F(1, 2), F(-1), F(3)])
    grid = [F(k, 4) for k in range(1, 9)]
    hist = []
    for i in range(n):
        s = rng.choice(ps); t = tmin
        times = [str(t)]; stats = [s]
        for _ in range(rng.choice([0, 1, 1, 2, 3, 4])):
            nxt = [b for a, b in moves if a == s]
            if not nxt: break
            s = rng.choice(nxt)
            t = t + (F(0) if rng.random() < 0.05 else rng.choice(grid))
            times.append(str(t)); stats.append(s)
        hist.append([times, stats])
    case = dict(kind='obj', scheme=scheme, perm=perm, model=mname, tmin=str(tmin), hist=hist, ps=list(ps), default=False, malformed=None)
    r = rng.random()
    if r < 0.06:
        case['malformed'] = 'ps-lacks-status'; case['ps'] = [s for s in ps if s != rng.choice(ps)]
    elif r < 0.2:
        case['default'] = True                       # a defaultdict like the simulators pass: absent nodes are ([tmin],['S'])
        if 'S' in ps and n > 1:
            case['absent'] = sorted(rng.sample(range(n), rng.randint(1, n - 1)))
    if case['malformed'] is None and rng.random() < 0.15:
        case['ps_given'] = False                     # possible_statuses=None: defaults to the statuses occurring in node_history
    # queries
    alltimes = sorted({F(t) for h in hist for t in h[0]})
    qt = set(alltimes) | {(a + b) / 2 for a, b in zip(alltimes, alltimes[1:])} | {tmin, alltimes[-1] + 1, alltimes[-1] + F(7, 2)}
    case['times'] = [str(t) for t in sorted(qt)]
    subs = []
    for _ in range(2):
        k = rng.randint(1, n)
        sub = [rng.randrange(n) for _ in range(k)] if rng.random() < 0.15 else rng.sample(range(n), k)
        subs.append(sub)
    case['subsets'] = subs
    if rng.random() < 0.08:
        case['before_tmin'] = str(tmin - F(1, 2))
    return case


def run_obj(EoN, nx, case):
    """drive the class; returns (model lines, implementation answers, oracle complaints)"""
    n = len(case['perm'])
    labels = labels_of(case['scheme'], case['perm'])
    tmin = F(case['tmin'])
    absent = set(case.get('absent', []))
    from collections import defaultdict
    if case['default']:
        nh = defaultdict(lambda: ([float(tmin)], ['S']))
    else:
        nh = {}
    for i, (times, stats) in enumerate(case['hist']):
        if i in absent: continue
        nh[labels[i]] = ([float(F(t)) for t in times], list(stats))
    G = nx.Graph(); G.add_nodes_from(labels)
    lab = L.Labels(labels); table = dict(L.STATUS_ID)
    hist_tok = {u: ([F(x) for x in h[0]], h[1]) for u, h in nh.items()}
    default = ([tmin], ['S']) if case['default'] else None
    given = case.get('ps_given', True)
    # not given: the statuses occurring in the recorded histories (model: order of first appearance; the code's order is
    # unspecified, so every comparison below is made per status)
    ps_eff = list(case['ps']) if given else list(dict.fromkeys(s for u, h in nh.items() for s in h[1]))
    obj = L.inv_tokens(lab, labels, hist_tok, default, case['ps'] if given else None, table)
    inv_table = lambda: {v: k for k, v in table.items()}
    # the effective histories (what the documentation calls the node's history)
    eff = {}
    for i, (times, stats) in enumerate(case['hist']):
        eff[labels[i]] = ([F(tmin)], ['S']) if i in absent else ([F(t) for t in times], list(stats))
    lines = []; impl = []; oracle = []
    # the oracle applies when every node's (effective) history uses possible statuses only
    wellformed = case['malformed'] is None and all(s in ps_eff for h in eff.values() for s in h[1])
    try:
        sim = EoN.Simulation_Investigation(G, nh, [], possible_statuses=case['ps'] if given else None)
    except Exception as e:
        lines.append('SUM %s 0' % obj); impl.append(('ERR', type(e).__name__)); oracle.append(None)
        if not given:
            # documented: "If not given, then defaults to the values in node_history"
            oracle[-1] = ('Simulation_Investigation.__init__/possible_statuses-None',
                          'Simulation_Investigation(G, node_history) without possible_statuses raises %s; documented: defaults to the statuses in node_history' % type(e).__name__)
        elif wellformed:
            oracle[-1] = ('Simulation_Investigation.__init__', 'constructor raised %s on legal histories' % type(e).__name__)
        return lines, impl, oracle
    ps = ps_eff
    # the possible statuses themselves (as a set)
    try:
        r = ('OK', sorted(L.status_id(x, table) for x in sim._possible_statuses_))
    except Exception as e:
        r = ('ERR', type(e).__name__)
    lines.append('PS ' + obj); impl.append(r)
    o = None
    if not given and r != ('OK', sorted({L.status_id(x, table) for x in ps_eff})):
        o = ('Simulation_Investigation.__init__', 'possible_statuses not given: the object uses %r; the statuses occurring in node_history are %r' % (getattr(sim, '_possible_statuses_', None), ps_eff))
    oracle.append(o)

    def fmt_summary(r):
        t, D = r
        return ('OK', [(F(float(x)), [int(D[s][k]) for s in ps]) for k, x in enumerate(t)])

    forms = [list, tuple, iter, lambda l: (u for u in l), lambda l: dict.fromkeys(l).keys()]
    def q_summary(nodelist, form=list):
        # the listed nodes may be handed over as any iterable, also a one-shot iterator such as G.neighbors(u) or a generator
        try:
            r = fmt_summary(sim.summary(form(nodelist)) if nodelist is not None else sim.summary())
        except Exception as e:
            r = ('ERR', type(e).__name__)
        lines.append('SUM %s %s' % (obj, '0' if nodelist is None else '1 %d %s' % (len(nodelist), ' '.join(str(lab.id(u)) for u in nodelist))))
        impl.append(r)
        o = None
        if wellformed:
            nl = labels if nodelist is None else nodelist
            st, sD = L.spec_summary(eff, ps, nl)
            exp = ('OK', [(t, [sD[s][k] for s in ps]) for k, t in enumerate(st)])
            if r != exp:
                o = ('summary', 'summary(%s) = %r; counting the listed nodes by their status at each change time gives %r' % ('all nodes' if nodelist is None else nodelist, r[1], exp[1]))
        oracle.append(o)
    q_summary(None)
    for k, sub in enumerate(case['subsets']):
        subl = [labels[i] for i in sub]
        q_summary(subl, forms[(k + len(labels)) % len(forms)] if len(set(map(repr, subl))) == len(subl) else list)
    # t(), S(), I(), R()
    cols = []
    for nm in ('t', 'S', 'I', 'R'):
        try:
            v = getattr(sim, nm)()
            cols.append(('OK', [F(float(x)) for x in v] if nm == 't' else [int(x) for x in v]))
        except Exception as e:
            cols.append(('ERR', type(e).__name__))
    lines.append('COLS ' + obj); impl.append(cols)
    o = None
    if wellformed:
        st, sD = L.spec_summary(eff, ps, labels)
        exp = [('OK', st)] + [('OK', sD[s]) if s in ps else ('ERR', 'EoNError') for s in ('S', 'I', 'R')]
        if cols != exp:
            o = ('S/I/R/t', 't(),S(),I(),R() = %r; the summary of all nodes is %r' % (cols, exp))
    oracle.append(o)
    # node_status / get_statuses
    qtimes = [F(t) for t in case['times']] + ([F(case['before_tmin'])] if 'before_tmin' in case else [])
    for t in qtimes:
        for i in range(n):
            u = labels[i]
            try:
                r = ('OK', sim.node_status(u, float(t)))
            except Exception as e:
                r = ('ERR', type(e).__name__)
            lines.append('NST %s %d %s' % (obj, lab.id(u), C.qtok(t))); impl.append(r)
            o = None
            if wellformed and t >= tmin:
                exp = L.spec_node_status(eff[u][0], eff[u][1], t)
                if r != ('OK', exp):
                    o = ('node_status', 'node_status(%r, %s) = %r; history %r: the latest change at or before that time gives %r' % (u, t, r[1], eff[u], exp))
            oracle.append(o)
        sub = [labels[i] for i in case['subsets'][0]]
        for nl in (None, sub):
            try:
                r = ('OK', sorted(((lab.id(k), v) for k, v in sim.get_statuses(nl, float(t)).items())))
            except Exception as e:
                r = ('ERR', type(e).__name__)
            lines.append('GST %s %s 1 %s' % (obj, '0' if nl is None else '1 %d %s' % (len(nl), ' '.join(str(lab.id(u)) for u in nl)), C.qtok(t)))
            impl.append(r)
            o = None
            if wellformed and t >= tmin:
                exp = sorted({lab.id(u): L.spec_node_status(eff[u][0], eff[u][1], t) for u in (labels if nl is None else nl)}.items())
                if r != ('OK', exp):
                    o = ('get_statuses', 'get_statuses(%r, %s) = %r; expected %r' % (nl, t, r[1], exp))
            oracle.append(o)
    try:
        r = ('OK', sorted(((lab.id(k), v) for k, v in sim.get_statuses().items())))
    except Exception as e:
        r = ('ERR', type(e).__name__)
    lines.append('GST %s 0 0' % obj); impl.append(r)
    o = None
    if wellformed:
        exp = sorted({lab.id(u): eff[u][1][[k for k, x in enumerate(eff[u][0]) if x <= tmin][-1]] for u in labels}.items())
        if r != ('OK', exp): o = ('get_statuses', 'get_statuses() = %r; statuses at the initial time are %r' % (r[1], exp))
    oracle.append(o)
    # statuses come back as strings: translate the model's numbers with this case's table
    case['_table'] = inv_table()
    return lines, impl, oracle


def parse_rows(s):
    out = []
    for tok in s.split():
        t, cs = tok.split(':')
        out.append((F(t), [int(x) for x in cs.split(',') if x != '']))
    return out


def model_answer(line, mo, table):
    cmd = line.split()[0]
    if cmd == 'COLS':
        parts = [p.strip() for p in mo.split(' | ')]
        res = []
        for k, p in enumerate(parts):
            tk = p.split()
            if tk[0] == 'ERR': res.append(('ERR', tk[1]))
            else:
                body = tk[1].split(',') if len(tk) > 1 else []
                res.append(('OK', [F(x) for x in body] if k == 0 else [int(x) for x in body]))
        return res
    tk = mo.split()
    if not tk: return ('BAD', mo)
    if tk[0] == 'ERR': return ('ERR', tk[1])
    if cmd == 'PS':
        return ('OK', sorted(int(x) for x in tk[1].split(',') if x) if len(tk) > 1 and tk[1] != 'ORDER' else [])
    if cmd == 'SUM':
        return ('OK', parse_rows(' '.join(tk[1:])))
    if cmd == 'NST':
        return ('OK', table[int(tk[1])])
    if cmd == 'GST':
        return ('OK', sorted((int(x.split('=')[0]), table[int(x.split('=')[1])]) for x in (tk[1].split(',') if len(tk) > 1 else [])))
    return ('BAD', mo)


# ------------------------------------------------------------------ _transform_to_node_history_
def gen_tr(rng):
    n = rng.randint(1, 7)
    perm = list(range(n)); rng.shuffle(perm)
    tmin = rng.choice([F(0), F(1, 2), F(-1)])
    sir = rng.random() < 0.5
    inf = []; rec = []
    order = list(range(n)); rng.shuffle(order)
    for i in order:
        if rng.random() < 0.25: continue
        if sir:
            t = tmin if rng.random() < 0.3 else tmin + F(rng.randint(1, 12), 4)
            inf.append([i, str(t)])
            if rng.random() < 0.6:
                rec.append([i, str(t + (F(0) if rng.random() < 0.05 else F(rng.randint(1, 8), 4)))])
        else:
            t = tmin if rng.random() < 0.3 else tmin + F(rng.randint(1, 6), 4)
            its = []; rts = []
            for _ in range(rng.randint(1, 3)):
                its.append(str(t)); t += F(rng.randint(1, 6), 4)
                if rng.random() < 0.8:
                    rts.append(str(t)); t += F(rng.randint(1, 6), 4)
                else: break
            inf.append([i, its])
            if rts or rng.random() < 0.5: rec.append([i, rts])
    rng.shuffle(rec)
    return dict(kind='tr', scheme=rng.choice(SCHEMES), perm=perm, tmin=str(tmin), sir=sir, inf=inf, rec=rec)


def run_tr(sim_mod, case):
    from collections import defaultdict
    labels = labels_of(case['scheme'], case['perm'])
    lab = L.Labels(labels)
    tmin = F(case['tmin'])
    if case['sir']:
        it = {labels[i]: float(F(t)) for i, t in case['inf']}
        rt = {labels[i]: float(F(t)) for i, t in case['rec']}
        line = 'TRSIR %s %d %s %d %s' % (C.qtok(tmin), len(case['inf']), ' '.join('%d %s' % (lab.id(labels[i]), C.qtok(F(t))) for i, t in case['inf']),
                                         len(case['rec']), ' '.join('%d %s' % (lab.id(labels[i]), C.qtok(F(t))) for i, t in case['rec']))
    else:
        it = defaultdict(list); rt = defaultdict(list)
        for i, ts in case['inf']: it[labels[i]] = [float(F(t)) for t in ts]
        for i, ts in case['rec']: rt[labels[i]] = [float(F(t)) for t in ts]
        f = lambda l: ' '.join('%d %d %s' % (lab.id(labels[i]), len(ts), ' '.join(C.qtok(F(t)) for t in ts)) for i, ts in l)
        line = 'TRSIS %s %d %s %d %s' % (C.qtok(tmin), len(case['inf']), f(case['inf']), len(case['rec']), f(case['rec']))
    try:
        nh = sim_mod._transform_to_node_history_(it, rt, float(tmin), SIR=case['sir'])
        impl = ('OK', [(lab.id(u), [(F(t), s) for t, s in zip(h[0], h[1])]) for u, h in nh.items()])
    except Exception as e:
        impl = ('ERR', type(e).__name__)
    return line, impl


def parse_assoc(mo):
    tk = mo.split()
    if not tk or tk[0] != 'OK': return ('ERR', tk[1] if len(tk) > 1 else mo)
    names = {0: 'S', 1: 'I', 2: 'R'}
    out = []
    for x in tk[1:]:
        u, h = x.split('=')
        out.append((int(u), [(F(e.split('@')[0]), names[int(e.split('@')[1])]) for e in h.split(',') if e]))
    return ('OK', out)


# ------------------------------------------------------------------ (b) the simulators, both return modes
SIMS = {'Gillespie_SIR': True, 'fast_SIR': True, 'Gillespie_SIS': False, 'fast_SIS': False,
        'discrete_SIR': True, 'basic_discrete_SIS': False}      # the last two only under deterministic rules


def gen_sim(rng, k):
    n = rng.randint(2, 9)
    perm = list(range(n)); rng.shuffle(perm)
    edges = [(u, v) for u in range(n) for v in range(u + 1, n) if rng.random() < rng.choice([0.3, 0.5, 0.8])]
    name = list(SIMS)[k % 6]
    case = dict(kind='sim', sim=name, scheme=rng.choice(SCHEMES), perm=perm, edges=edges, seed=rng.randrange(10 ** 6),
                tau=rng.choice([0.5, 1.0, 2.0, 3.0]), gamma=rng.choice([0.5, 1.0, 1.0, 2.0]), tmin=rng.choice([0, 0, 1, -2]), horizon=rng.choice([1, 3, 5]))
    r = rng.random()
    if r < 0.6:
        case['init'] = sorted(rng.sample(range(n), rng.randint(1, max(1, n // 2))))
        if SIMS[name] and rng.random() < 0.4:
            rest = [i for i in range(n) if i not in case['init']]
            if rest: case['rec0'] = sorted(rng.sample(rest, rng.randint(1, max(1, len(rest) // 2))))
    elif r < 0.8:
        case['rho'] = rng.choice([0.2, 0.5])
    if name in ('discrete_SIR', 'basic_discrete_SIS'):
        # deterministic rules only (with full data these simulators draw extra random numbers): a transmission
        # table / p in {0,1}; integer times; explicit initial sets (the default initial node is a random draw too)
        case.pop('rho', None)
        if 'init' not in case: case['init'] = [rng.randrange(n)]
        case['tmin'] = rng.choice([0, 0, 2, -1]); case['horizon'] = rng.choice([1, 2, 4, 6])
        if name == 'discrete_SIR':
            case['fire'] = [(u, v) for a, b in edges for u, v in ((a, b), (b, a)) if rng.random() < rng.choice([0.4, 0.7, 1.0])]
            if rng.random() < 0.3: case['recover_set'] = sorted(rng.sample(range(n), rng.randint(0, n)))
        else:
            case['p'] = rng.choice([0, 1, 1])
    return case


def run_sim(EoN, nx, case):
    import numpy as np
    labels = labels_of(case['scheme'], case['perm'])
    G = nx.Graph(); G.add_nodes_from(labels)
    G.add_edges_from((labels[u], labels[v]) for u, v in case['edges'])
    f = getattr(EoN, case['sim'])
    kw = dict(tmin=case['tmin'], tmax=case['tmin'] + case['horizon'])
    if 'init' in case: kw['initial_infecteds'] = [labels[i] for i in case['init']]
    if 'rec0' in case: kw['initial_recovereds'] = [labels[i] for i in case['rec0']]
    if 'rho' in case: kw['rho'] = case['rho']
    res = []
    idx = {l: i for i, l in enumerate(labels)}
    fire = {tuple(x) for x in case.get('fire', [])}
    for full in (False, True):
        pyrandom.seed(case['seed']); np.random.seed(case['seed'])
        try:
            if case['sim'] == 'discrete_SIR':
                extra = {}
                if 'recover_set' in case:
                    rs = set(case['recover_set']); extra['test_recovery'] = lambda u: idx[u] in rs
                res.append(('OK', f(G, test_transmission=lambda u, v: (idx[u], idx[v]) in fire, args=(), return_full_data=full, **extra, **kw)))
            elif case['sim'] == 'basic_discrete_SIS':
                res.append(('OK', f(G, case['p'], return_full_data=full, **kw)))
            else:
                res.append(('OK', f(G, case['tau'], case['gamma'], return_full_data=full, **kw)))
        except Exception as e:
            res.append(('ERR', type(e).__name__))
    return labels, G, res


def sim_outputs(case, labels, G, res):
    """(hist, rows, object answers) from the two runs, or a description of what went wrong before that"""
    sir = SIMS[case['sim']]
    ps = ['S', 'I', 'R'] if sir else ['S', 'I']
    if res[0][0] != res[1][0]:
        return None, 'plain call gives %s, full-data call gives %s' % (res[0][1] if res[0][0] == 'ERR' else 'a result', res[1][1] if res[1][0] == 'ERR' else 'a result')
    if res[0][0] == 'ERR':
        return None, None
    arrs = res[0][1]; sim = res[1][1]
    rows = [(F(float(arrs[0][k])), [int(a[k]) for a in arrs[1:]]) for k in range(len(arrs[0]))]
    hist = {}
    for u in labels:
        h = sim.node_history(u)
        hist[u] = ([F(float(t)) for t in h[0]], list(h[1]))
    t, D = sim.summary()
    srows = [(F(float(t[k])), [int(D[s][k]) for s in ps]) for k in range(len(t))]
    cols = [(F(float(x)) for x in sim.t())] + [getattr(sim, s)() for s in ps]
    crow = [(a, [int(c[k]) for c in cols[1:]]) for k, a in enumerate(cols[0])]
    return dict(hist=hist, rows=rows, srows=srows, crow=crow, ps=ps), None


# ------------------------------------------------------------------ the check
def jsonable(c):
    return json.loads(json.dumps({k: v for k, v in c.items() if not k.startswith('_')}, default=str))


def run(run, tier):
    EoN = C.import_eon()
    import networkx as nx
    import EoN.simulation as simmod
    rng = run.rng
    props = C.check_props('C10')
    ok, log = C.build_driver('inv')
    if not ok:
        run.violation('C10/build', 'extracted model does not build: ' + log[-500:], {'log': log[-3000:]}, no_input=True)
        C.proof_coverage(run, props, 1, 0, 'build failed', [log[-300:]]); return
    stats = {'objects': 0, 'queries': 0, 'malformed_objects': 0, 'possible_statuses_not_given': 0, 'transform': 0, 'sim_runs': 0, 'sim_errors': 0, 'sim_events': 0}
    spec_bad = {}; mism = {}; samples = []
    def note(d, key, size, what, case):
        if key not in d or size < d[key][0]: d[key] = (size, what, case)
    # ---- (a) the class
    nobj = 150 if tier == 'quick' else 4000
    lines = []; impls = []; owners = []; oracles = []
    cases = [dict(c, src='corpus') for c in C.load_corpus('C10') if c.get('kind') == 'obj'] + [gen_obj(rng) for _ in range(nobj)]
    for c in cases:
        ls, im, orc = run_obj(EoN, nx, c)
        stats['objects'] += 1; stats['queries'] += len(ls)
        if c['malformed']: stats['malformed_objects'] += 1
        if not c.get('ps_given', True): stats['possible_statuses_not_given'] += 1
        lines += ls; impls += im; oracles += orc; owners += [c] * len(ls)
    outs = C.run_model(lines, 'inv')
    distinct = set(lines)
    for c, line, im, orc, mo in zip(owners, lines, impls, oracles, outs):
        size = len(line)
        if orc:
            note(spec_bad, orc[0], size, orc[1], c)
        if 'DRIVERFAIL' in mo or 'BADCMD' in mo:
            note(mism, line.split()[0], size, 'model driver failure: ' + mo[:200], c); continue
        try:
            ma = model_answer(line, mo, c.get('_table', {0: 'S', 1: 'I', 2: 'R'}))
        except Exception as ex:
            ma = ('BAD', '%s: %s' % (type(ex).__name__, mo[:100]))
        if ma != im:
            note(mism, line.split()[0], size, '%s: model %r, implementation %r' % (line.split()[0], ma, im), c)
        elif len(samples) < 2 and line.startswith('SUM') and im[0] == 'OK' and len(im[1]) > 3:
            samples.append({'summary': {'histories': c['hist'], 'possible_statuses': c['ps'] if c.get('ps_given', True) else None, 'rows': [(str(t), cs) for t, cs in im[1]]}})
    # ---- transform
    ntr = 150 if tier == 'quick' else 6000
    tcases = [gen_tr(rng) for _ in range(ntr)]
    tl = []; ti = []
    for c in tcases:
        l, im = run_tr(simmod, c); tl.append(l); ti.append(im); stats['transform'] += 1
    for c, line, im, mo in zip(tcases, tl, ti, C.run_model(tl, 'inv')):
        distinct.add(line)
        ma = parse_assoc(mo)
        if ma != im:
            note(mism, '_transform_to_node_history_', len(line), '_transform_to_node_history_: model %r, implementation %r' % (ma, im), c)
    # ---- (b) the simulators in both return modes
    nsim = 200 if tier == 'quick' else 12000
    scases = [dict(c, src='corpus') for c in C.load_corpus('C10') if c.get('kind') == 'sim'] + [gen_sim(rng, k) for k in range(nsim)]
    chk = []; chk_owner = []
    for c in scases:
        labels, G, res = run_sim(EoN, nx, c)
        stats['sim_runs'] += 1
        o, err = sim_outputs(c, labels, G, res)
        if err:
            note(spec_bad, c['sim'] + '/return-modes', len(c['edges']), '%s: %s' % (c['sim'], err), c); continue
        if o is None:
            stats['sim_errors'] += 1; continue
        stats['sim_events'] += len(o['rows']) - 1
        sir = SIMS[c['sim']]
        moves = [('S', 'I'), ('I', 'R')] if sir else [('S', 'I'), ('I', 'S')]
        tmin = F(c['tmin'])
        # python oracle on the implementation's outputs
        bad = L.spec_consistent(o['hist'], o['rows'], tmin, moves, labels, o['ps'])
        if bad is None and o['srows'] != o['crow']:
            bad = 't(),S(),I()[,R()] = %r differ from summary() = %r' % (o['crow'][:4], o['srows'][:4])
        if bad is None:
            st, sD = L.spec_summary(o['hist'], o['ps'], labels)
            exp = [(t, [sD[s][k] for s in o['ps']]) for k, t in enumerate(st)]
            if exp != o['srows']:
                bad = 'summary() of the returned object %r is not the count of nodes by status %r' % (o['srows'][:4], exp[:4])
        if bad:
            note(spec_bad, c['sim'] + '/arrays-vs-full-data', len(c['edges']) + len(o['rows']), '%s (seed %d): %s' % (c['sim'], c['seed'], bad), c)
        chk.append(dict(hist=o['hist'], rows=o['rows'], tmin=tmin, moves=moves, nodes=labels, statuses=o['ps'])); chk_owner.append((c, bad, o))
        if len(samples) < 4 and len(o['rows']) > 4:
            samples.append({'simulator': c['sim'], 'seed': c['seed'], 'n': len(labels), 'rows_plain': [(float(t), cs) for t, cs in o['rows'][:5]], 'rows_summary': [(float(t), cs) for t, cs in o['srows'][:5]]})
    verdicts = L.check_outputs_batch(chk) if chk else []
    for (c, bad, o), v in zip(chk_owner, verdicts):
        if v and not bad:
            note(spec_bad, c['sim'] + '/arrays-vs-full-data', len(c['edges']) + len(o['rows']), '%s (seed %d): extracted checker: %s' % (c['sim'], c['seed'], v), c)
        elif bad and not v:
            note(mism, 'checker', len(c['edges']), 'the python oracle rejects (%s) but the extracted checker accepts' % bad[:200], c)
    # ---- (c) scripted draws: the simulator libraries, full data vs plain arrays on the SAME script
    from . import gil_lib as GL, sim_check as SC, xcut as X, xsim, simrun as R2
    per = {}
    import EoN.simulation as sim
    okg, logg = C.build_driver(GL.COMP)
    total = SC.Result()
    if okg:
        def gil_oracle(case, impl, m):
            if impl['status'] != 'OK' or 'hist' not in impl: return []
            plain = GL.run_impl(EoN, sim, case, m.get('draws', []), full=False)
            if plain['status'] != 'OK' or isinstance(plain['rows'], (str, tuple)):
                return [('plain-mode', 'full-data run returns but the same draws without return_full_data give %s %s' % (plain['status'], plain.get('err', '')))]
            sir = case['kind'] == 'SIR'
            d = X.full_vs_arrays(impl['hist'], plain['rows'], 3 if sir else 2, case['tmin'], {(0, 1), (1, 2)} if sir else {(0, 1), (1, 0)})
            return [('full-vs-arrays', d)] if d else []
        for kind in ('SIR', 'SIS'):
            res = SC.Result()
            cs = [dict(GL.gen_case(rng, kind, nmax=8), full=True) for _ in range(500 if tier == 'quick' else 8000)]
            SC.run_cases(GL, EoN, sim, cs, ['W ' + R2.ent_tokens(rng) for _ in cs], gil_oracle,
                         lambda case, m, impl: m['status'] == 'OK' and len(m.get('rows', [])) >= 2, res, 'Gillespie_' + kind)
            SC.report(run, 'C10', 'Gillespie_' + kind, res, 'Model/Gillespie.v', 'Props/C10.v')
            per['Gillespie_' + kind] = {'proved': 'C10_gillespie_summary_equals_arrays', 'cases': res.n, 'mismatches': len(res.mism), 'oracle_failures': len(res.oracle_bad)}
            total.n += res.n
    xsim.run_others(run, 'C10', EoN, sim, tier, per, total, 'full_vs_arrays')
    from . import esirx
    esirx.part(run, tier, 'C10', props, per)
    C.extra_props(run, 'C10', props, ['C10esis'])
    from . import discx; discx.part(run, tier, 'C10', props, per)
    from . import genx; genx.part(run, tier, 'C10', props, per)
    stats['scripted_simulators'] = per
    # ---- verdicts
    for key, (size, what, c) in spec_bad.items():
        run.violation('C10/%s' % key if key.startswith('Simulation_Investigation.__init__/') else 'C10/%s/spec' % key,
                      what[:700], {'case': jsonable(c), 'what': what})
    real_spec = list(spec_bad)
    for key, (size, what, c) in mism.items():
        if real_spec:
            continue        # a concrete failing input of the property was found; the broken correspondence is its consequence
        run.violation('C10/%s/correspondence' % key,
                      'correspondence Model/Investigation.v <-> EoN.Simulation_Investigation no longer checks (the theorems of Props/C10.v are about the model); '
                      'the python oracle found no failing input on this query: %s' % what[:500],
                      {'case': jsonable(c), 'broken': 'correspondence Model/Investigation.v vs EoN (%s)' % key, 'detail': what}, no_input=True)
    if not props['ok']:
        run.violation('C10/proof', 'Props/C10.v no longer checks: %s' % props['log'][-400:], {'broken': 'coq/Props/C10.v', 'log': props['log']}, no_input=True)
    n_eval = len(lines) + len(tl) + len(scases) + total.n
    C.proof_coverage(run, props, n_eval, min(len(distinct) + len(chk), n_eval),
                     'Simulation_Investigation built directly from random legal node histories (1-8 nodes, int/shifted-int/str/tuple labels in permuted order; models SIR, SIS, SIRS, SEIR and a '
                     '3-status model with unrelated names; 0-4 changes per node on a dyadic grid so that nodes share change times; 5%% same-instant double changes; 11%% defaultdict histories '
                     'with absent nodes; 15%% with possible_statuses not given (expected: the statuses occurring in node_history, compared per status); 6%% possible_statuses lacking a used status as the malformed stream): possible statuses, summary() of all nodes and of two random '
                     'node lists (15%% with repeats), t/S/I/R, node_status and get_statuses of every node at every change time, every midpoint, tmin and two times beyond the end (8%%: also '
                     'before tmin, model only); _transform_to_node_history_ on random SIR/SIS time tables incl. times equal to tmin; Gillespie_SIR/SIS and fast_SIR/SIS on random graphs (2-9 '
                     'nodes) run twice from identical seeds (plain / full data; explicit initial sets, initial_recovereds, rho): extracted checker `consistent` and the python oracle on the outputs. '
                     'Non-trivial: every query counts; distinct = distinct model input lines', samples,
                     {'distribution': stats, 'mismatches': len(mism), 'spec_failures': len(spec_bad)})
    run.assumptions += ['both return modes of the continuous-time simulators consume the same random draws (identical seeds give identical event times)',
                        'possible_statuses is duplicate-free; node lists given to summary/get_statuses are lists of nodes']


def replay(rp):
    if rp['replay'].get('genx'):
        from . import genx
        return genx.replay(rp)
    if rp['replay'].get('discx'):
        from . import discx
        return discx.replay(rp)
    if rp['replay'].get('checker'):
        from . import esirx
        return esirx.replay(rp)
    EoN = C.import_eon()
    import networkx as nx
    c = rp['replay'].get('case')
    if not c:
        print('no concrete input recorded:', rp.get('what')); return 1
    if c['kind'] == 'obj':
        ls, im, orc = run_obj(EoN, nx, c)
        bad = [o for o in orc if o]
        print('case:', json.dumps(jsonable(c))[:600])
        print('oracle verdict:', bad[0][1] if bad else 'holds')
        return 1 if bad else 0
    if c['kind'] == 'sim':
        c['edges'] = [tuple(e) for e in c['edges']]
        labels, G, res = run_sim(EoN, nx, c)
        o, err = sim_outputs(c, labels, G, res)
        if err: print(err); return 1
        if o is None: print('both modes raise', res[0][1]); return 0
        sir = SIMS[c['sim']]
        moves = [('S', 'I'), ('I', 'R')] if sir else [('S', 'I'), ('I', 'S')]
        bad = L.spec_consistent(o['hist'], o['rows'], F(c['tmin']), moves, labels, o['ps'])
        print('arrays:', [(float(t), cs) for t, cs in o['rows'][:6]]); print('summary:', [(float(t), cs) for t, cs in o['srows'][:6]])
        print('oracle verdict:', bad or 'holds')
        return 1 if bad else 0
    print('replay of kind %r: re-run ./check C10' % c['kind']); return 1
