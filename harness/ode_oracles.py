"""Numerical oracles shared by C07 and C08 (validation, not proof): they integrate the
actual Python entry points of the working tree and compare with an independently
computed answer (another model the property calls equivalent, the exact master
equation, a closed form).  Tolerance for ODE curves: 1e-4*N absolute (DESIGN 2.6)."""
import itertools, math
import numpy as np


def vpoly_from_Pk(Pk, scale=1.0):
    """vectorised psi, psi' of a degree distribution dict (the library's get_PGF is not vectorised)"""
    items = sorted(Pk.items())
    def psi(x):
        return scale * sum(p * x ** k for k, p in items)
    def psiP(x):
        return scale * sum(k * p * x ** (k - 1) for k, p in items if k >= 1)
    return psi, psiP


def call(f, *a, **k):
    """('ok', tuple of float arrays) | ('exc', 'TypeName: message')"""
    try:
        with np.errstate(all='ignore'):
            r = f(*a, **k)
        return 'ok', tuple(np.array(x, dtype=float) for x in r)
    except Exception as e:
        return 'exc', '%s: %s' % (type(e).__name__, str(e)[:120])


def maxdiff(a, b):
    a = np.asarray(a, dtype=float); b = np.asarray(b, dtype=float)
    if a.shape != b.shape:
        return float('inf')
    d = np.abs(a - b)
    if not np.all(np.isfinite(d)):
        return float('inf')
    return float(d.max()) if d.size else 0.0


# ---- graphs -------------------------------------------------------------------
def labelled(G, rng, style=None):
    """relabel with shuffled string / tuple labels so that 'label used as index' cannot agree by accident"""
    import networkx as nx
    nodes = list(G.nodes())
    style = style or rng.choice(['str', 'tuple'])
    labs = ['n%02d' % i for i in range(len(nodes))] if style == 'str' else [(i // 3, i % 3) for i in range(len(nodes))]
    rng.shuffle(labs)
    H = nx.Graph()
    order = list(range(len(nodes))); rng.shuffle(order)
    m = dict(zip(nodes, labs))
    H.add_nodes_from(m[nodes[i]] for i in order)
    es = [(m[u], m[v]) for u, v in G.edges()]; rng.shuffle(es)
    H.add_edges_from(es)
    return H


def hetero_graph(rng, n, degs=(1, 2, 2, 3, 3, 4, 5)):
    import networkx as nx
    while True:
        ds = [rng.choice(degs) for _ in range(n)]
        if sum(ds) % 2 == 0 and nx.is_graphical(ds) and len(set(ds)) > 1:
            G = nx.havel_hakimi_graph(ds)
            nx.double_edge_swap(G, nswap=2 * n, max_tries=200 * n, seed=rng.randint(0, 10 ** 6))
            return G


def regular_graph(rng, d, n):
    import networkx as nx
    if (d * n) % 2:
        n += 1
    return nx.random_regular_graph(d, n, seed=rng.randint(0, 10 ** 6))


# ---- exact SIR master equation on a small graph ---------------------------------
def master_sir(G, tau_uv, gam_u, infected, recovered, times):
    """E[#S], E[#I], E[#R] at `times` (uniform grid starting at the initial time) for the
    Markovian SIR chain on G: infected u recovers at rate gam_u(u); susceptible v is infected
    at rate sum over infected neighbours u of tau_uv(u, v).  States reachable from the pure
    initial state are enumerated; p(t) = p(0) expm(Q t)."""
    from scipy.linalg import expm
    nodes = list(G.nodes()); idx = {u: i for i, u in enumerate(nodes)}
    s0 = tuple(1 if u in infected else (2 if u in recovered else 0) for u in nodes)
    states = {s0: 0}; todo = [s0]; trans = []
    while todo:
        s = todo.pop()
        for i, u in enumerate(nodes):
            if s[i] == 1:
                r = gam_u(u)
                if r > 0:
                    t = s[:i] + (2,) + s[i + 1:]
                    if t not in states:
                        states[t] = len(states); todo.append(t)
                    trans.append((states[s], states[t], r))
            elif s[i] == 0:
                r = sum(tau_uv(v, u) for v in G.neighbors(u) if s[idx[v]] == 1)
                if r > 0:
                    t = s[:i] + (1,) + s[i + 1:]
                    if t not in states:
                        states[t] = len(states); todo.append(t)
                    trans.append((states[s], states[t], r))
    n = len(states)
    Qm = np.zeros((n, n))
    for a, b, r in trans:
        Qm[a, b] += r; Qm[a, a] -= r
    cnt = np.zeros((n, 3))
    for s, k in states.items():
        for x in s:
            cnt[k, x] += 1
    times = np.asarray(times, dtype=float)
    p = np.zeros(n); p[0] = 1.0
    out = [p @ cnt]
    if len(times) > 1:
        P = expm(Qm * (times[1] - times[0]))
        for _ in times[1:]:
            p = p @ P
            out.append(p @ cnt)
    out = np.array(out)
    return out[:, 0], out[:, 1], out[:, 2], n


def all_trees(nmax):
    import networkx as nx
    for n in range(2, nmax + 1):
        for T in nx.nonisomorphic_trees(n):
            yield T


# ---- entry points taking (G, tau, gamma, rho=...) ---------------------------------
GRAPH_SIR = ['SIR_individual_based', 'SIR_pair_based', 'SIR_homogeneous_meanfield_from_graph',
             'SIR_homogeneous_pairwise_from_graph', 'SIR_heterogeneous_meanfield_from_graph',
             'SIR_heterogeneous_pairwise_from_graph', 'SIR_compact_pairwise_from_graph',
             'SIR_super_compact_pairwise_from_graph', 'SIR_effective_degree_from_graph',
             'SIR_compact_effective_degree_from_graph', 'EBCM_from_graph', 'EBCM_pref_mix_from_graph']
GRAPH_SIS = ['SIS_individual_based', 'SIS_pair_based', 'SIS_homogeneous_meanfield_from_graph',
             'SIS_homogeneous_pairwise_from_graph', 'SIS_heterogeneous_meanfield_from_graph',
             'SIS_heterogeneous_pairwise_from_graph', 'SIS_compact_pairwise_from_graph',
             'SIS_super_compact_pairwise_from_graph', 'SIS_effective_degree_from_graph',
             'SIS_compact_effective_degree_from_graph']


def graph_desc(G):
    return {'nodes': [repr(u) for u in G.nodes()], 'edges': [[repr(u), repr(v)] for u, v in G.edges()]}


def graph_from_desc(d):
    import networkx as nx, ast
    G = nx.Graph()
    G.add_nodes_from(ast.literal_eval(u) for u in d['nodes'])
    G.add_edges_from((ast.literal_eval(u), ast.literal_eval(v)) for u, v in d['edges'])
    return G
