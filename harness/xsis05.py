"""C05 / C18 for the event-driven SIS simulators fast_SIS and fast_nonMarkov_SIS: theorem files
coq/Props/C05s.v and coq/Props/C18s.v; the extracted checkers ic_sisb / ic_sis_rhob of
coq/Model/InitChkSIS.v and the extracted rule-call list of coq/Proofs/C18sCalls.v applied to the
IMPLEMENTATION's own outputs; and the implementation-level form of the C18s theorems: identical
seeds with and without return_full_data must give the same SEQUENCE OF CALLS to the random source
(with the same arguments), the same sequence of calls of the user's rules (same arguments), and
the same arrays; the rule calls must be the targets of transmissions() in order; the call trace
must not depend on PYTHONHASHSEED (string-named nodes, distinct weights, fresh interpreters).
Called from harness/c05.py and harness/c18.py through part(); stand-alone: ./check xsis05."""
import json, os, subprocess, sys
import random as pyrandom
from fractions import Fraction as F
from . import common as C
from . import simrun as R

CLAIM = dict(
    claimed=False,
    text="Machine-checked theorems (coq/Props/C05s.v, C18s.v, closed under the global context) for fast_SIS (every draw script) and fast_nonMarkov_SIS (every rule table inside rules_ok): "
         "every returning run starts from the request whichever way it is given (row 0; first history entry of every node; source-less transmissions = the initial nodes in order; rho count / distinctness; "
         "EoNError clause; single node = one-element list); on every script of positive draws / positive rule tables nothing but the request is dated tmin and node_status(u, tmin) is the request; "
         "the return_full_data flag changes neither the calls made to the random source, nor the calls of the user's rules (consulted only at the calls transmissions() lists), nor the arrays; "
         "the order of initial_infecteds is an input of fast_SIS (witness) and, for fast_nonMarkov_SIS, irrelevant for arrays and histories on tie-free runs (it shows only in ties and in the order of the leading transmissions).",
    design='DESIGN.md section 4, C05 / C18',
    technique='Coq proof (lock-step log invariant; head of a node history without tie hypotheses; positivity invariant of the event loops; result-level simulation of sampler programs; '
              'rule tables consulted only at logged calls; commutation of initial infections in the reference agenda semantics) + extracted checkers and call-trace comparison on the implementation',
    note='stand-alone form of the xsis05 part of C05 / C18')

COMP = 'xsis05'
CODE = {'S': 0, 'I': 1}
SIMS = ('fast_SIS', 'fast_SIS_weighted', 'fast_nonMarkov_SIS', 'fast_nonMarkov_SIS_joint')


# ---------------------------------------------------------------- helpers
def qt(x):
    f = F(x)
    return '%d %d' % (f.numerator, f.denominator)


def rows_tokens(rows):
    return '%d %s' % (len(rows), ' '.join('%s %d %s' % (qt(t), len(c), ' '.join(str(int(x)) for x in c)) for t, c in rows))


def trans_tokens(trans):
    return '%d %s' % (len(trans), ' '.join('%s %s %d' % (qt(t), '0' if s is None else '1 %d' % s, g) for t, s, g in trans))


def full_tokens(hist, trans, n):
    if hist is None: return '0'
    parts = []
    for i in range(n):
        h = hist[i]
        parts.append('%d %s' % (len(h), ' '.join('%s %d' % (qt(t), s) for t, s in h)))
    return '1 %d %s %s' % (n, ' '.join(parts), trans_tokens(trans))


def props_join(run, pid, pname, props):
    xp = C.check_props(pname)
    props['theorems'] = list(props['theorems']) + list(xp['theorems'])
    props['axioms'] = dict(props['axioms'], **xp['axioms'])
    if not xp['ok']:
        props['ok'] = False
        props['log'] = (props.get('log') or '') + ' | ' + xp['log'][-400:]
        run.violation('%s/proof/%s' % (pid, pname), 'Props/%s.v no longer checks: %s' % (pname, xp['log'][-400:]),
                      {'broken': 'coq/Props/%s.v' % pname, 'log': xp['log']}, no_input=True)
    return xp


class Rec:
    """a seeded random source that logs every call with its arguments"""
    def __init__(self, seed):
        self.r = pyrandom.Random(seed); self.log = []
    def random(self):
        self.log.append(('random',)); return self.r.random()
    def expovariate(self, rate):
        self.log.append(('expovariate', float(rate))); return self.r.expovariate(rate)
    def choice(self, seq):
        self.log.append(('choice', repr(list(seq)))); return self.r.choice(seq)
    def sample(self, pop, k):
        self.log.append(('sample', repr(list(pop)), k)); return self.r.sample(pop, k)
    def seed(self, *a):
        pass
    def __getattr__(self, name):
        def f(*a, **k):
            self.log.append((name, repr(a))); return getattr(self.r, name)(*a, **k)
        return f


class recording:
    """substitute EoN.simulation.random by a logging, seeded source (numpy.random is not used by the SIS simulators:
    any use shows as a difference of outputs between identically seeded runs and in the entropy sentinel of c18)"""
    def __init__(self, sim, seed):
        self.sim = sim; self.rec = Rec(seed)
    def __enter__(self):
        self.old = self.sim.random; self.sim.random = self.rec; return self.rec
    def __exit__(self, *a):
        self.sim.random = self.old


def make_rules(durs, dels, log, idmap):
    """deterministic closures over the tables; the infection ordinal of a node is the number of earlier calls of the
    duration function for it.  Every call is logged with its arguments (node ids, ordinal)."""
    calls = {}; cur = {}
    def rec_fn(u):
        k = calls.get(u, 0); calls[u] = k + 1; cur[u] = k
        log.append(('rec', idmap[u], k))
        d = durs[u]
        return float(d[k % len(d)])
    def trans_fn(u, v, rec_delay):
        log.append(('trans', idmap[u], idmap[v], float(rec_delay)))
        ls = dels[(u, v)]
        return [float(x) for x in ls[cur[u] % len(ls)]]
    def joint(u, nbrs):
        nbrs = list(nbrs)
        log.append(('joint', idmap[u], tuple(idmap[v] for v in nbrs)))
        rd = rec_fn(u)
        return {v: trans_fn(u, v, rd) for v in nbrs}, rd
    return rec_fn, trans_fn, joint


def gen_case(rng, name, nmax=8, nmin=1):
    kind = rng.choice(['perm', 'str', 'tuple', 'mixed'])
    w = name == 'fast_SIS_weighted'
    gc = R.gen_graph(rng, nmax=nmax, nmin=nmin, kind=kind, ewl='tw' if w else None, nwl='rw' if w else None, zero_w=False)
    case = {'sim': name, 'gc': gc, 'kind': kind}
    if name.startswith('fast_nonMarkov'):
        from . import esis_lib as EL
        case['durs'], case['dels'] = EL.gen_tables(rng, gc)
    return case


def call_sim(EoN, case, kw, rlog=None):
    gc = case['gc']; name = case['sim']
    if name.startswith('fast_SIS'):
        return EoN.fast_SIS(gc.G, 1.5, 1.0, transmission_weight=gc.ewl, recovery_weight=gc.nwl, **kw)
    rec_fn, trans_fn, joint = make_rules(case['durs'], case['dels'], [] if rlog is None else rlog, gc.idmap)
    if name.endswith('joint'):
        return EoN.fast_nonMarkov_SIS(gc.G, trans_and_rec_time_fxn=joint, **kw)
    return EoN.fast_nonMarkov_SIS(gc.G, trans_time_fxn=trans_fn, rec_time_fxn=rec_fn, **kw)


def outputs(out, gc, full):
    """(rows, hist or None, trans or None) of a simulator result"""
    if full:
        hist, trans = R.canon_full(out, gc, CODE)
        rows = R.canon_arrays([out.t(), out.S(), out.I()])
        return rows, hist, trans
    return R.canon_arrays(out), None, None


def malformed(rows, hist, trans):
    return isinstance(rows, tuple) or isinstance(trans, str) or (hist is not None and any(isinstance(h, str) for h in hist.values()))


def shape(rng, sel, gc, kind):
    import numpy as np
    forms = ['list', 'tuple', 'set', 'dictkeys']
    if len(sel) == 1: forms += ['single', 'single']
    if kind == 'perm': forms.append('ndarray')
    form = rng.choice(forms)
    arg = {'list': lambda: list(sel), 'tuple': lambda: tuple(sel), 'set': lambda: set(sel), 'dictkeys': lambda: {u: 0 for u in sel}.keys(),
           'single': lambda: sel[0], 'ndarray': lambda: np.array(sel)}[form]()
    if form == 'set': sel = list(arg)                       # the iteration order the code will see
    return form, arg, sel


# ---------------------------------------------------------------- C05
def c05_cases(EoN, rng, n, stats):
    """run the implementation on a request inside the domain, hand (request, output) to the extracted ic_sisb"""
    import numpy as np
    lines = []; metas = []
    for i in range(n):
        name = SIMS[i % 4]
        case = gen_case(rng, name)
        gc = case['gc']; N = len(gc.order)
        k = rng.randint(1, min(3, N))
        sel = rng.sample(gc.order, k)
        form, i0arg, sel = shape(rng, sel, gc, case['kind'])
        tmin = rng.choice([0, 0, 2.5, -3, 7])
        tmax = tmin + rng.choice([1.5, 3.0, 6.0])
        full = rng.random() < 0.6
        kw = {'initial_infecteds': i0arg, 'tmin': tmin, 'tmax': tmax, 'return_full_data': full}
        seed = rng.randrange(10 ** 6)
        pyrandom.seed(seed); np.random.seed(seed)
        rp = {'sim': name, 'graph': gc.to_json(), 'i0': [repr(u) for u in sel], 'form': form, 'tmin': tmin, 'tmax': tmax, 'full': full, 'seed': seed, 'checker': 'ic_sisb'}
        if 'durs' in case:
            rp['durs'] = {repr(u): [str(x) for x in v] for u, v in case['durs'].items()}
            rp['dels'] = {repr(u): [[str(x) for x in l] for l in v] for u, v in case['dels'].items()}
        try:
            out = call_sim(EoN, case, kw)
            rows, hist, trans = outputs(out, gc, full)
        except Exception as e:
            metas.append((rp, 'EXC %s: %s' % (type(e).__name__, str(e)[:100]), None)); lines.append(None); continue
        if malformed(rows, hist, trans):
            metas.append((rp, 'malformed output %r' % ((rows if isinstance(rows, tuple) else trans if isinstance(trans, str) else hist),), None)); lines.append(None); continue
        line = 'ICSIS %d %d %s %s 1 %s %s %s' % (N, len(sel), ' '.join(str(gc.idmap[u]) for u in sel), qt(tmin), qt(tmax), rows_tokens(rows), full_tokens(hist, trans, N))
        lines.append(line); metas.append((rp, None, rows[:3]))
        stats['ic_' + name] = stats.get('ic_' + name, 0) + 1
        stats['form_' + form] = stats.get('form_' + form, 0) + 1
    return lines, metas


def c05_ties(EoN, rng, n, stats):
    """the tie clause of ic_sisb on the real code: fast_nonMarkov_SIS with a rule table that has a ZERO delay out of an initial node
    (a neighbour is infected AT tmin: its history restarts there, sim:391) or a zero duration (an initial node recovers at tmin).
    Rows from the plain run, full data from the full-data run of the same (deterministic) input: summary() of the object merges
    the rows at tmin (Props/C10esis.v), the plain arrays keep row 0"""
    lines = []; metas = []
    for i in range(n):
        name = SIMS[2 + i % 2]
        case = gen_case(rng, name, nmin=2)
        gc = case['gc']; N = len(gc.order)
        sel = rng.sample(gc.order, rng.randint(1, min(2, N - 1)))
        u = sel[0]; what = 'none'
        nb = [v for v in gc.G.neighbors(u) if v not in sel]
        if nb and i % 3 != 2:
            v = rng.choice(nb); case['dels'][(u, v)] = [[F(0)] + list(l) for l in case['dels'][(u, v)]]; what = 'zero-delay'
        else:
            case['durs'][u] = [F(0)] + list(case['durs'][u]); what = 'zero-duration'
        tmin = rng.choice([0, 2.5, -3]); tmax = tmin + 2.0
        kw = {'initial_infecteds': list(sel), 'tmin': tmin, 'tmax': tmax}
        rp = {'sim': name, 'graph': gc.to_json(), 'i0': [repr(x) for x in sel], 'form': 'list', 'tmin': tmin, 'tmax': tmax, 'full': True, 'tie': what, 'checker': 'ic_sisb',
              'durs': {repr(x): [str(y) for y in v] for x, v in case['durs'].items()}, 'dels': {repr(x): [[str(y) for y in l] for l in v] for x, v in case['dels'].items()}}
        try:
            rows = R.canon_arrays(call_sim(EoN, case, dict(kw, return_full_data=False)))
            hist, trans = R.canon_full(call_sim(EoN, case, dict(kw, return_full_data=True)), gc, CODE)
        except Exception as e:
            metas.append((rp, 'EXC %s: %s' % (type(e).__name__, str(e)[:100]), None)); lines.append(None); continue
        if malformed(rows, hist, trans):
            metas.append((rp, 'malformed output', None)); lines.append(None); continue
        lines.append('ICSIS %d %d %s %s 1 %s %s %s' % (N, len(sel), ' '.join(str(gc.idmap[x]) for x in sel), qt(tmin), qt(tmax), rows_tokens(rows), full_tokens(hist, trans, N)))
        metas.append((rp, None, rows[:3]))
        stats['tie_' + what] = stats.get('tie_' + what, 0) + 1
        if any(h and h[0][1] == 1 for k, h in hist.items() if gc.order[k] not in sel): stats['tie_head_I'] = stats.get('tie_head_I', 0) + 1
    return lines, metas


def c05_scripted_ties(EoN, sim, rng, n, stats):
    """fast_SIS on draw SCRIPTS that contain the value 0 (a possible, measure-zero value of expovariate; the theorem
    C05s_fast_SIS_starts_as_requested is about every script): infections and recoveries AT tmin.  Plain run and full-data run under the
    same script; rows from the plain run (the summary of the object merges the rows at tmin), full data from the other"""
    lines = []; metas = []
    for i in range(n):
        name = SIMS[i % 2]
        case = gen_case(rng, name, nmin=2, nmax=6)
        gc = case['gc']; N = len(gc.order)
        sel = rng.sample(gc.order, rng.randint(1, min(2, N - 1)))
        tmin = rng.choice([0, 2.5, -3]); tmax = tmin + 1.0
        draws = [rng.choice([F(0), F(0), F(1, 4), F(1, 2), F(3, 4), F(2)]) for _ in range(600)]
        kw = {'initial_infecteds': list(sel), 'tmin': tmin, 'tmax': tmax}
        rp = {'sim': name, 'graph': gc.to_json(), 'i0': [repr(x) for x in sel], 'form': 'list', 'tmin': tmin, 'tmax': tmax, 'full': True, 'tie': 'scripted zero draws',
              'draws': [str(d) for d in draws[:60]], 'checker': 'ic_sisb'}
        s1 = R.Scripted(draws, gc.idmap); st1, v1 = R.run_impl(lambda: call_sim(EoN, case, dict(kw, return_full_data=False)), s1, sim)
        s2 = R.Scripted(draws, gc.idmap); st2, v2 = R.run_impl(lambda: call_sim(EoN, case, dict(kw, return_full_data=True)), s2, sim)
        if st1 == 'OUT' or st2 == 'OUT':
            stats['script_out'] = stats.get('script_out', 0) + 1; continue
        if st1 != 'OK' or st2 != 'OK':
            metas.append((rp, 'EXC %s / %s' % (v1 if st1 == 'EXC' else 'ok', v2 if st2 == 'EXC' else 'ok'), None)); lines.append(None); continue
        rows = R.canon_arrays(v1); hist, trans = R.canon_full(v2, gc, CODE)
        if malformed(rows, hist, trans):
            metas.append((rp, 'malformed output', None)); lines.append(None); continue
        if s1.log != s2.log:
            metas.append((rp, 'the two return modes made different calls to the random source under the same script (%d vs %d calls)' % (len(s1.log), len(s2.log)), None)); lines.append(None); continue
        lines.append('ICSIS %d %d %s %s 1 %s %s %s' % (N, len(sel), ' '.join(str(gc.idmap[x]) for x in sel), qt(tmin), qt(tmax), rows_tokens(rows), full_tokens(hist, trans, N)))
        metas.append((rp, None, rows[:3]))
        stats['script_ties'] = stats.get('script_ties', 0) + 1
        if any(h and h[0][1] == 1 for k, h in hist.items() if gc.order[k] not in sel): stats['script_head_I'] = stats.get('script_head_I', 0) + 1
    return lines, metas


def c05_rho(EoN, sim, rng, stats):
    """rho / nothing: int(round(N*rho)) (or 1) distinct nodes of the graph are I at tmin and the run starts from them (extracted
    ic_sis_rhob; its count is compared with Python's int(round(N*rho))); rho together with initial_infecteds: EoNError, nothing drawn,
    no rule called; a single node = the one-element list (same seeds, same output)"""
    import numpy as np
    lines = []; metas = []; bad = []
    for name in SIMS:
        # N*rho a half-integer (round half to even: 5/2 -> 2, 3/2 -> 2, 1/2 -> 0, 7/2 -> 4) and ordinary cases; None = one random node
        for rho, nn in ((0.5, 5), (0.5, 3), (0.25, 6), (0.25, 2), (0.125, 4), (0.375, 4), (0.3, 5), (1.0, 4), (0.0, 3), (0.5, 7), (None, 4), (None, 1)):
            for full in (True, False):
                case = gen_case(rng, name, nmax=nn, nmin=nn)
                gc = case['gc']; N = len(gc.order)
                exp = 1 if rho is None else int(round(N * rho))   # as the property states it (exact for these dyadic values; 0.3*5 = 1.5 -> 2)
                seed = rng.randrange(10 ** 6); pyrandom.seed(seed); np.random.seed(seed)
                rp = {'sim': name, 'graph': gc.to_json(), 'rho': rho, 'seed': seed, 'full': full, 'tmin': 1.5, 'checker': 'ic_sis_rhob'}
                kw = {'tmin': 1.5, 'tmax': 4.0, 'return_full_data': full}
                if rho is not None: kw['rho'] = rho
                try:
                    out = call_sim(EoN, case, kw)
                    rows, hist, trans = outputs(out, gc, full)
                except Exception as e:
                    metas.append((rp, 'EXC %s: %s' % (type(e).__name__, str(e)[:100]), None)); lines.append(None); continue
                if malformed(rows, hist, trans):
                    metas.append((rp, 'malformed output', None)); lines.append(None); continue
                stats['rho'] = stats.get('rho', 0) + 1
                got = rows[0][1][1] if rows else None
                if got != exp:
                    bad.append(('%s/rho/count' % name, '%s with rho=%s on %d nodes: row 0 reports %r infected, int(round(N*rho)) = %d' % (name, rho, N, got, exp), rp))
                rq = F(rho) if rho is not None else None
                if rho == 0.3: rq = F(3, 10)
                lines.append('ICRHO %d %s %s %s %s' % (N, '0' if rq is None else '1 ' + qt(rq), qt(1.5), rows_tokens(rows), full_tokens(hist, trans, N)))
                metas.append((dict(rp, expected=exp), None, rows[:2]))
        # both given: EoNError whatever the values, before any draw or rule call
        case = gen_case(rng, name, nmin=2)
        gc = case['gc']
        for i0 in ([gc.order[0]], gc.order[0], [], (gc.order[1],)):
            for rho in (0.25, 0.0):
                rlog = []
                with recording(sim, 1) as rec:
                    try:
                        call_sim(EoN, case, {'rho': rho, 'initial_infecteds': i0, 'tmax': 2}, rlog); got = 'returned normally'
                    except Exception as e:
                        got = type(e).__name__
                stats['rho+i0'] = stats.get('rho+i0', 0) + 1
                if got != 'EoNError' or rec.log or rlog:
                    bad.append(('%s/rho+initial_infecteds' % name, '%s(rho=%r, initial_infecteds=%r) %s (calls to the random source before that: %d, rule calls: %d); the model says EoNError before anything else' % (
                        name, rho, i0, got, len(rec.log), len(rlog)), {'sim': name, 'graph': gc.to_json(), 'rho': rho, 'i0': repr(i0)}))
        # a single node means the one-element list
        for _ in range(6):
            case = gen_case(rng, name)
            gc = case['gc']; u = rng.choice(gc.order); seed = rng.randrange(10 ** 6)
            res = []
            for arg in (u, [u], (u,), {u}):
                pyrandom.seed(seed); np.random.seed(seed)
                try:
                    o = call_sim(EoN, case, {'initial_infecteds': arg, 'tmin': -3, 'tmax': 0.5})
                    res.append(R.canon_arrays(o))
                except Exception as e:
                    res.append('EXC ' + type(e).__name__)
            stats['single'] = stats.get('single', 0) + 1
            if any(r != res[1] for r in res):
                bad.append(('%s/single-node' % name, '%s: initial_infecteds given as the node itself / [node] / (node,) / {node} gives different runs for identical seeds: %s' % (name, [str(r)[:60] for r in res]),
                            {'sim': name, 'graph': gc.to_json(), 'node': repr(u), 'seed': seed}))
    return lines, metas, bad


def judge(run, pid, lines, metas, per, label):
    idx = [i for i, l in enumerate(lines) if l is not None]
    outs = C.run_model([lines[i] for i in idx], COMP)
    judged = rejected = 0; shown_n = {}
    for i, o in zip(idx, outs):
        rp, _, shown = metas[i]
        if not o.startswith('OK'):
            run.violation('%s/xsis05/driver' % pid, 'checker driver failed: %r' % (o,), dict(rp, line=lines[i]), no_input=True); continue
        v = dict(x.split('=') for x in o.split()[1:])
        if v.get('dom', '1') != '1': continue
        judged += 1
        if 'expected' in rp and v.get('k') != str(rp['expected']):
            run.violation('%s/xsis05/round' % pid, 'the extracted requested_count gives %s, Python int(round(N*rho)) gives %s (harness/model disagreement about the statement)' % (v.get('k'), rp['expected']), dict(rp, line=lines[i]), no_input=True)
        if v['chk'] != '1':
            rejected += 1
            chk = rp['checker']
            shown_n[(rp['sim'], chk)] = shown_n.get((rp['sim'], chk), 0) + 1
            if shown_n[(rp['sim'], chk)] > 3: continue                      # same key: three replays are enough
            run.violation('%s/%s/%s' % (pid, rp['sim'], chk), 'the extracted checker %s (proved sound and accepted on every model run, Props/C05s.v) rejects the implementation\'s output: request %s, first rows %r' % (
                chk, {k: rp[k] for k in ('i0', 'form', 'rho', 'tmin', 'full') if k in rp}, shown), dict(rp, line=lines[i]))
    for i, (rp, err, _) in enumerate(metas):
        if err:
            run.violation('%s/%s/crash' % (pid, rp['sim']), '%s on a request inside the domain: %s' % (rp['sim'], err), rp)
    per[label] = {'proved': True, 'props': 'Props/C05s.v', 'judged': judged, 'rejected': rejected}
    return judged


# ---------------------------------------------------------------- C18
def traced(EoN, sim, seed, case, kw):
    """(output or 'EXC name', calls to the random source, calls of the user's rules)"""
    import numpy as np
    pyrandom.seed(seed); np.random.seed(seed)
    rlog = []
    with recording(sim, seed) as rec:
        try:
            out = call_sim(EoN, case, kw, rlog)
        except Exception as e:
            return ('EXC ' + type(e).__name__), list(rec.log), rlog
    return out, list(rec.log), rlog


def merge_ties(rows):
    """Simulation_Investigation.summary() reports one row per distinct time: the last of the plain rows at that time (Props/C10esis.v)"""
    out = []
    for t, c in rows:
        if out and out[-1][0] == t: out[-1] = (t, c)
        else: out.append((t, c))
    return out


def first_diff(a, b):
    for i, (x, y) in enumerate(zip(a, b)):
        if x != y: return 'call %d: %r vs %r' % (i, x, y)
    return 'length %d vs %d (first extra call: %r)' % (len(a), len(b), (a if len(a) > len(b) else b)[min(len(a), len(b))]) if len(a) != len(b) else 'equal'


def c18_cases(EoN, sim, rng, n, stats):
    bad = []; call_lines = []; call_metas = []
    for i in range(n):
        name = SIMS[i % 4]
        case = gen_case(rng, name)
        gc = case['gc']; N = len(gc.order)
        seed = rng.randrange(10 ** 6)
        tmin = rng.choice([0, 2.5, -3]); tmax = tmin + rng.choice([2.0, 5.0])
        base = {'tmin': tmin, 'tmax': tmax}
        if rng.random() < 0.2: base['rho'] = rng.choice([0.25, 0.5])
        elif rng.random() < 0.1: pass                                   # nothing given: one random node
        else: base['initial_infecteds'] = rng.sample(gc.order, rng.randint(1, min(3, N)))
        rp = {'sim': name, 'graph': gc.to_json(), 'i0': [repr(u) for u in base.get('initial_infecteds', [])] or None, 'rho': base.get('rho'), 'tmin': tmin, 'tmax': tmax, 'seed': seed}
        p, lp, rlp = traced(EoN, sim, seed, case, dict(base, return_full_data=False))
        f, lf, rlf = traced(EoN, sim, seed, case, dict(base, return_full_data=True))
        stats['flag_' + name] = stats.get('flag_' + name, 0) + 1
        stats['calls'] = stats.get('calls', 0) + len(lp); stats['rule_calls'] = stats.get('rule_calls', 0) + len(rlp)
        if lp != lf:
            bad.append(('%s/full-data-flag/calls' % name, '%s makes different calls to the random source with and without return_full_data for identical seeds: %s' % (name, first_diff(lp, lf)), dict(rp, clause='flag')))
        elif rlp != rlf:
            bad.append(('%s/full-data-flag/rule-calls' % name, '%s calls the user\'s rules differently with and without return_full_data: %s' % (name, first_diff(rlp, rlf)), dict(rp, clause='flag')))
        elif isinstance(p, str) or isinstance(f, str):
            if p != f:
                bad.append(('%s/full-data-flag/exception' % name, '%s: plain mode %s, full-data mode %s (the model: the two modes fail together with the same error)' % (
                    name, p if isinstance(p, str) else 'returned', f if isinstance(f, str) else 'returned'), dict(rp, clause='flag')))
        else:
            try:
                cf = R.canon_arrays([f.t(), f.S(), f.I()])
            except Exception as e:
                cf = 'EXC ' + type(e).__name__
            if cf != merge_ties(R.canon_arrays(p)):
                bad.append(('%s/full-data-flag/arrays' % name, '%s: arrays differ with and without return_full_data for identical seeds: %r vs %r' % (name, str(R.canon_arrays(p))[:200], str(cf)[:200]), dict(rp, clause='flag')))
            # the user's rules are called once per entry of transmissions(), for its target, in that order (extracted rule_calls)
            if name.startswith('fast_nonMarkov'):
                hist, trans = R.canon_full(f, gc, CODE)
                i0 = base.get('initial_infecteds')
                if i0 and len(i0) >= 2 and not isinstance(trans, str):
                    # Props/C18s.v, C18s_fast_nonMarkov_SIS_initial_order_irrelevant_without_ties: judged only when the plain agenda
                    # semantics (Python oracle esis_lib.ref_sis, exact arithmetic) reports no tie for this input
                    from . import esis_lib as EL
                    ref = EL.ref_sis({'gc': gc, 'durs': case['durs'], 'dels': case['dels'], 'tmin': F(tmin), 'tmax': F(tmax)}, [gc.idmap[u] for u in i0])
                    if not ref['ties'] and not ref['unfinished']:
                        perm = list(reversed(i0)) if rng.random() < 0.5 else rng.sample(i0, len(i0))
                        f2, _, _ = traced(EoN, sim, seed, case, dict(base, initial_infecteds=perm, return_full_data=True))
                        stats['i0_order'] = stats.get('i0_order', 0) + 1
                        if isinstance(f2, str):
                            bad.append(('%s/initial_infecteds-order' % name, '%s: with initial_infecteds permuted the run raised %s' % (name, f2), dict(rp, clause='i0-order', perm=[repr(u) for u in perm])))
                        else:
                            hist2, trans2 = R.canon_full(f2, gc, CODE)
                            rows2 = R.canon_arrays([f2.t(), f2.S(), f2.I()])
                            srcd = lambda tr: [x for x in tr if x[1] is not None]
                            what = None
                            if rows2 != cf: what = 'arrays differ: %r vs %r' % (str(cf)[:150], str(rows2)[:150])
                            elif hist2 != hist: what = 'node histories differ'
                            elif isinstance(trans2, str) or srcd(trans2) != srcd(trans) or sorted(trans2, key=repr) != sorted(trans, key=repr):
                                what = 'transmissions differ beyond the order of the leading source-less entries: %r vs %r' % (str(trans)[:150], str(trans2)[:150])
                            if what:
                                bad.append(('%s/initial_infecteds-order' % name, '%s on a tie-free input (rule tables): permuting initial_infecteds changes the output: %s' % (name, what),
                                            dict(rp, clause='i0-order', perm=[repr(u) for u in perm])))
                if not isinstance(trans, str):
                    call_lines.append('CALLS ' + trans_tokens(trans))
                    call_metas.append((rp, name, [(c[1], c[2]) for c in rlf if c[0] == 'rec'], rlf, gc))
    if call_lines:
        for o, (rp, name, recs, rlf, gc) in zip(C.run_model(call_lines, COMP), call_metas):
            if not o.startswith('OK calls='):
                bad.append(('xsis05/driver', 'rule-call driver failed: %r' % o, rp)); continue
            s = o[len('OK calls='):].strip()
            want = [tuple(int(x) for x in p.split(':')) for p in s.split(',')] if s else []
            stats['rule_call_runs'] = stats.get('rule_call_runs', 0) + 1
            if recs != want:
                bad.append(('%s/rule-calls/transmissions' % name, '%s: the duration rule was called for (node, ordinal) %r but transmissions() lists the infections %r (the model: one call per entry, for its target, in that order)' % (
                    name, recs[:12], want[:12]), dict(rp, clause='rule-calls')))
            elif not name.endswith('joint'):
                # between two duration calls: trans_time_fxn(u, v, rec_delay) for v in G.neighbors(u), in adjacency order
                k = 0
                while k < len(rlf):
                    assert rlf[k][0] == 'rec'
                    u = rlf[k][1]; nb = [gc.idmap[v] for v in gc.G.neighbors(gc.order[u])]
                    blk = []; k += 1
                    while k < len(rlf) and rlf[k][0] == 'trans': blk.append(rlf[k]); k += 1
                    if [b[1] for b in blk] != [u] * len(nb) or [b[2] for b in blk] != nb:
                        bad.append(('%s/rule-calls/neighbour-order' % name, '%s: after rec_time_fxn(%d) the transmission rule was called for %r, the neighbours in adjacency order are %r' % (
                            name, u, [(b[1], b[2]) for b in blk], nb), dict(rp, clause='rule-calls'))); break
    return bad


WORKER = r'''
import sys, os, json, random
sys.path.insert(0, os.environ['VERIF_DIR']); sys.path.insert(0, os.environ['EON_REPO'])
import warnings; warnings.simplefilter('ignore')
import networkx as nx, numpy as np
import EoN, EoN.simulation as sim
from harness.xsis05 import Rec
out = {}
names = ['n%s' % c for c in 'qwertyuiopasdf']
for seed in (11, 12, 13):
    rng = random.Random(seed)
    G = nx.Graph(); G.add_nodes_from(names)
    w = 1
    for i, u in enumerate(names):
        for v in names[i + 1:]:
            if rng.random() < 0.35:
                G.add_edge(u, v, tw=1 + w / 64.0); w += 1
    for i, u in enumerate(names): G.nodes[u]['rw'] = 1 + i / 32.0
    for mode in ('fast_SIS', 'fast_nonMarkov_SIS'):
        for i0 in (['nq', 'ne', 'np'], None):
            rec = Rec(seed); old = sim.random; sim.random = rec
            random.seed(seed); np.random.seed(seed)
            rl = []
            try:
                kw = dict(tmax=2.0)
                if i0 is None: kw['rho'] = 0.25
                else: kw['initial_infecteds'] = i0
                if mode == 'fast_SIS':
                    r = EoN.fast_SIS(G, 1.0, 1.0, transmission_weight='tw', recovery_weight='rw', **kw)
                else:
                    def tf(u, v, rd): rl.append((u, v)); return [0.25 + G.adj[u][v]['tw'] / 8.0]
                    def rf(u): rl.append(u); return G.nodes[u]['rw']
                    r = EoN.fast_nonMarkov_SIS(G, trans_time_fxn=tf, rec_time_fxn=rf, **kw)
                res = [[repr(float(x)) for x in r[0]], [int(x) for x in r[1]], [int(x) for x in r[2]]]
            except Exception as e:
                res = 'EXC ' + type(e).__name__
            finally:
                sim.random = old
            out['%s/%s/%d' % (mode, 'i0' if i0 else 'rho', seed)] = [res, [list(c) for c in rec.log], [list(x) if isinstance(x, tuple) else x for x in rl]]
print(json.dumps(out))
'''


def hashseed_traces(stats):
    """the same seeded calls on a string-named graph with pairwise distinct rates in fresh interpreters with different PYTHONHASHSEED:
    outputs AND call traces (the rates handed to expovariate reveal the order in which neighbours are visited) must be identical"""
    bad = []; outs = []
    hs = (1, 2, 777)
    for h in hs:
        p = subprocess.run(['/venv/bin/python', '-c', WORKER], capture_output=True, text=True, timeout=600,
                           env=dict(os.environ, PYTHONHASHSEED=str(h), EON_REPO=C.REPO, VERIF_DIR=C.VERIF))
        if p.returncode != 0:
            return [('xsis05/hashseed-worker', 'worker failed: ' + p.stderr[-600:], {'stderr': p.stderr[-2000:]})]
        outs.append(json.loads(p.stdout))
    stats['hashseed_cases'] = len(outs[0]); stats['hashseeds'] = list(hs)
    stats['hashseed_calls'] = sum(len(v[1]) + len(v[2]) for v in outs[0].values())
    for key, val in outs[0].items():
        for h, o in zip(hs[1:], outs[1:]):
            if o[key] != val:
                what = 'output' if o[key][0] != val[0] else 'calls to the random source' if o[key][1] != val[1] else 'calls of the user rules'
                d = first_diff([tuple(x) for x in val[1]], [tuple(x) for x in o[key][1]]) if o[key][1] != val[1] else ''
                bad.append(('%s/hashseed-trace' % key.split('/')[0], '%s (string node names, identical seeds): %s differ between PYTHONHASHSEED=%d and %d %s' % (key, what, hs[0], h, d),
                            {'case': key, 'hashseeds': [hs[0], h], 'a': str(val)[:400], 'b': str(o[key])[:400]}))
                break
    return bad


def regen_hashiter(run):
    """Props/C18s.v states which loops fast_SIS / fast_nonMarkov_SIS reach, over Gen/HashIter.v: regenerate it from the CURRENT source"""
    gen = os.path.join(C.COQ, 'Gen', 'HashIter.v'); tmp = gen + '.xsis05.tmp'
    rc, out, _ = C.sh(['/venv/bin/python', os.path.join(C.VERIF, 'translate', 'hashiter2v.py'), '--repo', C.REPO, '-o', tmp], timeout=120)
    if rc != 0:
        run.violation('C18/xsis05/hashiter-translator', 'translate/hashiter2v.py refused the current source: %s' % out[-300:], {'broken': 'translate/hashiter2v.py', 'log': out[-2000:]}, no_input=True)
        if os.path.exists(tmp): os.remove(tmp)
        return False
    new = open(tmp).read()
    if not os.path.exists(gen) or open(gen).read() != new:
        os.replace(tmp, gen)
    else:
        os.remove(tmp)
    return True


# ---------------------------------------------------------------- entry points
def part(run, tier, pid, props, per):
    """the xsis05 part of property pid (C05 / C18), called from harness/c05.py / c18.py"""
    EoN = C.import_eon()
    import EoN.simulation as sim
    rng = run.rng; stats = {}
    if pid == 'C05':
        props_join(run, pid, 'C05s', props)
        ok, log = C.build_driver(COMP)
        if not ok:
            run.violation('C05/build/xsis05', 'extracted checkers do not build: ' + log[-500:], {'log': log[-3000:]}, no_input=True); return 0
        n = 240 if tier == 'quick' else 4000
        l1, m1 = c05_cases(EoN, rng, n, stats)
        j = judge(run, pid, l1, m1, per, 'event-driven-SIS/extracted-checker')
        lt, mt = c05_ties(EoN, rng, 36 if tier == 'quick' else 600, stats)
        j += judge(run, pid, lt, mt, per, 'event-driven-SIS/ties-at-tmin')
        ls, ms = c05_scripted_ties(EoN, sim, rng, 60 if tier == 'quick' else 1000, stats)
        j += judge(run, pid, ls, ms, per, 'fast_SIS/scripted-ties-at-tmin')
        l2, m2, bad2 = c05_rho(EoN, sim, rng, stats)
        j += judge(run, pid, l2, m2, per, 'event-driven-SIS/rho')
        seen = set()
        for k, what, rp in bad2:
            if k not in seen:
                seen.add(k); run.violation('C05/' + k, what, dict(rp, kind='xsis05'))
        per['xsis05/distribution'] = stats
        return j
    regen_hashiter(run)
    props_join(run, pid, 'C18s', props)
    ok, log = C.build_driver(COMP)
    if not ok:
        run.violation('C18/build/xsis05', 'extracted rule-call list does not build: ' + log[-500:], {'log': log[-3000:]}, no_input=True); return 0
    n = 160 if tier == 'quick' else 2500
    seen = set()
    for k, what, rp in c18_cases(EoN, sim, rng, n, stats) + hashseed_traces(stats):
        if k not in seen:
            seen.add(k); run.violation('C18/' + k, what, dict(rp, kind='xsis05'))
    per['xsis05/call-trace'] = stats
    return n


def run(run, tier):
    props = {'ok': True, 'theorems': [], 'axioms': {}, 'log': ''}
    per = {}
    n = part(run, tier, 'C05', props, per) or 0
    n += part(run, tier, 'C18', props, per) or 0
    C.proof_coverage(run, props, max(n, 1), n, 'see harness/xsis05.py: fast_SIS / fast_nonMarkov_SIS, extracted checkers on implementation outputs and call-trace comparison', [], {'parts': per})


def replay(rp):
    print('replay of an xsis05 case:', {k: v for k, v in rp['replay'].items() if k not in ('graph', 'line', 'durs', 'dels')})
    j = rp['replay']
    if j.get('line'):
        C.build_driver(COMP)
        o = C.run_model([j['line']], COMP)[0]
        print('verdict of the extracted checker on the recorded implementation output:', o)
        print('(re-run ./check C05 to regenerate the case from the seed against the current tree)')
        return 1 if 'chk=0' in o else 0
    print('re-run the check (cases are regenerated from the seed)'); return 2
