"""Numerical version of every theorem of Props/C06.v, C07.v, C08.v about the 2-D and node-level
right-hand sides (Proofs/Rhs2DP.v), evaluated on the PYTHON functions of the working tree.  This is the
failing-input search of those clauses: when the point-evaluation tie of harness/rhs2_lib.py breaks (the code
no longer is the hand-written model the theorems are about), a violated statement here is a concrete input of
the property; the oracle is the statement itself, written in numpy, independent of the Coq model.

  spec_points(rng, prop, n)   -> [{'theorem':..., 'fn':..., ...}]   JSON-able, replayable
  case_spec(EoN, p)           -> None | description of the violation
"""
from fractions import Fraction as F
from . import common as C
from . import rhs2_lib as L2

TOL = 1e-9


def _f(x):
    return float(F(x))


def _cl(a, b):
    import numpy as np
    a = np.atleast_1d(np.asarray(a, dtype=float)).ravel(); b = np.atleast_1d(np.asarray(b, dtype=float)).ravel()
    return a.shape == b.shape and all(C.close(float(x), float(y), TOL) for x, y in zip(a, b))


def _fl(v):
    import numpy as np
    return [round(float(x), 9) for x in np.atleast_1d(v).ravel()][:12]


# ---------------------------------------------------------------- node level ----
def _node_setup(p):
    G, lab = L2.nx_graph(p)
    nodelist = [lab[u] for u in p['nodelist']]
    index_of_node = {node: i for i, node in enumerate(nodelist)}
    pos = {lab[u]: u for u in range(p['n'])}
    tr = {k: _f(v) for k, v in p['tr'].items()}
    rc = [_f(x) for x in p['rc']]
    return G, nodelist, index_of_node, (lambda u, v: tr['%d,%d' % (pos[u], pos[v])]), (lambda u: rc[pos[u]]), pos


def regular_point(rng, fn):
    """d-regular simple graph (ring, complete, or random regular), shuffled labels / nodelist"""
    import networkx as nx
    pair = 'pair_based' in fn
    while True:
        n = rng.randint(3, 5 if pair else 8); d = rng.randint(1, n - 1)
        if n * d % 2 == 0:
            break
    H = nx.random_regular_graph(d, n, seed=rng.randrange(10 ** 6))
    edges = [list(e) for e in H.edges()]
    rng.shuffle(edges)
    nodelist = list(range(n)); rng.shuffle(nodelist)
    labels = [10 + 3 * i for i in range(n)]
    return {'n': n, 'd': d, 'edges': edges, 'labels': labels, 'nodelist': nodelist}


def spec_node(EoN, p):
    import numpy as np
    A = EoN.analytic
    th = p['theorem']
    G, nodelist, ion, trf, rcf, pos = _node_setup(p)
    N = p['n']
    V = np.array([_f(x) for x in p['V']])
    rcv = np.array([rcf(u) for u in nodelist])
    if th == 'conserve_SIR_individual_based':
        d = A._dSIR_individual_based_(V.copy(), 0, G, nodelist, ion, trf, rcf)
        ok = _cl(d[:N] + d[N:], -rcv * V[N:]) and all(x <= 1e-12 for x in d[:N])
        return None if ok else 'dX+dY = %s but -gamma_i*Y_i = %s; dX = %s (must be <= 0)' % (_fl(d[:N] + d[N:]), _fl(-rcv * V[N:]), _fl(d[:N]))
    if th == 'sign_faces_SIS_individual_based':
        i = p['i']; Y0 = V.copy(); Y0[i] = 0.0; Y1 = V.copy(); Y1[i] = 1.0
        d0 = A._dSIS_individual_based_(Y0, 0, G, nodelist, ion, trf, rcf)[i]
        d1 = A._dSIS_individual_based_(Y1, 0, G, nodelist, ion, trf, rcf)[i]
        ok = d0 >= -1e-12 and d1 <= 1e-12
        return None if ok else 'SIS individual based: dY_i = %.9g on the face Y_i = 0 (must be >= 0), %.9g on the face Y_i = 1 (must be <= 0)' % (d0, d1)
    if th == 'conserve_SIR_pair_based':
        d = A._dSIR_pair_based_(V.copy(), 0, G, nodelist, ion, trf, rcf)
        ok = _cl(d[:N] + d[N:2 * N], -rcv * V[N:2 * N]) and all(x <= 1e-12 for x in d[:N])
        return None if ok else 'dX+dY = %s but -gamma_i*Y_i = %s; dX = %s (must be <= 0)' % (_fl(d[:N] + d[N:2 * N]), _fl(-rcv * V[N:2 * N]), _fl(d[:N]))
    if th.startswith('tau0_'):
        fn = getattr(A, p['fn'])
        d = fn(V.copy(), 0, G, nodelist, ion, (lambda u, v: 0.0), rcf)
        if p['fn'] == '_dSIS_individual_based_' or p['fn'] == '_dSIS_pair_based_':
            ok = _cl(d[:N], -rcv * V[:N]); want = 'dY = -gamma_i*Y_i = %s' % _fl(-rcv * V[:N]); got = d[:N]
        else:
            ok = _cl(d[:N], np.zeros(N)) and _cl(d[N:2 * N], -rcv * V[N:2 * N]); want = 'dX = 0, dY = %s' % _fl(-rcv * V[N:2 * N]); got = d[:2 * N]
        return None if ok else 'tau=0: %s gives %s, expected %s' % (p['fn'], _fl(got), want)
    if th == 'gamma0_individual_based':
        zero = lambda u: 0.0
        Y = V[:N]
        s = A._dSIS_individual_based_(Y.copy(), 0, G, nodelist, ion, trf, zero)
        r = A._dSIR_individual_based_(np.concatenate((1 - Y, Y)), 0, G, nodelist, ion, trf, zero)
        ok = _cl(s, r[N:]) and _cl(r[:N], -s)
        return None if ok else 'gamma=0 at X=1-Y: SIS dY = %s, SIR (dX, dY) = %s' % (_fl(s), _fl(r))
    if th == 'gamma0_pair_based':
        zero = lambda u: 0.0
        W = V
        s = A._dSIS_pair_based_(W.copy(), 0, G, nodelist, ion, trf, zero)
        r = A._dSIR_pair_based_(np.concatenate((1 - W[:N], W)), 0, G, nodelist, ion, trf, zero)
        ok = _cl(s, r[N:]) and _cl(r[:N], -s[:N])
        return None if ok else 'gamma=0 at X=1-Y: SIS (dY,dXY,dXX) = %s, SIR (dX,dY,dXY,dXX) = %s' % (_fl(s), _fl(r))
    if th.startswith('lump_'):
        tau, g = _f(p['tau']), _f(p['gamma']); d = p['d']
        trc = lambda u, v: tau; rcc = lambda u: g
        Adj = np.zeros((N, N))
        for u in G.nodes():
            for v in G.neighbors(u):
                Adj[ion[u], ion[v]] = 1.0
        if th == 'lump_SIS_individual_based':
            y = _f(p['y']); D = A._dSIS_individual_based_(np.full(N, y), 0, G, nodelist, ion, trc, rcc)
            sm = A._dSIS_homogeneous_meanfield_(np.array([N * (1 - y), N * y]), 0, d / N, tau, g)
            ok = _cl(D, np.full(N, tau * d * (1 - y) * y - g * y)) and _cl([-D.sum(), D.sum()], sm)
            return None if ok else 'individual-based SIS on a %d-regular graph, uniform Y=%g: dY = %s, aggregated (%.9g, %.9g); homogeneous mean-field with n=d: %s' % (d, y, _fl(D), -D.sum(), D.sum(), _fl(sm))
        if th == 'lump_SIR_individual_based':
            x, y = _f(p['x']), _f(p['y'])
            D = A._dSIR_individual_based_(np.concatenate((np.full(N, x), np.full(N, y))), 0, G, nodelist, ion, trc, rcc)
            sm = A._dSIR_homogeneous_meanfield_(np.array([N * x, N * y]), 0, d / N, tau, g)
            ok = _cl(D[:N], np.full(N, -tau * d * x * y)) and _cl(D[N:], np.full(N, tau * d * x * y - g * y)) and _cl([D[:N].sum(), D[N:].sum()], sm)
            return None if ok else 'individual-based SIR on a %d-regular graph, uniform (X,Y)=(%g,%g): aggregated (%.9g, %.9g); homogeneous mean-field with n=d: %s' % (d, x, y, D[:N].sum(), D[N:].sum(), _fl(sm))
        junk = np.array([_f(z) for z in p['junk']]).reshape(2, N, N)          # non-edge cells: never read
        pp, q = _f(p['p']), _f(p['q'])
        XY = np.where(Adj > 0, pp, junk[0]); XX = np.where(Adj > 0, q, junk[1])
        if th == 'lump_SIR_pair_based':
            x, y = _f(p['x']), _f(p['y'])
            Vv = np.concatenate((np.full(N, x), np.full(N, y), XY.ravel(), XX.ravel()))
            D = A._dSIR_pair_based_(Vv, 0, G, nodelist, ion, trc, rcc)
            dXY = D[2 * N:2 * N + N * N].reshape(N, N); dXX = D[2 * N + N * N:].reshape(N, N)
            Phi = [D[:N].sum(), D[N:2 * N].sum(), (dXY * Adj).sum(), (dXX * Adj).sum()]
            sm = A._dSIR_homogeneous_pairwise_(np.array([N * x, N * y, N * d * pp, N * d * q]), 0, float(d), tau, g)
            sym = _cl(dXY[Adj > 0], np.full(int(Adj.sum()), dXY[Adj > 0][0])) and _cl(dXY[Adj == 0], 0 * dXY[Adj == 0]) and _cl(D[:N], np.full(N, D[0]))
            ok = sym and _cl(Phi, sm)
            return None if ok else 'pair-based SIR on a %d-regular graph at a symmetric state: aggregated field %s (symmetric: %s), homogeneous pairwise with n=d: %s' % (d, _fl(Phi), sym, _fl(sm))
        y = _f(p['y'])
        Vv = np.concatenate((np.full(N, y), XY.ravel(), XX.ravel()))
        D = A._dSIS_pair_based_(Vv, 0, G, nodelist, ion, trc, rcc)
        dXY = D[N:N + N * N].reshape(N, N); dXX = D[N + N * N:].reshape(N, N)
        Phi = [-D[:N].sum(), (dXY * Adj).sum(), (dXX * Adj).sum()]
        sm = A._dSIS_homogeneous_pairwise_(np.array([N * (1 - y), N * d * pp, N * d * q]), 0, float(N), float(d), tau, g)
        sym = _cl(dXY[Adj > 0], np.full(int(Adj.sum()), dXY[Adj > 0][0])) and _cl(dXY[Adj == 0], 0 * dXY[Adj == 0])
        ok = sym and _cl(Phi, sm)
        return None if ok else 'pair-based SIS on a %d-regular graph at a symmetric state: aggregated field %s (symmetric: %s), homogeneous pairwise with n=d: %s' % (d, _fl(Phi), sym, _fl(sm))
    return 'unknown theorem ' + th


# ---------------------------------------------------------------- class level ---
def spec_class(EoN, p):
    import numpy as np
    A = EoN.analytic
    th = p['theorem']
    tau, g = _f(p.get('tau', 0)), _f(p.get('gamma', 0))
    fl = lambda l: np.array([_f(x) for x in l])
    if th in ('conserve_SIR_heterogeneous_pairwise', 'symmetry_heterogeneous_pairwise', 'tau0_heterogeneous_pairwise', 'gamma0_heterogeneous_pairwise'):
        Ks = np.array(p['Ks']); K = len(Ks)
        Sk, Ik, M, Nk, NkNl = fl(p['Sk']), fl(p['Ik']), fl(p['M']), fl(p['Nk']), fl(p['NkNl']).reshape(K, K)
        Xs = np.concatenate((Sk, M)); Xr = np.concatenate((Sk, Ik, M))
        if th == 'tau0_heterogeneous_pairwise':
            tau = 0.0
        if th == 'gamma0_heterogeneous_pairwise':
            g = 0.0
        s = A._dSIS_heterogeneous_pairwise_(Xs.copy(), 0, Nk, NkNl, tau, g, Ks)
        r = A._dSIR_heterogeneous_pairwise_(Xr.copy(), 0, tau, g, Nk, Ks)
        if th == 'conserve_SIR_heterogeneous_pairwise':
            ok = _cl(r[:K] + r[K:2 * K], -g * Ik) and all(x <= 1e-12 for x in r[:K])
            return None if ok else 'SIR heterogeneous pairwise: dSk+dIk = %s but -gamma*Ik = %s; dSk = %s (must be <= 0)' % (_fl(r[:K] + r[K:2 * K]), _fl(-g * Ik), _fl(r[:K]))
        if th == 'symmetry_heterogeneous_pairwise':
            a = s[K:K + K * K].reshape(K, K); b = r[2 * K:2 * K + K * K].reshape(K, K)
            ok = _cl(a, a.T) and _cl(b, b.T)
            return None if ok else 'dSkSl is not symmetric: SIS %s, SIR %s' % (_fl(a), _fl(b))
        if th == 'tau0_heterogeneous_pairwise':
            ok = _cl(s[:K], g * (Nk - Sk)) and _cl(r[:K], np.zeros(K)) and _cl(r[K:2 * K], -g * Ik)
            return None if ok else 'tau=0: SIS dSk = %s (expected gamma*Ik = %s); SIR dSk = %s, dIk = %s (expected 0, %s)' % (_fl(s[:K]), _fl(g * (Nk - Sk)), _fl(r[:K]), _fl(r[K:2 * K]), _fl(-g * Ik))
        ok = _cl(s[:K], r[:K]) and _cl(s[K:], r[2 * K:])
        return None if ok else 'gamma=0: SIS (dSk,dSkSl,dSkIl) = %s, SIR = %s' % (_fl(s), _fl(np.concatenate((r[:K], r[2 * K:]))))
    if th == 'pair_count_SIS_heterogeneous_pairwise':
        Ks = np.array(p['Ks']); K = len(Ks)
        SkSl = fl(p['SkSl']).reshape(K, K); SkSl = SkSl + SkSl.T
        SkIl = fl(p['SkIl']).reshape(K, K); IkIl = fl(p['IkIl']).reshape(K, K); IkIl = IkIl + IkIl.T
        Sk = (SkSl + SkIl).sum(1) / Ks; Ik = (SkIl.T + IkIl).sum(1) / Ks
        Nk = Sk + Ik; NkNl = SkSl + SkIl + SkIl.T + IkIl
        X = np.concatenate((Sk, SkSl.ravel(), SkIl.ravel()))
        d = A._dSIS_heterogeneous_pairwise_(X.copy(), 0, Nk, NkNl, tau, g, Ks)
        lhs = (d[K:K + K * K].reshape(K, K) + d[K + K * K:].reshape(K, K)).sum(1)
        return None if _cl(lhs, Ks * d[:K]) else 'at a consistent state sum_l(dSkSl+dSkIl) = %s but k*dSk = %s' % (_fl(lhs), _fl(Ks * d[:K]))
    if th == 'single_class_heterogeneous_pairwise':
        S, I, SS, SI, N, k = (_f(p[x]) for x in ('S', 'I', 'SS', 'SI', 'N', 'k'))
        Ks = np.array([p['k_int']]) if 'k_int' in p else np.array([k])
        s = A._dSIS_heterogeneous_pairwise_(np.array([S, SS, SI]), 0, np.array([N]), np.array([[N * k]]), tau, g, Ks)
        hs = A._dSIS_homogeneous_pairwise_(np.array([S, SI, SS]), 0, N, k, tau, g)
        r = A._dSIR_heterogeneous_pairwise_(np.array([S, I, SS, SI]), 0, tau, g, np.array([N]), Ks)
        hr = A._dSIR_homogeneous_pairwise_(np.array([S, I, SI, SS]), 0, k, tau, g)
        ok = _cl(s, [hs[0], hs[2], hs[1]]) and _cl(r, [hr[0], hr[1], hr[3], hr[2]])
        return None if ok else 'single degree class k=%g: heterogeneous pairwise SIS %s vs homogeneous (S,SS,SI) %s; SIR %s vs %s' % (k, _fl(s), _fl([hs[0], hs[2], hs[1]]), _fl(r), _fl([hr[0], hr[1], hr[3], hr[2]]))
    if th in ('conserve_SIS_effective_degree', 'totals_SIS_effective_degree', 'tau0_effective_degree', 'gamma0_effective_degree', 'sign_SIR_effective_degree'):
        r_, c_ = p['shape']; S = fl(p['S']).reshape(r_, c_); I = fl(p['I']).reshape(r_, c_); R = _f(p['R']); N = _f(p['N'])
        if th == 'tau0_effective_degree':
            tau = 0.0
        if th == 'gamma0_effective_degree':
            g = 0.0
        ds = A._dSIS_effective_degree_(np.concatenate((S.ravel(), I.ravel())), 0, (r_, c_), tau, g)
        dr = A._dSIR_effective_degree_(np.concatenate((S.ravel(), [R])), 0, N, (r_, c_), tau, g)
        dS, dI = ds[:r_ * c_].sum(), ds[r_ * c_:].sum()
        ii = np.arange(c_)[None, :]; ss = np.arange(r_)[:, None]
        if th == 'conserve_SIS_effective_degree':
            return None if C.close(dS + dI + 1.0, 1.0, TOL) and abs(dS + dI) <= TOL * max(1.0, abs(dS)) else 'feasible state (S_si = I_si = 0 for s+i > kmax): sum dS_si = %.9g, sum dI_si = %.9g, total %.3g != 0' % (dS, dI, dS + dI)
        if th == 'totals_SIS_effective_degree':
            ISS = (ii * ss * S).sum(); SS = (ss * S).sum(); ISI = (ii * (ii - 1) * S).sum(); SI = (ii * S).sum()
            wS = -tau * SI + g * I.sum() - g * (np.arange(c_) * S[r_ - 1]).sum() - tau * ISS / SS * (np.arange(r_) * S[:, c_ - 1]).sum()
            wI = tau * SI - g * I.sum() - g * (np.arange(c_) * I[r_ - 1]).sum() - tau * (ISI / SI + 1) * (np.arange(r_) * I[:, c_ - 1]).sum()
            return None if _cl([dS, dI], [wS, wI]) else 'block totals (sum dS_si, sum dI_si) = (%.9g, %.9g), formula of sum_dS/sum_dI_SIS_effective_degree gives (%.9g, %.9g)' % (dS, dI, wS, wI)
        if th == 'tau0_effective_degree':
            dSr = dr[:-1].sum()
            ok = _cl([dS, dI], [g * I.sum(), -g * I.sum()]) and abs(dSr) <= 1e-9 * max(1.0, np.abs(dr[:-1]).max()) and _cl(dr[-1], g * (N - S.sum() - R))
            return None if ok else 'tau=0: SIS totals (%.9g, %.9g) expected (gamma*I, -gamma*I) = (%.9g, %.9g); SIR sum dS_si = %.3g (expected 0), dR = %.9g (expected %.9g)' % (dS, dI, g * I.sum(), -g * I.sum(), dSr, dr[-1], g * (N - S.sum() - R))
        if th == 'gamma0_effective_degree':
            return None if _cl(ds[:r_ * c_], dr[:-1]) else 'gamma=0: SIS dS_si = %s, SIR dS_si = %s' % (_fl(ds[:r_ * c_]), _fl(dr[:-1]))
        ok = _cl(dr[-1], g * (N - S.sum() - R)) and dr[:-1].sum() <= 1e-9
        return None if ok else 'SIR effective degree: dR = %.9g (gamma*(N-S-R) = %.9g), sum dS_si = %.9g (must be <= 0 on a feasible state)' % (dr[-1], g * (N - S.sum() - R), dr[:-1].sum())
    return 'unknown theorem ' + th


def spec_edge(EoN, p):
    """pair-based SIR on the single edge a - b against the 9-state master equation, at an arbitrary p"""
    import numpy as np, networkx as nx
    A = EoN.analytic
    t01, t10, g0, g1 = (_f(p[x]) for x in ('t01', 't10', 'g0', 'g1'))
    SS, SI, SR, IS, II, IR, RS, RI, RR = (_f(x) for x in p['p'])
    G = nx.Graph(); a, b = p['labels']; G.add_edge(a, b)
    nodelist = [a, b]; ion = {a: 0, b: 1}
    trf = lambda u, v: t01 if u == a else t10
    rcf = lambda u: g0 if u == a else g1
    def marg(SS, SI, SR, IS, II, IR, RS, RI, RR):
        return np.array([SS + SI + SR, SS + IS + RS, IS + II + IR, SI + II + RI, 0, SI, IS, 0, 0, SS, SS, 0], dtype=float)
    master = (0.0, -(t01 + g1) * SI, g1 * SI, -(t10 + g0) * IS, t10 * IS + t01 * SI - (g0 + g1) * II, g1 * II - g0 * IR, g0 * IS, g0 * II - g1 * RI, g0 * IR + g1 * RI)
    d = A._dSIR_pair_based_(marg(SS, SI, SR, IS, II, IR, RS, RI, RR), 0, G, nodelist, ion, trf, rcf)
    want = marg(*master)
    return None if _cl(d, want) else 'single edge: pair-based field at the marginals of p = %s, marginals of the master equation = %s' % (_fl(d), _fl(want))


def case_spec(EoN, p):
    import numpy as np
    with np.errstate(all='ignore'):
        if p['theorem'] == 'pair_based_single_edge':
            return spec_edge(EoN, p)
        if 'n' in p:
            return spec_node(EoN, p)
        return spec_class(EoN, p)


# ---------------------------------------------------------------- generators ----
def _d(rng, lo=1, hi=64, den=8):
    return str(L2.dy(rng, lo, hi, den))


def _prob(rng):
    return str(F(rng.randint(1, 15), 16))


def _hp_point(rng):
    K = rng.randint(1, 4); ks = sorted(rng.sample(range(1, 9), K))
    v = lambda k: [_d(rng) for _ in range(k)]
    return {'Ks': ks, 'Sk': v(K), 'Ik': v(K), 'M': v(2 * K * K), 'Nk': v(K), 'NkNl': v(K * K), 'tau': _d(rng, 1, 24, 8), 'gamma': _d(rng, 1, 24, 8)}


def _ed_point(rng, feasible):
    r = rng.randint(2, 4); c = r if feasible or rng.random() < 0.5 else rng.randint(2, 4)
    def arr():
        a = [[_d(rng) for _ in range(c)] for _ in range(r)]
        if feasible:
            a = [[a[s][i] if s + i < r else '0' for i in range(c)] for s in range(r)]
        return [x for row in a for x in row]
    return {'shape': [r, c], 'S': arr(), 'I': arr(), 'R': _d(rng), 'N': _d(rng, 640, 6400, 8), 'tau': _d(rng, 1, 24, 8), 'gamma': _d(rng, 1, 24, 8)}


def spec_points(rng, prop, n):
    out = []
    for _ in range(n):
        if prop == 'C06':
            for fn, th in (('_dSIR_individual_based_', 'conserve_SIR_individual_based'), ('_dSIR_pair_based_', 'conserve_SIR_pair_based')):
                out.append(dict(L2.gen_node_point(rng, fn), theorem=th))
            q = L2.gen_node_point(rng, '_dSIS_individual_based_'); out.append(dict(q, theorem='sign_faces_SIS_individual_based', i=rng.randrange(q['n'])))
            out.append(dict(_hp_point(rng), theorem='conserve_SIR_heterogeneous_pairwise'))
            out.append(dict(_hp_point(rng), theorem='symmetry_heterogeneous_pairwise'))
            K = rng.randint(1, 3); v = lambda k: [_d(rng) for _ in range(k)]
            out.append({'theorem': 'pair_count_SIS_heterogeneous_pairwise', 'Ks': sorted(rng.sample(range(1, 7), K)), 'SkSl': v(K * K), 'SkIl': v(K * K), 'IkIl': v(K * K),
                        'tau': _d(rng, 1, 24, 8), 'gamma': _d(rng, 1, 24, 8)})
            out.append(dict(_ed_point(rng, True), theorem='conserve_SIS_effective_degree'))
            out.append(dict(_ed_point(rng, False), theorem='totals_SIS_effective_degree'))
            out.append(dict(_ed_point(rng, True), theorem='sign_SIR_effective_degree'))
        elif prop == 'C07':
            for fn, th in (('_dSIS_individual_based_', 'lump_SIS_individual_based'), ('_dSIR_individual_based_', 'lump_SIR_individual_based'),
                           ('_dSIS_pair_based_', 'lump_SIS_pair_based'), ('_dSIR_pair_based_', 'lump_SIR_pair_based')):
                q = regular_point(rng, fn); N = q['n']
                q.update(theorem=th, fn=fn, tau=_d(rng, 1, 24, 8), gamma=_d(rng, 1, 24, 8), x=_prob(rng), y=_prob(rng), p=_prob(rng), q=_prob(rng),
                         junk=[_prob(rng) for _ in range(2 * N * N)], tr={}, rc=['1'] * N, V=[])
                out.append(q)
            k = rng.randint(1, 8)
            out.append({'theorem': 'single_class_heterogeneous_pairwise', 'S': _d(rng), 'I': _d(rng), 'SS': _d(rng), 'SI': _d(rng), 'N': _d(rng, 64, 640, 8), 'k': str(k), 'k_int': k,
                        'tau': _d(rng, 1, 24, 8), 'gamma': _d(rng, 1, 24, 8)})
        else:
            for fn in L2.NODE:
                out.append(dict(L2.gen_node_point(rng, fn), theorem='tau0_' + fn.strip('_')))
            out.append(dict(L2.gen_node_point(rng, '_dSIS_individual_based_'), theorem='gamma0_individual_based'))
            out.append(dict(L2.gen_node_point(rng, '_dSIS_pair_based_'), theorem='gamma0_pair_based'))
            out.append(dict(_hp_point(rng), theorem='tau0_heterogeneous_pairwise'))
            out.append(dict(_hp_point(rng), theorem='gamma0_heterogeneous_pairwise'))
            out.append(dict(_ed_point(rng, True), theorem='tau0_effective_degree'))
            out.append(dict(_ed_point(rng, False), theorem='gamma0_effective_degree'))
            out.append({'theorem': 'pair_based_single_edge', 'labels': rng.choice([['a', 'b'], [0, 1], [7, 3]]), 't01': _d(rng, 1, 24, 8), 't10': _d(rng, 1, 24, 8),
                        'g0': _d(rng, 1, 24, 8), 'g1': _d(rng, 1, 24, 8), 'p': [str(F(rng.randint(0, 16), 64)) for _ in range(9)]})
    return out


def run_specs(EoN, rng, prop, n):
    """-> (n_eval, [(theorem, point, failure)])"""
    fails = []; pts = spec_points(rng, prop, n)
    for p in pts:
        try:
            res = case_spec(EoN, p)
        except Exception as e:
            res = 'CRASH %s: %s' % (type(e).__name__, str(e)[:120])
        if res:
            fails.append((p['theorem'], p, res))
    return len(pts), fails


# ---------------------------------------------------------------- shared block of C06 / C07 / C08 ----
RULE = ('RHS2 TIE (every run): translate/rhs2d2v.py (fail-closed) re-emits coq/Gen/Rhs2.v from the 8 node-level / 2-D right-hand sides (_dSIS/_dSIR_individual_based_, _pair_based_, '
        '_heterogeneous_pairwise_, _effective_degree_) and Props re-prove generated = hand-written model (Model/Rhs2D.v); both the generated and the hand-written definitions are extracted and '
        'evaluated against the Python functions at random dyadic points, rel 1e-9: random simple graphs on 2-6 nodes (2-4 for the pair-based '
        'systems; complete / ring / random edge sets, int / str / tuple / offset labels, shuffled nodelist with index_of_node = enumerate(nodelist)), direction-dependent '
        'transmission rates and node-dependent recovery rates (8% all-zero), probabilities in (0,1) with boundary values X_i = 0 / Y_i = 1 in 25% of the pair-based points; '
        '1-4 degree classes with Ks a random increasing subset of 0..8 and a zero S_k in 20% of the points; array shapes (r, c) in 1..4 (60% square) with 15% zero cells. '
        'Each theorem about these systems is re-evaluated numerically on the Python functions (the failing-input search of the clause).')


def regen_phase():
    """re-run translate/rhs2d2v.py on the working tree (BEFORE the Props file is compiled: Props/C06-C08.v state that the
    generated definitions equal the hand-written models).  -> None | the translator's refusal"""
    try:
        L2.regen()
        return None
    except L2.Rhs2Refused as e:
        return 'translate/rhs2d2v.py refuses the current EoN/analytic.py: %s' % e
    except Exception as e:
        return 'translate/rhs2d2v.py failed: %s: %s' % (type(e).__name__, str(e)[:300])


REFUSED_PROPS = lambda err: {'ok': False, 'theorems': [], 'axioms': {}, 'log': err, 'failed_at': None}


def check_block(run, EoN, prop, tier, report, regen_err=None):
    """model build + point-evaluation ties (hand-written model AND generated definitions) + numerical theorem specs for the
    2-D / node-level systems.  report(run, key, what, replay, no_input=False) -> truthy when a new violation was recorded."""
    import random
    rng = random.Random(repr((run.seed, prop, 'rhs2')))
    thorough = tier == 'thorough'
    out = {'n_eval': 0, 'n_distinct': 0, 'samples': [], 'dist': {}, 'broken': [], 'found': 0}
    if regen_err:
        out['broken'].append(('rhs2-translator', regen_err + ' (the theorems "generated definition = hand-written model" are not re-established)'))
    ok, log = L2.build()
    if not ok:
        out['broken'].append(('rhs2-model-build', 'Model/Rhs2D.v / its extracted driver does not build: ' + log[-300:].replace('\n', ' ')))
    else:
        tie = L2.point_check(EoN, rng, 1500 if thorough else 220)
        out['n_eval'] += tie['n']; out['n_distinct'] += tie['distinct']; out['samples'] += tie['samples'][:1]
        out['dist']['rhs2_points_agreeing_per_function'] = tie['per_fn']
        out['dist']['rhs2_points_agreeing_per_function_generated'] = tie['gen_per_fn']
        if tie['gen_mism'] and not regen_err:
            m = tie['gen_mism'][0]
            out['broken'].append(('rhs2-generated-tie', 'the definition generated by translate/rhs2d2v.py and the code disagree at a point (translator / numpy semantics): %s point=%s python=%s generated=%s (%d of %d points)'
                                  % (m[0], json_short(m[1]), short_list(m[2]), short_list(m[3]), len(tie['gen_mism']), tie['n'])))
        if tie['mism']:
            m = tie['mism'][0]
            out['broken'].append(('rhs2-tie', 'hand-written model Model/Rhs2D.v and the code disagree at a point: %s point=%s python=%s model=%s (%d of %d points)'
                                  % (m[0], json_short(m[1]), short_list(m[2]), short_list(m[3]), len(tie['mism']), tie['n'])))
    n, fails = run_specs(EoN, rng, prop, 60 if thorough else 12)
    out['n_eval'] += n; out['n_distinct'] += n
    out['dist']['rhs2_theorem_points'] = n
    seen = set()
    for th, p, res in fails:
        key = '%s/rhs2/%s%s' % (prop, th, '/crash' if res.startswith('CRASH') else '')
        if key in seen:
            continue
        seen.add(key)
        if report(run, key, 'the statement of theorem %s (Props/%s.v, 2-D / node-level systems) fails on the Python right-hand side: %s' % (th, prop, res),
                  {'kind': 'rhs2_spec', 'params': p, 'detail': res, 'also_broken': [b[0] for b in out['broken']]}):
            out['found'] += 1
    return out


def short_list(x):
    if isinstance(x, str):
        return x[:200]
    return [round(float(v), 9) for v in list(x)[:10]]


def json_short(p):
    import json
    s = json.dumps(p, default=str)
    return s if len(s) < 700 else s[:700] + '...'
