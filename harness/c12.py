"""C12: discrete-time simulators follow generation-by-generation Reed-Frost dynamics.
Theorems: coq/Props/C12.v over the executable model coq/Model/Discrete.v (discrete_SIR with
an arbitrary transmission rule / recovery test / iteration-order oracle, basic_discrete_SIR,
basic_discrete_SIS, percolate_network, percolation_based_discrete_SIR).  Tie: the extracted
model and /repo's working tree are run on the same tables of Bernoulli outcomes (keyed by
contact, so that Python's set iteration order does not matter), exhaustively on small graphs
and on random larger ones; the p-based functions are additionally replayed draw by draw in
the iteration order the implementation was observed to use (exact trace incl. the threshold
p of every random.random() call and the candidates of every random.choice).  Failing-input
search: plain BFS over the table of successful contacts + reconstruction of the step law
from the implementation's own queries (independent of the Coq model)."""
import itertools, json, re
from fractions import Fraction as F
from . import common as C
from . import simrun as R
from . import sim_check as SC
from . import disc_lib as L

CLAIM_MORE = 'ALSO PROVED over the distribution semantics `law` (coq/Props/C12law.v, 37 statements; the deferred-decision step is no longer cited): for every event on the output, the law of a whole run of basic_discrete_SIR equals the law of flipping one coin per arc first and then running the deterministic simulator on the percolated digraph; the run returns with probability 1; final size = out-component of the initial nodes; percolation-based and basic agree in law on rows and node histories; basic_discrete_SIS = one coin per (step, arc); the generation sequence is the Reed-Frost / discrete-SIS Markov chain stopped by the loop condition. C12rec.v (recovery test), C12ord.v (iteration-order independence), C12sis.v.'

CLAIM = dict(
    text="Machine-checked theorems (coq/Props/C12.v) over an executable model of the discrete-time simulators written as the code is "
         "(set iteration order as an explicit oracle): for every transmission rule that is a function of the contact, every graph, initial sets, "
         "horizon and iteration order, discrete_SIR infects v exactly at tmin + breadth-first distance in the digraph of successful contacts "
         "(initially recovered nodes removed), keeps it infectious one step, conserves S+I+R=N, and its outputs do not depend on the iteration order; "
         "with Bernoulli(p) coins the one-step law of basic_discrete_SIR / basic_discrete_SIS is the Reed-Frost / discrete-SIS product formula; "
         "percolate_network keeps each edge independently with probability p on the same node set; on a common symmetric table of coins "
         "percolation_based_discrete_SIR and basic_discrete_SIR return the same rows and histories (deferred decisions, pathwise). "
         "The deferred-decision lift is proved too (coq/Props/C12law.v, over the `law` semantics of Base/Samp.v): for every graph, initial sets, horizon, iteration order, p and EVERY event on "
         "the whole output, the law of a whole run of basic_discrete_SIR (one fresh coin per tested contact) equals the law of flipping one coin per arc first and then running the "
         "deterministic simulator (= BFS generations of the percolated digraph), in both return modes; total mass 1 (both modes); final size = out-component of I0 in the percolated digraph; "
         "percolation_based_discrete_SIR (one coin per undirected edge) and basic_discrete_SIR agree in law on every event of the rows and node histories (both modes); basic_discrete_SIS = one coin per (step, arc). "
         "Chain form (C12_chain_law, C12_sis_chain_law): the law of the sequence of generation sets of a whole run is that of the Reed-Frost / discrete-SIS Markov chain (product of the one-step factors) stopped by the loop condition. "
         "Deterministic skeleton of basic_discrete_SIS (coq/Props/C12sis.v): under a step-indexed table the run is the generation sequence J_{k+1} = {v not in J_k with a successful contact from J_k at step k}, rows, histories, fuel. "
         "Order independence (coq/Props/C12ord.v): with or without a recovery test and for basic_discrete_SIS, any two iteration orders of the Python sets give the same rows, the same node histories and the same transmissions up to the order of the entries of one step. "
         "Tie: extracted model vs /repo on the same contact tables, exhaustively over all Bernoulli outcomes on small graphs, plus draw-by-draw replay of the p-based functions.",
    design='DESIGN.md section 4, C12',
    technique='Coq proof (BFS characterisation by induction over generations, product law by induction over the contact list) + extracted-model/implementation correspondence + independent BFS oracle',
    note="random.random uniform on [0,1), random.choice/sample uniform and independent draws are assumed (DESIGN 2.3). Equality in law of percolation_based_discrete_SIR "
         "and basic_discrete_SIR (deferred decisions) is proved for every event of the rows and node histories, both return modes (C12_perc_basic_hist_law); the joint law of the transmission lists "
         "(which infector random.choice names) is not compared. Pathwise equality on a common table of coins (C12_perc_sir_pathwise) is also checked dynamically. "
         "The BFS theorem is proved for test_recovery=None (C12_dsir_bfs) and WITH a user recovery test for table rules that are functions of the pair (coq/Props/C12rec.v: "
         "C12rec_dsir_bfs -- same S column / infection times = BFS distances, infectious until the test first succeeds, S+I+R=N, node histories; every fuel: returns iff the stop index is within the fuel), "
         "initial_infecteds given; rules that depend on the age of the source under a recovery test are covered by Props/C04disc.v / C09disc.v / C10disc.v (every rule, every draw script: what such runs are) and by the correspondence; "
         "the rho path: Props/C05disc.v (a rho run is a run from an explicit duplicate-free set). The draw-by-draw replay of the default-rule program is limited to runs with at most 10 uniform draws "
         "(the extracted sampler tree is strict in both branches of every Flip). "
         "Domain: simple graphs, duplicate-free disjoint initial sets inside the graph, integer horizons (tmax - tmin integer) for the history clauses.")

MODEL = 'Model/Discrete.v'
PROPS = 'Props/C12.v'


# ------------------------------------------------------------ exhaustive ----
def small_case(rng, kind, n, edges, directed, tt, i0, r0, full, tmax_steps=None, cap=1, rec=None, pick=(0, 0, 0), rule='table'):
    labels = R.make_labels(rng, n)
    gc = R.graph_from_edges(n, edges, labels, directed=directed)
    arcs = L.arcs_of(gc)
    allt = {(u, v, a) for (u, v) in arcs for a in range(cap)}
    ps = [F(1, 2), F(1, 4), F(3, 4)]
    if not tt: ps.append(F(0))
    if tt == allt: ps.append(F(1))
    tmin = F(rng.choice([0, 0, 5, -3]), rng.choice([1, 2]))
    return {'kind': kind, 'gc': gc, 'full': full, 'tmin': tmin, 'rho': None,
            'tmax': None if tmax_steps is None else tmin + tmax_steps,
            'r0': None if r0 is None else [labels[i] for i in r0], 'i0': [labels[i] for i in i0],
            'i0_form': rng.choice(['list', 'tuple', 'set'] + (['single'] if len(i0) == 1 else [])),
            'rec': rec, 'rule': rule, 'order': None, 'pick': pick, 'cap': cap, 'tt': tt, 'p': rng.choice(ps)}


def exhaustive(rng, nmax, tier):
    """all labelled graphs on <= nmax nodes x every table of Bernoulli outcomes over the contacts
    x initial sets (and a removed node) -- every outcome of the coins"""
    out = []
    flip = 0
    for n in range(1, nmax + 1):
        for directed in (False, True):
            if directed and n > 3: continue
            for edges in R.all_graphs(n, directed):
                arcs = sorted(set(edges) | (set() if directed else {(b, a) for a, b in edges}))
                if n <= 3:
                    inits = [c for k in (1, 2) for c in itertools.combinations(range(n), k)]
                else:
                    inits = [(0,), (1,), (3,), (0, 2)]
                # SIR family: one coin per ordered contact
                for mask in range(1 << len(arcs)):
                    tt = {(arcs[i][0], arcs[i][1], 0) for i in range(len(arcs)) if mask >> i & 1}
                    for i0 in inits:
                        flip += 1
                        rest = [x for x in range(n) if x not in i0]
                        r0 = [rest[flip % len(rest)]] if rest and flip % 3 == 0 else None
                        full = flip % 2 == 0
                        kind = ('DSIR', 'BSIR')[flip % 2] if n <= 3 or flip % 4 else 'DSIR'
                        out.append(small_case(rng, kind, n, edges, directed, tt, i0, r0, full,
                                              tmax_steps=None if flip % 5 else 1 + flip % 3,
                                              pick=(flip % 3, 0, flip % 2), rule=('table', 'default')[flip % 7 == 0]))
                if directed: continue
                # percolation: one coin per undirected edge
                for mask in range(1 << len(edges)):
                    tt = set()
                    for i, (a, b) in enumerate(edges):
                        if mask >> i & 1: tt |= {(a, b, 0), (b, a, 0)}
                    for i0 in inits[:3]:
                        flip += 1
                        out.append(small_case(rng, 'PSIR', n, edges, False, tt, i0, None, flip % 2 == 0, pick=(flip % 3, 0, 1)))
                # SIS: two steps, a coin per ordered contact and step
                if n <= 3:
                    keys = [(a, b, s) for (a, b) in arcs for s in (0, 1)]
                    masks = range(1 << len(keys)) if len(keys) <= 8 or tier != 'quick' else [rng.getrandbits(len(keys)) for _ in range(256)]
                    for mask in masks:
                        tt = {keys[i] for i in range(len(keys)) if mask >> i & 1}
                        for i0 in inits[:4]:
                            flip += 1
                            out.append(small_case(rng, 'SIS', n, edges, False, tt, i0, None, flip % 2 == 0, tmax_steps=2, cap=2, pick=(flip % 2, 1, 1)))
    return out


# ------------------------------------------------------ draw-by-draw replay ----
def observed_order(case, impl):
    """iteration order of the set `infecteds` at every step, read off the implementation's calls"""
    src = impl['rlog'] if impl['rlog'] else (impl['hlog'] if case['kind'] == 'PSIR' else impl['qlog'])
    steps = {}
    for e in src:
        l = steps.setdefault(e[0], [])
        if e[1] not in l: l.append(e[1])
    if not steps: return []
    return [steps.get(k, []) for k in range(max(steps) + 1)]


def flip_bound(case):
    """largest number of uniform draws on any path of the default-rule sampler program"""
    import math
    arcs = len(L.arcs_of(case['gc']))
    if case['kind'] in ('PERC', 'PSIR'): return arcs // 2
    if case['kind'] == 'SIS' or case.get('rec') is not None:
        if case['tmax'] is None: return 10 ** 9
        return arcs * max(1, math.ceil(case['tmax'] - case['tmin']))
    return arcs


def exact_line(case, impl):
    draws = []
    for c in impl['calls']:
        draws.append(c[-1] if c[0] != 'P' else F(c[2]))
    return L.model_line(case, 'D %d %s' % (len(draws), R.qtoks(draws)), prob=True, order=observed_order(case, impl))


def trace_with_p(raw):
    """the TRACE part of a model line with the thresholds of the uniform draws kept"""
    tr = []
    part = raw.split('| TRACE')[1] if '| TRACE' in raw else ''
    for c in part.split():
        kind, _, arg = c.partition(':')
        if kind == 'U': tr.append(('U', F(arg)))
        elif kind == 'P': tr.append(('P', [tuple(int(x) for x in k.split(',')) for k in arg.split(';') if k]))
        elif kind == 'S':
            n, _, pop = arg.partition(':'); tr.append(('S', int(n), [tuple(int(x) for x in k.split(',')) for k in pop.split(';') if k]))
        else: tr.append((kind, arg))
    return tr


def compare_exact(case, raw, impl):
    """the sampler program with the code's default rule (Flip p per test, Unif per choice), run on
    the implementation's own answers in the implementation's own iteration order, must make the
    same calls with the same arguments and return the same outputs in the same order"""
    if not raw or not raw.strip(): return 'exact replay: no output from the model driver'
    m = R.parse_model_line(raw)
    if m['status'] != 'OK': return 'exact replay: model %s %s' % (m['status'], m.get('err', m.get('raw')))
    tr = trace_with_p(raw); calls = impl['calls']
    if len(tr) != len(calls): return 'exact replay: %d calls to the random source by the implementation, %d by the model' % (len(calls), len(tr))
    for i, (a, b) in enumerate(zip(calls, tr)):
        if a[0] != b[0]: return 'exact replay: call %d is %s in the implementation, %s in the model' % (i, a[0], b[0])
        if a[0] == 'U' and b[1] != case['p']: return 'exact replay: call %d threshold %s in the model, p=%s' % (i, b[1], case['p'])
        if a[0] == 'P' and a[1] != b[1]: return 'exact replay: call %d candidates %r vs model %r' % (i, a[1], b[1])
        if a[0] == 'S' and (a[1] != b[1] or a[2] != b[2]): return 'exact replay: call %d sample %r vs model %r' % (i, a[1:3], b[1:])
    if case['kind'] == 'PERC':
        return L.compare(case, m, impl)
    if 'hist' in m:
        d = R.hist_equal(impl['hist'], m['hist']) or R.trans_equal(impl['trans'], m['trans'])
        if d: return 'exact replay: ' + d
    else:
        d = R.rows_equal(impl['rows'], m['rows'])
        if d: return 'exact replay: ' + d
    mq, mp, mr = L.parse_logs(m)
    iq = [(e[0], e[1], e[2]) for e in impl['qlog']] + [(e[0], e[1], e[2]) for e in impl['hlog']]
    if iq != mq: return 'exact replay: sequence of transmission tests %r vs model %r' % (iq, mq)
    return None


# ------------------------------------------------------------------- run ----
def nontrivial(case, m, impl):
    return m.get('status') == 'OK' and (len(m.get('rows', [])) >= 3 or case['kind'] == 'PERC')


def perc_oracle(case, impl, m=None):
    bad = []
    if impl['status'] != 'OK': return [('crash', 'percolate_network raised %s' % impl.get('err'))]
    gc = case['gc']; im = gc.idmap
    want_q = [(im[u], im[v]) for u, v in gc.G.edges()]
    if [(e[1], e[2]) for e in impl['qlog']] != want_q:
        bad.append(('queries', 'edges examined %r, edges of G %r' % (impl['qlog'], want_q)))
    if impl['nodes'] != list(range(len(gc.order))):
        bad.append(('nodes', 'node set of the percolated graph %r differs from that of G' % (impl['nodes'],)))
    kept = {frozenset((u, v)) for (u, v, a) in case['tt']} & {frozenset(e) for e in want_q}
    got = {frozenset((u, v)) for u, l in impl['adj'].items() for v in l}
    if kept != got:
        bad.append(('edges', 'kept edges %r; the coins kept %r' % (sorted(map(sorted, got)), sorted(map(sorted, kept)))))
    return bad


def gen_perc(rng, nmax):
    gc = R.gen_graph(rng, nmax=nmax)
    case = {'kind': 'PERC', 'gc': gc, 'cap': 1, 'pick': (0, 0, 0), 'i0': None, 'r0': None, 'rho': None, 'full': False,
            'tmin': F(0), 'tmax': None, 'rec': None, 'rule': 'table', 'order': None}
    case['tt'] = L.gen_table(rng, gc, 1, sym=True)
    ps = [F(1, 4), F(1, 2), F(3, 4)]
    if not case['tt']: ps += [F(0)]
    if case['tt'] == L.full_table(gc, 1): ps += [F(1)]
    case['p'] = rng.choice(ps)
    return case


def equivalences(EoN, sim, cases, res):
    """dynamic forwarding checks: basic_discrete_SIR(G,p,..) = discrete_SIR with the default rule
    on the same coins; percolation_based_discrete_SIR = basic_discrete_SIR on a common symmetric
    table of coins (the pathwise content of deferred decisions)"""
    n = 0
    for case in cases:
        if case['kind'] == 'BSIR' and case['i0'] is not None and case['rho'] is None:
            a = L.run_impl(EoN, sim, case, [])
            b = L.run_impl(EoN, sim, dict(case, kind='DSIR', rule='default', rec=None), [])
            what = 'basic_discrete_SIR vs discrete_SIR(default rule, args=(p,))'
        elif case['kind'] == 'PSIR' and case['i0'] is not None and case['rho'] is None:
            a = L.run_impl(EoN, sim, case, [])
            b = L.run_impl(EoN, sim, dict(case, kind='BSIR'), [])
            what = 'percolation_based_discrete_SIR vs basic_discrete_SIR on the same symmetric table of coins'
        else:
            continue
        n += 1
        d = None
        if a['status'] != b['status']: d = 'status %s vs %s' % (a['status'], b['status'])
        elif a['status'] == 'OK':
            d = R.rows_equal(a['rows'], b['rows']) if not isinstance(a['rows'], str) and not isinstance(b['rows'], str) else None
            if not d and 'hist' in a:
                if a['hist'] != b['hist']: d = 'histories differ: %r vs %r' % (a['hist'], b['hist'])
                elif L.sort_trans(a['trans']) != L.sort_trans(b['trans']): d = 'transmissions differ: %r vs %r' % (a['trans'], b['trans'])
        if d:
            res.oracle_bad.append((len(case['gc'].order) * 1000, 'forwarding', '%s: %s' % (what, d), L.case_json(case, [])))
    return n


def run(run, tier):
    EoN = C.import_eon()
    import EoN.simulation as sim
    rng = run.rng
    props = C.check_props('C12')
    # the deferred-decision lift (law of the whole run): Props/C12law.v joins the obligations
    xp = C.check_props('C12law')
    props['theorems'] = list(props['theorems']) + list(xp['theorems'])
    props['axioms'] = dict(props['axioms'], **xp['axioms'])
    if not xp['ok']:
        props['ok'] = False
        props['log'] = (props.get('log') or '') + ' | ' + xp['log'][-400:]
        run.violation('C12/proof/C12law', 'Props/C12law.v no longer checks: %s' % xp['log'][-400:],
                      {'broken': 'coq/Props/C12law.v', 'log': xp['log']}, no_input=True)
    # independence from the set iteration order with a recovery test, for SIS, and of the
    # transmissions (as multisets): Props/C12ord.v joins the obligations
    xo = C.check_props('C12ord')
    props['theorems'] = list(props['theorems']) + list(xo['theorems'])
    props['axioms'] = dict(props['axioms'], **xo['axioms'])
    if not xo['ok']:
        props['ok'] = False
        props['log'] = (props.get('log') or '') + ' | ' + xo['log'][-400:]
        run.violation('C12/proof/C12ord', 'Props/C12ord.v no longer checks: %s' % xo['log'][-400:],
                      {'broken': 'coq/Props/C12ord.v', 'log': xo['log']}, no_input=True)
    # runs WITH a user recovery test (age-independent table rules, any test): Props/C12rec.v joins the obligations
    xr = C.check_props('C12rec')
    props['theorems'] = list(props['theorems']) + list(xr['theorems'])
    props['axioms'] = dict(props['axioms'], **xr['axioms'])
    if not xr['ok']:
        props['ok'] = False
        props['log'] = (props.get('log') or '') + ' | ' + xr['log'][-400:]
        run.violation('C12/proof/C12rec', 'Props/C12rec.v no longer checks: %s' % xr['log'][-400:],
                      {'broken': 'coq/Props/C12rec.v', 'log': xr['log']}, no_input=True)
    # basic_discrete_SIS under table rules = the pure SIS generation sequence: Props/C12sis.v joins the obligations
    xs = C.check_props('C12sis')
    props['theorems'] = list(props['theorems']) + list(xs['theorems'])
    props['axioms'] = dict(props['axioms'], **xs['axioms'])
    if not xs['ok']:
        props['ok'] = False
        props['log'] = (props.get('log') or '') + ' | ' + xs['log'][-400:]
        run.violation('C12/proof/C12sis', 'Props/C12sis.v no longer checks: %s' % xs['log'][-400:],
                      {'broken': 'coq/Props/C12sis.v', 'log': xs['log']}, no_input=True)
    ok, log = C.build_driver('disc')
    if not ok:
        run.violation('C12/build', 'extracted model does not build: ' + log[-500:], {'log': log[-3000:]}, no_input=True)
        C.proof_coverage(run, props, 1, 0, 'build failed', [log[-300:]]); return
    quick = tier == 'quick'
    results = {k: SC.Result() for k in L.KINDS + ('PERC',)}
    stats = {}
    def bump(k, v=1): stats[k] = stats.get(k, 0) + v

    # corpus of minimised past failures
    for j in C.load_corpus('C12'):
        case = L.case_from_json(j)
        SC.run_cases(L, EoN, sim, [case], ['D %d %s' % (len(j.get('draws', [])), R.qtoks([F(x) for x in j.get('draws', [])]))],
                     oracle=L.oracle_bfs, nontrivial=nontrivial, res=results[case['kind']], label='corpus')

    # 1. exhaustive: every outcome of the coins on every small graph
    ex = exhaustive(rng, 3 if quick else 4, tier)
    for kind in L.KINDS:
        cs = [c for c in ex if c['kind'] == kind]
        SC.run_cases(L, EoN, sim, cs, ['W 1 0'] * len(cs), oracle=L.oracle_bfs, nontrivial=nontrivial, res=results[kind], label='exhaustive')
        bump('exhaustive_' + kind, len(cs))
    # the rho path: every outcome of random.sample on the small graphs
    rc = []
    for kind in L.KINDS:
        for _ in range(40 if quick else 400):
            c = L.gen_case(rng, kind, nmax=4); c['i0'] = None; c['i0_form'] = 'list'; c['r0'] = None
            c['rho'] = rng.choice([None, F(1, 4), F(1, 2), F(3, 4), F(1), F(3, 8), F(5, 4)])
            rc.append(c)
    for kind in L.KINDS:
        cs = [c for c in rc if c['kind'] == kind]
        SC.run_cases(L, EoN, sim, cs, ['A 50 40 0'] * len(cs), oracle=L.oracle_bfs, nontrivial=nontrivial, res=results[kind], label='rho_all_samples')

    # 2. random tables on larger graphs
    nrand = 1500 if quick else 20000
    rand_cases = {}
    for kind in L.KINDS:
        cs = [L.gen_case(rng, kind, nmax=10 if i % 2 else 7, malformed=(i % 40 == 0)) for i in range(nrand)]
        rand_cases[kind] = cs
        SC.run_cases(L, EoN, sim, cs, ['W ' + R.ent_tokens(rng, 6) for _ in cs], oracle=L.oracle_bfs, nontrivial=nontrivial, res=results[kind], label='random')
        for c in cs:
            bump('full' if c['full'] else 'arrays'); bump('nodes_%d' % len(c['gc'].order))
            bump('directed' if c['gc'].G.is_directed() else 'undirected')
            if c.get('rec'): bump('with_test_recovery')
            if c['r0']: bump('with_initial_recovereds')
            if c['tmax'] is not None and not L.integer_horizon(c): bump('non_integer_horizon')
            if c['kind'] == 'DSIR' and c['rule'] == 'default': bump('discrete_SIR_default_rule')
    pc = [gen_perc(rng, 8) for _ in range(500 if quick else 8000)]
    SC.run_cases(L, EoN, sim, pc, ['W 1 0'] * len(pc), oracle=perc_oracle, nontrivial=nontrivial, res=results['PERC'], label='random')

    # 3. draw-by-draw replay of the sampler program with the default rule, in the observed order
    n_exact = 0
    todo = []
    pool = [c for c in ex if c['kind'] != 'DSIR' or c['rule'] == 'default'][:: (7 if quick else 11)]
    for kind in L.KINDS:
        pool += [c for c in rand_cases[kind] if (kind != 'DSIR' or c['rule'] == 'default') and not (c['rho'] is not None and c['i0'] is not None)]
    pool += pc
    for c in pool:
        draws = []
        if c['i0'] is None and c['kind'] != 'PERC':
            draws = [F(rng.randrange(len(c['gc'].order)))]
        impl = L.run_impl(EoN, sim, c, draws)
        if impl['status'] != 'OK': continue
        # the sampler tree of the default rule has a strict Flip node per test: the extracted
        # (call-by-value) program is exponential in the number of tests, so only short runs are replayed
        if flip_bound(c) > 10: continue
        todo.append((c, impl, draws))
    outs = C.run_model([exact_line(c, impl) for c, impl, _ in todo], L.COMP)
    for (c, impl, draws), raw in zip(todo, outs):
        n_exact += 1
        d = compare_exact(c, raw, impl)
        if d:
            results[c['kind']].mism.append((len(c['gc'].order) * 1000 + len(impl['calls']), d, L.case_json(c, draws)))
    bump('exact_replays', n_exact)

    # 4. forwarding / deferred decisions, dynamically
    for kind in ('BSIR', 'PSIR'):
        bump('equivalence_pairs', equivalences(EoN, sim, rand_cases[kind] + [c for c in ex if c['kind'] == kind][::5], results[kind]))

    total = 0; distinct = 0; nontriv = 0; samples = []; mism = 0; obad = 0
    for kind, res in results.items():
        SC.report(run, 'C12', L.ENTRY[kind], res, MODEL, PROPS)
        total += res.n; distinct += len(res.distinct); nontriv += res.nontrivial; samples += res.samples[:1]
        mism += len(res.mism); obad += len(res.oracle_bad)
        for k, v in res.stats.items(): bump('%s_%s' % (kind, k), v)
    if not props['ok']:
        run.violation('C12/proof', 'Props/C12.v no longer checks: %s' % props['log'][-400:], {'broken': 'coq/Props/C12.v', 'log': props['log']}, no_input=True)
    C.proof_coverage(run, props, total + n_exact, min(distinct, nontriv),
                     'EXHAUSTIVE: every labelled graph on <=%d nodes (directed too up to 3) x every table of Bernoulli outcomes over the contacts x initial sets '
                     '(SIS: two steps, a coin per contact and step; percolation: a coin per edge), both return modes; every outcome of random.sample on the rho path of small graphs. '
                     'RANDOM: tables of density 0..1 on graphs of 1..10 nodes with permuted-int / string / tuple labels, 30%% directed, test_recovery tables (40%% of discrete_SIR), '
                     'initial_recovereds, tmin in {0, 5/2, -3, ..}, finite and infinite horizons, single node / list / tuple / set / dict keys as initial_infecteds, 2.5%% malformed (rho + initial_infecteds). '
                     'EXACT REPLAY: the default-rule sampler program run draw by draw on the implementation\'s own answers and iteration order. '
                     'Compared: rows, node histories, transmissions, the transmission tests made, candidates given to random.choice, test_recovery calls. '
                     'Oracle (independent of the model): BFS levels over the table of successful contacts, generation semantics for SIS / recovery rules, step-law reconstruction from the logged queries. '
                     'Non-trivial = at least two generations (or a percolated graph); distinct = distinct (model line, draws).' % (3 if quick else 4),
                     samples, {'distribution': stats, 'mismatches': mism, 'oracle_failures': obad,
                               'exhaustive_part': 'all graphs <=%d nodes x all coin tables' % (3 if quick else 4)})
    run.assumptions += ['random.random() uniform on [0,1), random.choice / random.sample uniform, draws independent (DESIGN 2.3): the law theorems are statements about `law` of the sampler program',
                        'deferred decisions are PROVED over `law` (Props/C12law.v): law of the whole run = law of percolate-all-arcs-first-then-BFS, for every event; what remains assumed is only the reading of the random API above']


def replay(rp):
    EoN = C.import_eon()
    import EoN.simulation as sim
    r = rp['replay']
    if 'graph' not in r:
        print('nothing to re-execute:', rp.get('what')); return 1
    case = L.case_from_json(r)
    draws = [F(x) for x in r.get('draws', [])]
    ok, log = C.build_driver('disc')
    impl = L.run_impl(EoN, sim, case, draws)
    out = C.run_model([L.model_line(case, 'D %d %s' % (len(draws), R.qtoks(draws)))], L.COMP)[0]
    m = R.parse_model_line(out)
    d = L.compare(case, m, impl)
    bad = (perc_oracle if case['kind'] == 'PERC' else L.oracle_bfs)(case, impl, dict(m, draws=draws))
    print('case:', json.dumps(r)[:1500])
    print('implementation: status=%s rows=%s' % (impl['status'], impl.get('rows')))
    if 'hist' in impl: print('  hist=%s\n  trans=%s' % (impl['hist'], impl['trans']))
    print('model:', out[:800])
    print('correspondence:', d or 'agrees')
    print('property oracle:', bad or 'holds')
    return 1 if (bad or d) else 0
