"""calls_lib -- argument forwarding of EoN's wrapper functions (DESIGN 2.4(b)).

Library used by the checks that rely on wrappers (C05, C06, C12):

    from harness import calls_lib
    r = calls_lib.check_forwarding(run, ['basic_discrete_SIR', 'fast_SIR'])

check_forwarding
  (i)   re-runs translate/calls2v.py on the working tree C.REPO -> coq/Gen/Calls.v,
  (ii)  rebuilds Model/Calls.vo, Gen/Calls.vo, evaluates coq/Gen/CallsQuery.v
        (`Compute` of site id / site_ok / reasons for every generated site) with coqc,
  (iii) rebuilds Proofs/CallsP.vo and recompiles Props/Calls.v (the binding-rule
        theorems and `forwarding_bad_sites`, the exact list of failing sites)
and returns, per requested wrapper (all wrappers when the list is empty),
    {'sites': [ids], 'ok': bool, 'bad': [ids], 'reason': {id: [text, ...]}}
plus the keys
    '_translator_ok'  False when the translator refused the source (fail-closed);
                      '_translator_msg' then names construct and line
    '_theorem_ok'     Props/Calls.v still compiles (bad-site list unchanged, every
                      Print Assumptions closed)
    '_bad_sites'      ids of all failing sites of the current tree
    '_expected_bad'   the list stated by Theorem forwarding_bad_sites
    '_new_bad_sites'  failing now, not in the theorem  (a regression)
    '_fixed_sites'    in the theorem, passing or gone now  (somebody fixed /repo)
    '_n_sites', '_props' (C.check_props result: theorem names, axioms), '_wall_s',
    '_log' (tail of the failing build output).
It never calls run.violation: the caller decides.  Wall time ~15 s (< 60 s).

confirm_bad_site(site_id) executes the recipe that shows the misbehaviour of a failing
site on C.REPO (RECIPES below) and returns a dict with entry point, input, observed,
required, confirmed, patch.

    cd /verif && /venv/bin/python -m harness.calls_lib [--confirm] [wrapper ...]
"""
import os, re, sys, io, time, json, contextlib
from . import common as C

PY = '/venv/bin/python'
TRANSLATOR = os.path.join(C.VERIF, 'translate', 'calls2v.py')
GEN = os.path.join(C.COQ, 'Gen', 'Calls.v')
QUERY = os.path.join(C.COQ, 'Gen', 'CallsQuery.v')

QUERY_SRC = '''(* Evaluated by harness/calls_lib.py with coqc; one line per generated site:
   <site id>|ok or BAD|reason;reason;...  *)
From Coq Require Import String List Ascii.
Require Import EoNV.Model.Calls EoNV.Gen.Calls.
Import ListNotations.
Open Scope string_scope.
Definition nl : string := String (ascii_of_nat 10) EmptyString.
Definition line (s : site) : string :=
  "SITE|" ++ site_id s ++ "|" ++ (if site_ok s then "ok" else "BAD") ++ "|" ++
  String.concat ";" (map reason_str (site_check s)) ++ nl.
Compute (String.concat "" (map line sites)).
'''


def run_translator(out=GEN, repo=None, timeout=60):
    repo = repo or C.REPO
    rc, o, dt = C.sh([PY, TRANSLATOR, '--repo', repo, '-o', out], timeout=timeout)
    return rc == 0, o.strip()


def _ensure_query():
    old = open(QUERY).read() if os.path.exists(QUERY) else ''
    if old != QUERY_SRC:
        open(QUERY, 'w').write(QUERY_SRC)


def _parse_report(out):
    txt = out.replace('""', '"')
    sites = []
    for ln in txt.split('\n'):
        ln = ln.strip()
        i = ln.find('SITE|')
        if i < 0:
            continue
        parts = ln[i:].split('|', 3)
        if len(parts) < 4:
            continue
        sid, ok, reasons = parts[1], parts[2] == 'ok', parts[3]
        sites.append((sid, ok, [r for r in reasons.split(';') if r]))
    return sites


def expected_bad():
    """the list stated by Theorem forwarding_bad_sites in coq/Props/Calls.v"""
    src = open(os.path.join(C.COQ, 'Props', 'Calls.v')).read()
    src = re.sub(r'\(\*.*?\*\)', '', src, flags=re.S)
    m = re.search(r'Theorem forwarding_bad_sites\s*:\s*bad_sites sites\s*=\s*\[(.*?)\]\s*\.', src, flags=re.S)
    if not m:
        m2 = re.search(r'forwarding_ok_all', src)
        return [] if m2 else None
    return re.findall(r'"([^"]+)"', m.group(1))


def check_forwarding(run=None, wrappers=()):
    t0 = time.time()
    res = {'_translator_ok': False, '_theorem_ok': False, '_bad_sites': None, '_n_sites': 0,
           '_expected_bad': expected_bad(), '_new_bad_sites': [], '_fixed_sites': [], '_log': ''}
    ok, msg = run_translator()
    res['_translator_msg'] = msg
    if not ok:
        res['_wall_s'] = round(time.time() - t0, 1)
        return res
    res['_translator_ok'] = True
    _ensure_query()
    ok, out, dt = C.coq_make(['Model/Calls.vo', 'Gen/Calls.vo'], timeout=300)
    if not ok:
        res['_log'] = out[-3000:]
        res['_wall_s'] = round(time.time() - t0, 1)
        return res
    rc, out, dt = C.sh('timeout 120 coqc -Q . EoNV Gen/CallsQuery.v', cwd=C.COQ, timeout=150)
    if rc != 0:
        res['_log'] = out[-3000:]
        res['_wall_s'] = round(time.time() - t0, 1)
        return res
    sites = _parse_report(out)
    res['_n_sites'] = len(sites)
    by_w = {}
    for sid, sok, reasons in sites:
        w = sid.split('->', 1)[0]
        d = by_w.setdefault(w, {'sites': [], 'ok': True, 'bad': [], 'reason': {}})
        d['sites'].append(sid)
        if not sok:
            d['ok'] = False
            d['bad'].append(sid)
            d['reason'][sid] = reasons
    bad = [sid for sid, sok, _ in sites if not sok]
    res['_bad_sites'] = bad
    exp = res['_expected_bad'] or []
    res['_new_bad_sites'] = [b for b in bad if b not in exp]
    res['_fixed_sites'] = [e for e in exp if e not in bad]
    for w in (list(wrappers) or sorted(by_w)):
        res[w] = by_w.get(w, {'sites': [], 'ok': False, 'bad': [], 'missing': True,
                              'reason': {'_': ['no forwarding call site found in wrapper %s' % w]}})
    props = C.check_props('Calls')
    res['_props'] = props
    res['_theorem_ok'] = bool(props.get('ok')) and not props.get('print_assumptions_missing')
    if not res['_theorem_ok']:
        res['_log'] = props.get('log', '')[-3000:]
        res['_failed_theorem'] = _failed_theorem(props)
    if run is not None:
        run.coverage.setdefault('forwarding', {}).update({
            'sites': len(sites), 'bad_sites': bad, 'translator': 'translate/calls2v.py on ' + C.REPO,
            'theorems': props.get('theorems', []), 'theorem_ok': res['_theorem_ok']})
    res['_wall_s'] = round(time.time() - t0, 1)
    return res


def _failed_theorem(props):
    fa = props.get('failed_at')
    if not fa or not fa[0].endswith('Props/Calls.v'):
        return None
    ln = int(fa[1])
    name = None
    for i, l in enumerate(open(os.path.join(C.COQ, 'Props', 'Calls.v')), 1):
        m = re.match(r'\s*(?:Theorem|Example)\s+([A-Za-z0-9_\']+)', l)
        if m and i <= ln:
            name = m.group(1)
    return name


# ------------------------------------------------------- dynamic recipes ----
def _quiet(f):
    buf = io.StringIO()
    with contextlib.redirect_stdout(buf):
        try:
            return ('value', f())
        except BaseException as e:      # noqa: the class is the observation
            return ('raise', e)


def _r_gillespie_arbitrary(EoN):
    import networkx as nx
    from collections import defaultdict
    G = nx.path_graph(4)
    H = nx.DiGraph(); H.add_edge('I', 'R', rate=1.0)
    J = nx.DiGraph(); J.add_edge(('I', 'S'), ('I', 'I'), rate=1.0)
    IC = defaultdict(lambda: 'S'); IC[0] = 'I'
    kind, v = _quiet(lambda: EoN.Gillespie_Arbitrary(G, H, J, IC, ('S', 'I', 'R'), tmax=1))
    kind2, v2 = _quiet(lambda: EoN.Gillespie_simple_contagion(G, H, J, IC, ('S', 'I', 'R'), tmax=1))
    obs = '%s: %s' % (type(v).__name__, v) if kind == 'raise' else 'returned %d arrays' % len(v)
    return dict(entry='EoN.Gillespie_Arbitrary (simulation.py)',
                input="G=path_graph(4), H: I->R rate 1, J: (I,S)->(I,I) rate 1, IC={0:'I'}, return_statuses=('S','I','R'), tmax=1 (all keyword parameters at their defaults)",
                observed=obs,
                required='same as Gillespie_simple_contagion with these arguments, which %s' % (
                    'returns %d arrays' % len(v2) if kind2 == 'value' else 'raises %s' % type(v2).__name__),
                confirmed=(kind == 'raise' and isinstance(v, TypeError) and kind2 == 'value'),
                patch='forward by keyword: spont_kwargs=spont_kwargs, nbr_kwargs=nbr_kwargs, sim_kwargs=sim_kwargs instead of **sim_kwargs (the first two are currently dropped as well)')


def _r_sir_ib_pure_ic(EoN):
    import networkx as nx
    G = nx.path_graph(4)
    kind, v = _quiet(lambda: EoN.SIR_individual_based_pure_IC(G, 1.0, 1.0, [0], tmax=1, tcount=3))
    kind2, v2 = _quiet(lambda: EoN.SIS_individual_based_pure_IC(G, 1.0, 1.0, [0], tmax=1, tcount=3))
    obs = '%s: %s' % (type(v).__name__, v) if kind == 'raise' else 'returned %d arrays' % len(v)
    return dict(entry='EoN.SIR_individual_based_pure_IC (analytic.py)',
                input='G=path_graph(4), tau=1, gamma=1, initial_infecteds=[0], tmax=1, tcount=3',
                observed=obs,
                required='times, S, I, R with S(0)=3, I(0)=1, R(0)=0 (the SIS twin, which forwards by keyword, %s)' % (
                    'returns' if kind2 == 'value' else 'raises %s' % type(v2).__name__),
                confirmed=(kind == 'raise' and type(v).__name__ == 'EoNError'),
                patch='call SIR_individual_based(G, tau, gamma, Y0=Y0, X0=X0, nodelist=nodelist, tmin=tmin, tmax=tmax, tcount=tcount, transmission_weight=..., recovery_weight=..., return_full_data=return_full_data)')


def _r_sir_hmf_from_graph(EoN):
    import networkx as nx, numpy as np
    G = nx.path_graph(5)
    kind, v = _quiet(lambda: EoN.SIR_heterogeneous_meanfield_from_graph(
        G, 1.0, 1.0, initial_infecteds=[0], tmax=1, tcount=3, return_full_data=True))
    shape = None
    if kind == 'value':
        shape = [np.shape(x) for x in v]
    return dict(entry='EoN.SIR_heterogeneous_meanfield_from_graph (analytic.py)',
                input='G=path_graph(5), tau=gamma=1, initial_infecteds=[0], tmax=1, tcount=3, return_full_data=True',
                observed=('shapes of the returned arrays %s (aggregated S, I, R)' % shape) if kind == 'value' else repr(v),
                required='times, Sk, Ik, Rk with Sk of shape (maxdeg+1, tcount) = (3, 3), as SIR_heterogeneous_meanfield(..., return_full_data=True) returns',
                confirmed=(kind == 'value' and len(shape[1]) == 1),
                patch='pass return_full_data=return_full_data')


def _r_sir_ed_from_graph(EoN):
    import networkx as nx
    G = nx.path_graph(5)
    kind, v = _quiet(lambda: EoN.SIR_effective_degree_from_graph(
        G, 1.0, 1.0, initial_infecteds=[0], initial_recovereds=[4], tmax=1, tcount=3))
    if kind == 'value':
        t, S, I, R = v[:4]
        obs = 'S(0)=%g I(0)=%g R(0)=%g' % (S[0], I[0], R[0])
        conf = abs(R[0]) < 1e-12 and abs(S[0] - 4) < 1e-9
    else:
        obs, conf = repr(v), False
    return dict(entry='EoN.SIR_effective_degree_from_graph (analytic.py)',
                input='G=path_graph(5), tau=gamma=1, initial_infecteds=[0], initial_recovereds=[4], tmax=1, tcount=3',
                observed=obs, required='S(0)=3 I(0)=1 R(0)=1: node 4 starts recovered',
                confirmed=conf,
                patch='status = _initialize_node_status_(G, initial_infecteds, initial_recovereds)')


def _r_attack_rate_discrete(EoN):
    import networkx as nx
    G = nx.path_graph(5)
    kind, v = _quiet(lambda: EoN.Attack_rate_discrete_from_graph(G, 0.5, rho=0.1))
    kind2, v2 = _quiet(lambda: EoN.Attack_rate_discrete(EoN.get_Pk(G), 0.5, rho=0.1))
    obs = '%s: %s' % (type(v).__name__, v) if kind == 'raise' else 'returned %r' % (v,)
    return dict(entry='EoN.Attack_rate_discrete_from_graph (analytic.py)',
                input='G=path_graph(5), p=0.5, rho=0.1',
                observed=obs,
                required='the number Attack_rate_discrete(get_Pk(G), 0.5, rho=0.1) = %r' % (v2 if kind2 == 'value' else v2,),
                confirmed=(kind == 'raise' and isinstance(v, NameError) and 'PhiS0' in str(v)),
                patch='phiS0=phiS0 (and initialise Sk0, SR before the loop of the initial_infecteds branch)')


RECIPES = {
    'Gillespie_Arbitrary->Gillespie_simple_contagion@0': _r_gillespie_arbitrary,
    'SIR_individual_based_pure_IC->SIR_individual_based@0': _r_sir_ib_pure_ic,
    'SIR_heterogeneous_meanfield_from_graph->SIR_heterogeneous_meanfield@1': _r_sir_hmf_from_graph,
    'SIR_effective_degree_from_graph->_initialize_node_status_@0': _r_sir_ed_from_graph,
    'Attack_rate_discrete_from_graph->Attack_rate_discrete@2': _r_attack_rate_discrete,
}


def confirm_bad_site(site_id):
    """Execute the recipe of a failing site against C.REPO.  Returns the recipe's dict
    (entry, input, observed, required, confirmed, patch) or None when no recipe exists."""
    f = RECIPES.get(site_id)
    if f is None:
        return None
    EoN = C.import_eon()
    d = f(EoN)
    d['site'] = site_id
    return d


def main(argv):
    confirm = '--confirm' in argv
    wrappers = [a for a in argv if not a.startswith('-')]
    r = check_forwarding(None, wrappers)
    print('repo            : %s' % C.REPO)
    print('translator      : %s   %s' % ('ok' if r['_translator_ok'] else 'REFUSED', r.get('_translator_msg', '').split('\n')[-1]))
    if not r['_translator_ok']:
        print(r.get('_translator_msg', ''))
        return 2
    print('sites           : %d' % r['_n_sites'])
    print('Props/Calls.v   : %s%s' % ('ok' if r['_theorem_ok'] else 'BROKEN',
                                      '' if r['_theorem_ok'] else ' at ' + str(r.get('_failed_theorem'))))
    print('bad sites       : %d   new: %s   fixed: %s' % (len(r['_bad_sites'] or []), r['_new_bad_sites'], r['_fixed_sites']))
    print('wall            : %.1fs' % r['_wall_s'])
    print()
    for w in sorted(k for k in r if not k.startswith('_')):
        d = r[w]
        print('%-52s %-4s %d site(s)' % (w, 'ok' if d['ok'] else 'BAD', len(d['sites'])))
        for sid in d['bad']:
            print('    %s' % sid)
            for reason in d['reason'].get(sid, []):
                print('        - %s' % reason)
        if d.get('missing'):
            print('    (no forwarding site)')
    if not r['_theorem_ok']:
        print('\n' + r.get('_log', '')[-1500:])
    if confirm:
        print()
        for sid in r['_bad_sites'] or []:
            d = confirm_bad_site(sid)
            if d is None:
                print('%s: no recipe' % sid)
                continue
            print('%s\n   entry    : %s\n   input    : %s\n   observed : %s\n   required : %s\n   confirmed: %s\n   patch    : %s' % (
                sid, d['entry'], d['input'], d['observed'], d['required'], d['confirmed'], d['patch']))
    return 0 if (r['_theorem_ok'] and not r['_new_bad_sites']) else 1


if __name__ == '__main__':
    sys.exit(main(sys.argv[1:]))
