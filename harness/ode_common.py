"""Shared by C06 and the ODE half of C14: JSON-able ODE test cases (graph with
permuted int / string / tuple labels and shuffled insertion order, rates, initial
condition request, time grid), an oracle that computes the REQUESTED initial state
directly from the graph and the request (independent of EoN and of the Coq model),
and a table of every ODE entry point of EoN/analytic.py: how to call it from a
case, the names of the series it returns (the names of its return statement =
its documented order) and what row 0 of each series has to be."""
import itertools, math
from fractions import Fraction as F
import numpy as np
import networkx as nx

RHOS = [F(1, 8), F(1, 4), F(1, 2), F(3, 8), F(1, 16), F(3, 4)]
TAUS = [F(0), F(1, 4), F(1, 2), F(1), F(2), F(3, 2)]
GAMMAS = [F(0), F(1, 2), F(1), F(2), F(1, 4)]
GRIDS = [(0, 5, 11), (1, 3, 21), (-1, 4, 51)]
DGRIDS = [(0, 5), (2, 7), (0, 3)]


# ------------------------------------------------------------------ cases ----
def dec_label(x):
    return tuple(dec_label(y) for y in x) if isinstance(x, list) else x


def gen_labels(rng, n, kind=None):
    kind = kind or rng.choice(['perm', 'ints', 'str', 'tup'])
    if kind == 'perm':
        while True:
            p = list(range(n)); rng.shuffle(p)
            if p != list(range(n)) or n == 1:
                return kind, p
    if kind == 'ints':
        base = rng.choice([3, 10, 100]); step = rng.choice([2, 3, 7])
        p = [base + step * j for j in range(n)]; rng.shuffle(p); return kind, p
    if kind == 'str':
        p = ['n%d' % j for j in range(n)]; rng.shuffle(p); return kind, p
    p = [[j // 3, j % 3] for j in range(n)]; rng.shuffle(p); return kind, p


def gen_graph(rng, nmin=3, nmax=9, isolated=True, force_iso=False):
    """edges as index pairs (insertion order shuffled); at least one edge"""
    n = rng.randint(nmin, nmax)
    shape = rng.choice(['er', 'er', 'er', 'tree', 'regular', 'star'])
    edges = []
    if shape == 'er':
        p = rng.choice([0.25, 0.4, 0.6, 0.8])
        edges = [[i, j] for i, j in itertools.combinations(range(n), 2) if rng.random() < p]
    elif shape == 'tree':
        edges = [[rng.randrange(j), j] for j in range(1, n)]
    elif shape == 'regular':
        edges = [[i, (i + 1) % n] for i in range(n)] if n >= 3 else [[0, 1]]
        if n >= 5 and rng.random() < 0.5:
            edges += [[i, (i + 2) % n] for i in range(n)]
    else:
        edges = [[0, j] for j in range(1, n)]
    if not edges:
        edges = [[0, 1]]
    if not isolated:
        deg = [0] * n
        for i, j in edges:
            deg[i] += 1; deg[j] += 1
        for i in range(n):
            if deg[i] == 0:
                j = rng.choice([x for x in range(n) if x != i]); edges.append([i, j]); deg[i] += 1; deg[j] += 1
    if isolated and force_iso and n >= 4:
        # make sure there IS a node of degree 0 (sparse random graphs rarely have one): cut one or two nodes off, keep an edge
        for k in rng.sample(range(n), rng.randint(1, 2)):
            rest = [e for e in edges if k not in e]
            if rest: edges = rest
    edges = [e if rng.random() < 0.5 else [e[1], e[0]] for e in edges]
    rng.shuffle(edges)
    return n, edges


def gen_ic(rng, n, edges, sir, modes=('rho', 'default', 'sets', 'sets', 'sets')):
    mode = rng.choice(list(modes))
    if mode == 'rho':
        return {'mode': 'rho', 'rho': str(rng.choice(RHOS))}
    if mode == 'default':
        return {'mode': 'default'}
    # explicit sets: at least one infected node, at least one susceptible node that has an edge
    deg = [0] * n
    for i, j in edges:
        deg[i] += 1; deg[j] += 1
    for _ in range(50):
        idx = list(range(n)); rng.shuffle(idx)
        ni = rng.randint(1, max(1, n // 2))
        I = idx[:ni]; rest = idx[ni:]
        R = None
        if sir:
            r = rng.random()
            if r < 0.25: R = None
            elif r < 0.4: R = []
            else:
                nr = rng.randint(1, max(1, (n - ni) // 2)); R = rest[:nr]; rest = rest[nr:]
        if any(deg[u] > 0 for u in rest):
            return {'mode': 'sets', 'I': I, 'R': R, 'form': rng.choice(['list', 'tuple', 'set', 'ndarray', 'keys', 'ndarray'])}
    return {'mode': 'rho', 'rho': '1/4'}


def gen_case(rng, entry, full, sir, isolated=True, modes=None, nmax=9, discrete=False, force_iso=False):
    n, edges = gen_graph(rng, nmax=nmax, isolated=isolated, force_iso=force_iso)
    kind, labels = gen_labels(rng, n)
    ic = gen_ic(rng, n, edges, sir, modes or ('rho', 'default', 'sets', 'sets', 'sets'))
    tau = rng.choice(TAUS); gamma = rng.choice(GAMMAS)
    c = {'entry': entry, 'full': bool(full), 'labelkind': kind, 'nodes': labels, 'edges': edges, 'ic': ic,
         'tau': str(tau), 'gamma': str(gamma), 'p': str(rng.choice([F(0), F(1, 4), F(1, 2), F(3, 4), F(1)])),
         'grid': list(rng.choice(DGRIDS if discrete else GRIDS)), 'nodelist': None}
    return c


def build_graph(case, perm=None, relabel=None):
    """networkx graph of a case.  perm: (node order, edge order) permutation lists; relabel:
    list of new labels (already decoded) indexed like case['nodes']"""
    labels = [dec_label(x) for x in case['nodes']] if relabel is None else list(relabel)
    G = nx.Graph()
    order = range(len(labels)) if perm is None else perm[0]
    G.add_nodes_from(labels[i] for i in order)
    eorder = range(len(case['edges'])) if perm is None else perm[1]
    for k in eorder:
        i, j = case['edges'][k]
        if perm is not None and (k * 7 + i) % 2:
            i, j = j, i
        G.add_edge(labels[i], labels[j])
    return G, labels


# ----------------------------------------------------------------- oracle ----
class Oracle:
    """The requested initial state, computed from the graph and the request only."""
    def __init__(self, case, sir):
        self.case, self.sir = case, sir
        n = self.N = len(case['nodes'])
        E = sorted({(min(i, j), max(i, j)) for i, j in case['edges']})
        self.E = E
        adj = [[] for _ in range(n)]
        for i, j in E:
            adj[i].append(j); adj[j].append(i)
        self.adj = adj
        deg = self.deg = [len(a) for a in adj]
        mk = self.maxk = max(deg)
        self.Nk = [deg.count(k) for k in range(mk + 1)]
        self.Ks = sorted(set(deg))
        self.twoE = 2 * len(E)
        self.kave = F(self.twoE, n)
        ic = case['ic']
        self.mode = ic['mode']
        K = range(mk + 1)
        NkNl = [[0] * (mk + 1) for _ in K]
        for i, j in E:
            NkNl[deg[i]][deg[j]] += 1; NkNl[deg[j]][deg[i]] += 1
        self.NkNl = NkNl
        if self.mode == 'sets':
            st = ['S'] * n
            for u in ic['I']: st[u] = 'I'
            for u in (ic.get('R') or []): st[u] = 'R'
            self.st = st
            self.rho = None
            cnt = lambda x: sum(1 for s in st if s == x)
            self.S0, self.I0, self.R0 = cnt('S'), cnt('I'), cnt('R')
            self.Sk = [sum(1 for u in range(n) if st[u] == 'S' and deg[u] == k) for k in K]
            self.Ik = [sum(1 for u in range(n) if st[u] == 'I' and deg[u] == k) for k in K]
            self.Rk = [sum(1 for u in range(n) if st[u] == 'R' and deg[u] == k) for k in K]
            pairs = [(i, j) for i, j in E] + [(j, i) for i, j in E]     # ordered pairs
            self.SS = sum(1 for i, j in pairs if st[i] == 'S' and st[j] == 'S')     # ordered = 2 * #edges
            self.SI = sum(1 for i, j in pairs if st[i] == 'S' and st[j] == 'I')     # = number of S-I edges
            self.II = sum(1 for i, j in pairs if st[i] == 'I' and st[j] == 'I')
            self.SR = sum(1 for i, j in pairs if st[i] == 'S' and st[j] == 'R')
            mat = lambda a, b: [[sum(1 for i, j in pairs if st[i] == a and st[j] == b and deg[i] == k and deg[j] == l) for l in K] for k in K]
            self.SkSl, self.SkIl, self.IkIl = mat('S', 'S'), mat('S', 'I'), mat('I', 'I')
            nb = lambda u, x: sum(1 for v in adj[u] if st[v] == x)
            self.Ssi = [[sum(1 for u in range(n) if st[u] == 'S' and nb(u, 'S') == s and nb(u, 'I') == i) for i in K] for s in K]
            self.Isi = [[sum(1 for u in range(n) if st[u] == 'I' and nb(u, 'S') == s and nb(u, 'I') == i) for i in K] for s in K]
            self.Skappa = [sum(1 for u in range(n) if st[u] == 'S' and nb(u, 'S') + nb(u, 'I') == kap) for kap in K]
            self.SX = sum(deg[u] for u in range(n) if st[u] == 'S')
            self.Y0 = [1 if s == 'I' else 0 for s in st]
            self.X0 = [1 if s == 'S' else 0 for s in st]
        else:
            rho = self.rho = F(ic['rho']) if self.mode == 'rho' else F(1, n)
            self.st = None
            q = 1 - rho
            self.S0, self.I0, self.R0 = q * n, rho * n, F(0)
            self.Sk = [q * x for x in self.Nk]; self.Ik = [rho * x for x in self.Nk]; self.Rk = [F(0)] * (mk + 1)
            self.SS, self.SI, self.II, self.SR = q * q * self.twoE, q * rho * self.twoE, rho * rho * self.twoE, F(0)
            self.SkSl = [[q * q * x for x in r] for r in NkNl]
            self.SkIl = [[q * rho * x for x in r] for r in NkNl]
            self.IkIl = [[rho * rho * x for x in r] for r in NkNl]
            self.Ssi = [[(q * self.Nk[s + i] * math.comb(s + i, i) * rho ** i * q ** s) if s + i <= mk else F(0) for i in K] for s in K]
            self.Isi = [[(rho * self.Nk[s + i] * math.comb(s + i, i) * rho ** i * q ** s) if s + i <= mk else F(0) for i in K] for s in K]
            self.Skappa = list(self.Sk)
            self.SX = q * self.twoE
            self.Y0 = [rho] * n; self.X0 = [q] * n
        self.tau, self.gamma, self.p = F(case['tau']), F(case['gamma']), F(case['p'])

    # ---- helpers giving float arrays --------------------------------------
    def fa(self, l):
        return np.array([float(x) for x in l])

    def fm(self, m):
        return np.array([[float(x) for x in r] for r in m])

    def byKs(self, v):
        return [v[k] for k in self.Ks]

    def mKs(self, m):
        return [[m[k][l] for l in self.Ks] for k in self.Ks]

    def psihat_fns(self):
        """(psihat, psihatPrime, psihatDPrime): S-degree PGF of the requested state, as fractions of N"""
        Sk, N = [float(x) for x in self.Sk], float(self.N)
        ks = range(len(Sk))
        f0 = lambda x: sum(Sk[k] * x ** k for k in ks) / N
        f1 = lambda x: sum(k * Sk[k] * x ** (k - 1) for k in ks if k >= 1) / N
        f2 = lambda x: sum(k * (k - 1) * Sk[k] * x ** (k - 2) for k in ks if k >= 2) / N
        return f0, f1, f2


# ------------------------------------------------------------ entry table ----
def _rates(o):
    return float(o.tau), float(o.gamma)


def _grid(case):
    a, b, c = case['grid']
    return dict(tmin=a, tmax=b, tcount=c)


def _ickw(o, labels, sir):
    ic = o.case['ic']
    if ic['mode'] == 'rho':
        return {'rho': float(F(ic['rho']))}
    if ic['mode'] == 'default':
        return {}
    def shaped(l):
        # the node collections may be handed over as any container: list, tuple, set, numpy array (integer labels), dict keys
        f = ic.get('form', 'list')
        if f == 'ndarray':
            import numpy as np
            if l and all(isinstance(x, int) and not isinstance(x, bool) for x in l):
                return np.array(l)
            a = np.empty(len(l), dtype=object)          # string / tuple labels: a 1-d object array holding the labels themselves
            for i_, x in enumerate(l): a[i_] = x
            return a
        if f == 'tuple': return tuple(l)
        if f == 'set': return set(l)
        if f == 'keys': return dict.fromkeys(l).keys()
        return list(l)
    kw = {'initial_infecteds': shaped([labels[u] for u in ic['I']])}
    if sir and ic.get('R') is not None:
        kw['initial_recovereds'] = shaped([labels[u] for u in ic['R']])
    return kw


def _base_exp(o, sir):
    e = {'S': float(o.S0), 'I': float(o.I0)}
    if sir:
        e['R'] = float(o.R0)
    return e


class Entry:
    def __init__(self, name, sir, kind, layout_plain, layout_full, call, expect, modes=('rho', 'default', 'sets'),
                 discrete=False, pernode=(), isolated=True, nmax=9, scalar=False):
        self.name, self.sir, self.kind = name, sir, kind            # kind: 'graph' | 'solver'
        self.layout_plain, self.layout_full = layout_plain, layout_full
        self.call, self.expect, self.modes = call, expect, modes
        self.discrete, self.pernode, self.isolated, self.nmax, self.scalar = discrete, pernode, isolated, nmax, scalar

    def fulls(self):
        return [False, True] if self.layout_full else [False]

    def layout(self, full):
        return self.layout_full if full else self.layout_plain


ENTRIES = {}


def reg(e):
    ENTRIES[e.name] = e


def fg(name, sir, lp, lf, exp_full, extra=None, **kw):
    """a *_from_graph wrapper taking (G, tau, gamma, IC request, grid, return_full_data)"""
    def call(EoN, G, labels, o, full):
        k = dict(_ickw(o, labels, sir)); k.update(_grid(o.case))
        if lf:
            k['return_full_data'] = full
        return getattr(EoN, name)(G, *_rates(o), **k)
    def expect(o, full):
        e = _base_exp(o, sir)
        if full:
            e.update(exp_full(o))
        return e
    reg(Entry(name, sir, 'graph', lp, lf, call, expect, **kw))


T3, T4 = ['times', 'S', 'I'], ['times', 'S', 'I', 'R']
fg('SIS_homogeneous_meanfield_from_graph', False, T3, None, None)
fg('SIR_homogeneous_meanfield_from_graph', True, T4, None, None)
fg('SIS_homogeneous_pairwise_from_graph', False, T3, T3 + ['SI', 'SS', 'II'],
   lambda o: {'SI': float(o.SI), 'SS': float(o.SS), 'II': float(o.II)})
fg('SIR_homogeneous_pairwise_from_graph', True, T4, T4 + ['SI', 'SS'],
   lambda o: {'SI': float(o.SI), 'SS': float(o.SS)})
fg('SIS_heterogeneous_meanfield_from_graph', False, T3, T3 + ['Sk', 'Ik'],
   lambda o: {'Sk': o.fa(o.Sk), 'Ik': o.fa(o.Ik)})
fg('SIR_heterogeneous_meanfield_from_graph', True, T4, ['times', 'Sk', 'Ik', 'Rk'],
   lambda o: {'Sk': o.fa(o.Sk), 'Ik': o.fa(o.Ik), 'Rk': o.fa(o.Rk)})
fg('SIS_heterogeneous_pairwise_from_graph', False, T3, T3 + ['Sk', 'Ik', 'SkIl', 'SkSl', 'IkIl'],
   lambda o: {'Sk': o.fa(o.byKs(o.Sk)), 'Ik': o.fa(o.byKs(o.Ik)), 'SkIl': o.fm(o.mKs(o.SkIl)), 'SkSl': o.fm(o.mKs(o.SkSl)), 'IkIl': o.fm(o.mKs(o.IkIl))})
fg('SIR_heterogeneous_pairwise_from_graph', True, T4, T4 + ['Sk', 'Ik', 'Rk', 'SkIl', 'SkSl'],
   lambda o: {'Sk': o.fa(o.byKs(o.Sk)), 'Ik': o.fa(o.byKs(o.Ik)), 'Rk': o.fa(o.byKs(o.Rk)), 'SkIl': o.fm(o.mKs(o.SkIl)), 'SkSl': o.fm(o.mKs(o.SkSl))})
_cp = lambda o: {'Sk': o.fa(o.Sk), 'Ik': o.fa(o.Ik), 'SI': float(o.SI), 'SS': float(o.SS), 'II': float(o.II)}
fg('SIS_compact_pairwise_from_graph', False, T3, T3 + ['Sk', 'Ik', 'SI', 'SS', 'II'], _cp)
fg('SIS_compact_effective_degree_from_graph', False, T3, T3 + ['Sk', 'Ik', 'SI', 'SS', 'II'], _cp)
fg('SIR_compact_pairwise_from_graph', True, T4, ['times', 'Sk', 'I', 'R', 'SS', 'SI'],
   lambda o: {'Sk': o.fa(o.Sk), 'SS': float(o.SS), 'SI': float(o.SI)})
fg('SIS_super_compact_pairwise_from_graph', False, T3, T3 + ['SS', 'SI', 'II'],
   lambda o: {'SS': float(o.SS), 'SI': float(o.SI), 'II': float(o.II)})
fg('SIR_super_compact_pairwise_from_graph', True, T4, T4 + ['SS', 'SI'],
   lambda o: {'SS': float(o.SS), 'SI': float(o.SI)})
fg('SIS_effective_degree_from_graph', False, T3, T3 + ['Ssi', 'Isi'],
   lambda o: {'Ssi': o.fm(o.Ssi), 'Isi': o.fm(o.Isi)}, nmax=7)
fg('SIR_effective_degree_from_graph', True, T4, T4 + ['S_si'],
   lambda o: {'S_si': o.fm(o.Ssi)}, nmax=7)
fg('SIR_compact_effective_degree_from_graph', True, T4, T4 + ['Skappa', 'SI'],
   lambda o: {'Skappa': o.fa(o.Skappa), 'SI': float(o.SI)})
fg('EBCM_from_graph', True, T4, T4 + ['theta'], lambda o: {'theta': 1.0})


def _disc(name, sir=True):
    def call(EoN, G, labels, o, full):
        k = dict(_ickw(o, labels, sir)); a, b = o.case['grid'][:2]
        k.update(tmin=a, tmax=b, return_full_data=full)
        return getattr(EoN, name)(G, float(o.p), **k)
    return call


reg(Entry('EBCM_discrete_from_graph', True, 'graph', T4, T4 + ['theta'], _disc('EBCM_discrete_from_graph'),
          lambda o, full: dict(_base_exp(o, True), **({'theta': 1.0} if full else {})), discrete=True))


def _pm_call(name, disc):
    def call(EoN, G, labels, o, full):
        k = {} if o.mode == 'default' else {'rho': float(o.rho)}
        if disc:
            a, b = o.case['grid'][:2]
            return getattr(EoN, name)(G, float(o.p), tmin=a, tmax=b, return_full_data=full, **k)
        k.update(_grid(o.case))
        return getattr(EoN, name)(G, *_rates(o), return_full_data=full, **k)
    return call


def _pm_exp(o, full):
    e = _base_exp(o, True)
    if full:
        e['theta'] = {k: 1.0 for k in o.Ks}
    return e


reg(Entry('EBCM_pref_mix_from_graph', True, 'graph', T4, T4 + ['theta'], _pm_call('EBCM_pref_mix_from_graph', False), _pm_exp,
          modes=('rho', 'default'), isolated=False))
reg(Entry('EBCM_pref_mix_discrete_from_graph', True, 'graph', T4, T4 + ['theta'], _pm_call('EBCM_pref_mix_discrete_from_graph', True), _pm_exp,
          modes=('rho', 'default'), discrete=True, isolated=False))


# ---- node-level systems ------------------------------------------------------
def _nodelist(o, labels):
    nl = o.case.get('nodelist')
    return None if nl is None else [labels[i] for i in nl]


def _pos(o):
    """position (in the returned per-node arrays) -> node index of the case"""
    nl = o.case.get('nodelist')
    return list(range(o.N)) if nl is None else list(nl)


def _adjmat(o):
    pos = _pos(o); A = np.zeros((o.N, o.N))
    for a, u in enumerate(pos):
        for b, v in enumerate(pos):
            if v in o.adj[u]:
                A[a, b] = 1.0
    return A


def _nb_exp(o, sir, full, pair, raw=False):
    e = _base_exp(o, sir)
    if full:
        pos = _pos(o)
        X = np.array([float(o.X0[u]) for u in pos]); Y = np.array([float(o.Y0[u]) for u in pos])
        e.update({'Ss': X, 'Is': Y} if not pair else {'Xs': X, 'Ys': Y})
        if sir:
            e['Rs' if not pair else 'Zs'] = 1 - X - Y
        if pair:
            A = _adjmat(o)
            e['XY'] = X[:, None] * Y[None, :] * A
            e['XX'] = X[:, None] * X[None, :] * A
    return e


def _nb_call(name, sir, pure):
    def call(EoN, G, labels, o, full):
        k = dict(_grid(o.case)); k['return_full_data'] = full
        nl = _nodelist(o, labels)
        if nl is not None:
            k['nodelist'] = nl
        if pure:
            ic = o.case['ic']
            k['initial_infecteds'] = [labels[u] for u in ic['I']]
            if sir and ic.get('R') is not None:
                k['initial_recovereds'] = [labels[u] for u in ic['R']]
        elif o.mode == 'rho':
            k['rho'] = float(o.rho)
        return getattr(EoN, name)(G, *_rates(o), **k)
    return call


for _nm, _sir, _pair, _pure in [('SIS_individual_based', False, False, False), ('SIR_individual_based', True, False, False),
                                ('SIS_individual_based_pure_IC', False, False, True), ('SIR_individual_based_pure_IC', True, False, True),
                                ('SIS_pair_based', False, True, False), ('SIR_pair_based', True, True, False),
                                ('SIS_pair_based_pure_IC', False, True, True), ('SIR_pair_based_pure_IC', True, True, True)]:
    if _pair:
        lf = (T4 + ['Xs', 'Ys', 'Zs', 'XY', 'XX']) if _sir else (T3 + ['Xs', 'Ys', 'XY', 'XX'])
    else:
        lf = (T4 + ['Ss', 'Is', 'Rs']) if _sir else ['times', 'Ss', 'Is']
    modes = ('sets',) if _pure else (('rho',) if not _pair else ('rho', 'default'))
    reg(Entry(_nm, _sir, 'graph', T4 if _sir else T3, lf, _nb_call(_nm, _sir, _pure),
              (lambda sir, pair: (lambda o, full: _nb_exp(o, sir, full, pair)))(_sir, _pair),
              modes=modes, pernode=('Ss', 'Is', 'Rs', 'Xs', 'Ys', 'Zs', 'XY', 'XX'), nmax=6 if _pair else 8))


# ---- solver-level entry points (numeric initial condition handed over) --------
def sv(name, sir, lp, lf, args, exp_full, **kw):
    def call(EoN, G, labels, o, full):
        k = dict(_grid(o.case))
        if lf:
            k['return_full_data'] = full
        a = args(o)
        kwx = {}
        if isinstance(a, tuple) and len(a) == 2 and isinstance(a[1], dict):
            a, kwx = a
        k.update(kwx)
        return getattr(EoN, name)(*a, **k)
    def expect(o, full):
        e = _base_exp(o, sir)
        if full and exp_full:
            e.update(exp_full(o))
        return e
    reg(Entry(name, sir, 'solver', lp, lf, call, expect, **kw))


fS, fI, fR = (lambda o: float(o.S0)), (lambda o: float(o.I0)), (lambda o: float(o.R0))
sv('SIS_homogeneous_meanfield', False, T3, None, lambda o: [fS(o), fI(o), float(o.kave), *_rates(o)], None)
sv('SIR_homogeneous_meanfield', True, T4, None, lambda o: [fS(o), fI(o), fR(o), float(o.kave), *_rates(o)], None)
sv('SIS_homogeneous_pairwise', False, T3, T3 + ['SI', 'SS', 'II'],
   lambda o: [fS(o), fI(o), float(o.SI), float(o.SS), float(o.kave), *_rates(o)],
   lambda o: {'SI': float(o.SI), 'SS': float(o.SS), 'II': float(o.II)})
sv('SIR_homogeneous_pairwise', True, T4, T4 + ['SI', 'SS'],
   lambda o: [fS(o), fI(o), fR(o), float(o.SI), float(o.SS), float(o.kave), *_rates(o)],
   lambda o: {'SI': float(o.SI), 'SS': float(o.SS)})
sv('SIS_heterogeneous_meanfield', False, T3, T3 + ['Sk', 'Ik'], lambda o: [o.fa(o.Sk), o.fa(o.Ik), *_rates(o)],
   lambda o: {'Sk': o.fa(o.Sk), 'Ik': o.fa(o.Ik)})
sv('SIR_heterogeneous_meanfield', True, T4, ['times', 'Sk', 'Ik', 'Rk'], lambda o: [o.fa(o.Sk), o.fa(o.Ik), o.fa(o.Rk), *_rates(o)],
   lambda o: {'Sk': o.fa(o.Sk), 'Ik': o.fa(o.Ik), 'Rk': o.fa(o.Rk)})
sv('SIS_heterogeneous_pairwise', False, T3, T3 + ['Sk', 'Ik', 'SkIl', 'SkSl', 'IkIl'],
   lambda o: [o.fa(o.Sk), o.fa(o.Ik), o.fm(o.SkSl), o.fm(o.SkIl), o.fm(o.IkIl), *_rates(o)],
   lambda o: {'Sk': o.fa(o.Sk), 'Ik': o.fa(o.Ik), 'SkIl': o.fm(o.SkIl), 'SkSl': o.fm(o.SkSl), 'IkIl': o.fm(o.IkIl)})
sv('SIR_heterogeneous_pairwise', True, T4, T4 + ['Sk', 'Ik', 'Rk', 'SkIl', 'SkSl'],
   lambda o: [o.fa(o.Sk), o.fa(o.Ik), o.fa(o.Rk), o.fm(o.SkSl), o.fm(o.SkIl), *_rates(o)],
   lambda o: {'Sk': o.fa(o.Sk), 'Ik': o.fa(o.Ik), 'Rk': o.fa(o.Rk), 'SkIl': o.fm(o.SkIl), 'SkSl': o.fm(o.SkSl)})
for _nm in ('SIS_compact_pairwise', 'SIS_compact_effective_degree'):
    sv(_nm, False, T3, T3 + ['Sk', 'Ik', 'SI', 'SS', 'II'],
       lambda o: [o.fa(o.Sk), o.fa(o.Ik), float(o.SI), float(o.SS), float(o.II), *_rates(o)], _cp)
sv('SIR_compact_pairwise', True, T4, ['times', 'Sk', 'I', 'R', 'SS', 'SI'],
   lambda o: [o.fa(o.Sk), fI(o), fR(o), float(o.SS), float(o.SI), *_rates(o)],
   lambda o: {'Sk': o.fa(o.Sk), 'SS': float(o.SS), 'SI': float(o.SI)})


def _moments(o):
    n = float(o.N)
    return [sum(d ** j for d in o.deg) / n for j in (1, 2, 3)]


sv('SIS_super_compact_pairwise', False, T3, T3 + ['SS', 'SI', 'II'],
   lambda o: [fS(o), fI(o), float(o.SS), float(o.SI), float(o.II), *_rates(o), *_moments(o)],
   lambda o: {'SS': float(o.SS), 'SI': float(o.SI), 'II': float(o.II)})
sv('SIR_super_compact_pairwise', True, T4, T4 + ['SS', 'SI'],
   lambda o: [fR(o), float(o.SS), float(o.SI), o.N, *_rates(o), *o.psihat_fns()],
   lambda o: {'SS': float(o.SS), 'SI': float(o.SI)})
sv('SIS_effective_degree', False, T3, T3 + ['Ssi', 'Isi'], lambda o: [o.fm(o.Ssi), o.fm(o.Isi), *_rates(o)],
   lambda o: {'Ssi': o.fm(o.Ssi), 'Isi': o.fm(o.Isi)}, nmax=7)
sv('SIR_effective_degree', True, T4, T4 + ['S_si'], lambda o: [o.fm(o.Ssi), fI(o), fR(o), *_rates(o)],
   lambda o: {'S_si': o.fm(o.Ssi)}, nmax=7)
sv('SIR_compact_effective_degree', True, T4, T4 + ['Skappa', 'SI'], lambda o: [o.fa(o.Skappa), fI(o), fR(o), float(o.SI), *_rates(o)],
   lambda o: {'Skappa': o.fa(o.Skappa), 'SI': float(o.SI)})


def _phis(o):
    sx = float(o.SX)
    return float(o.SS) / sx, float(o.SR) / sx


sv('EBCM', True, T4, T4 + ['theta'],
   lambda o: ([o.N, *o.psihat_fns()[:2], *_rates(o), _phis(o)[0]], {'phiR0': _phis(o)[1], 'R0': fR(o)}),
   lambda o: {'theta': 1.0})
sv('EBCM_uniform_introduction', True, T4, T4 + ['theta'],
   lambda o: [o.N, (lambda x: sum(x ** d for d in o.deg) / float(o.N)), (lambda x: sum(d * x ** (d - 1) for d in o.deg if d) / float(o.N)),
              *_rates(o), float(o.rho)],
   lambda o: {'theta': 1.0}, modes=('rho', 'default'))


def _pk(o):
    return {k: o.Nk[k] / float(o.N) for k in o.Ks}


def _pnk(o):
    P = {k: {} for k in o.Ks}
    for u in range(o.N):
        for v in o.adj[u]:
            k1, k2 = o.deg[u], o.deg[v]
            P[k1][k2] = P[k1].get(k2, 0.0) + 1.0 / (k1 * o.Nk[k1])
    return P


sv('EBCM_pref_mix', True, T4, T4 + ['theta'],
   lambda o: ([o.N, _pk(o), _pnk(o), *_rates(o)], ({} if o.mode == 'default' else {'rho': float(o.rho)})),
   lambda o: {'theta': {k: 1.0 for k in o.Ks}}, modes=('rho', 'default'), isolated=False)


def _dcall(name, args):
    def call(EoN, G, labels, o, full):
        a, kw = args(o)
        return getattr(EoN, name)(*a, return_full_data=full, **kw)
    return call


def _dgrid(o, with_tmin=True):
    a, b = o.case['grid'][:2]
    return {'tmin': a, 'tmax': b} if with_tmin else {'tmax': b}


reg(Entry('EBCM_discrete', True, 'solver', T4, T4 + ['theta'],
          _dcall('EBCM_discrete', lambda o: ([o.N, *o.psihat_fns()[:2], float(o.p), _phis(o)[0]], dict(_dgrid(o), phiR0=_phis(o)[1], R0=fR(o)))),
          lambda o, full: dict(_base_exp(o, True), **({'theta': 1.0} if full else {})), discrete=True))
reg(Entry('EBCM_discrete_uniform_introduction', True, 'solver', T4, T4 + ['theta'],
          _dcall('EBCM_discrete_uniform_introduction',
                 lambda o: ([o.N, (lambda x: sum(x ** d for d in o.deg) / float(o.N)), (lambda x: sum(d * x ** (d - 1) for d in o.deg if d) / float(o.N)),
                             float(o.p), float(o.rho)], _dgrid(o, False))),
          lambda o, full: dict(_base_exp(o, True), **({'theta': 1.0} if full else {})), modes=('rho', 'default'), discrete='notmin'))
reg(Entry('EBCM_pref_mix_discrete', True, 'solver', T4, T4 + ['theta'],
          _dcall('EBCM_pref_mix_discrete', lambda o: ([o.N, _pk(o), _pnk(o), float(o.p)],
                                                      dict(_dgrid(o), **({} if o.mode == 'default' else {'rho': float(o.rho)})))),
          _pm_exp, modes=('rho', 'default'), discrete=True, isolated=False))


# ---- final-size entry points: no time series; acceptance and range only -------
def _ar_call(name, disc):
    def call(EoN, G, labels, o, full):
        k = _ickw(o, labels, True)
        if disc:
            return getattr(EoN, name)(G, float(o.p), **k)
        return getattr(EoN, name)(G, *_rates(o), **k)
    return call


for _nm, _d in (('Attack_rate_discrete_from_graph', True), ('Attack_rate_cts_time_from_graph', False)):
    reg(Entry(_nm, True, 'graph', ['AR'], None, _ar_call(_nm, _d), lambda o, full: {}, scalar=True))
