"""Shared library around the right-hand-side translator (translate/rhs2v.py),
used by the checks C06 (conservation clause), C07 and C08.

  regen_rhs()                     re-run the translator on $EON_REPO (default /repo);
                                  returns the list of translated functions (dicts: py, coq,
                                  params [[name, type]], index, sha); raises RhsRefused
  build()                         (re)build Gen/Rhs.vo and the extracted driver of component 'rhs'
  eval_rhs_model(name, args)      evaluate the GENERATED Coq definition through the extracted driver;
                                  args: dict parameter name -> Fraction | [Fraction] | int | [coefficients]
                                  (function parameters are polynomials given by coefficient lists)
  eval_rhs_python(EoN, name, args) the same point through the Python function of the working tree
  gen_point(rng, sig)             random dyadic point inside the domain (positive state, consistent shapes)
  point_check(EoN, rng, n)        the Schwartz-Zippel style tie: n points per function, returns report
"""
import os, sys, json, subprocess
from fractions import Fraction as F
from . import common as C

TRANSLATOR = os.path.join(C.VERIF, 'translate', 'rhs2v.py')
SIGFILE = os.path.join(C.COQ, 'Gen', 'rhs_sig.json')
COMP = 'rhs'


class RhsRefused(Exception):
    """the translator refused the current source (construct outside its fragment)"""


def regen_rhs(kind='rhs'):
    """Re-run the translator from C.REPO.  kind: 'rhs' | 'loops' | 'all'."""
    env = dict(os.environ); env['EON_REPO'] = C.REPO
    p = subprocess.run(['timeout', '120', sys.executable, TRANSLATOR, '--repo', C.REPO], capture_output=True, text=True, env=env)
    if p.returncode != 0:
        raise RhsRefused((p.stderr or p.stdout).strip()[-600:])
    sig = json.load(open(SIGFILE))
    return sig if kind == 'all' else sig[kind]


def sigs():
    return json.load(open(SIGFILE))


def build():
    """Gen/Rhs.vo + extracted driver; returns (ok, log)."""
    return C.build_driver(COMP)


def _sig(name, table=None):
    table = table or sigs()
    for s in table['rhs'] + table['loops']:
        if name in (s['py'], s['coq']):
            return s
    raise KeyError(name)


def _ql(l):
    return '%d %s' % (len(l), ' '.join(C.qtok(x) for x in l))


def model_line(sig, args):
    """one driver line for a right-hand side (RHS) or a loop (LOOP; args['__n'] = iteration count)"""
    qs, vs, ns, fs = [], [], [], []
    for p, ty in sig['params']:
        a = args[p]
        if ty == 'q': qs.append(a)
        elif ty == 'v': vs.append(list(a))
        elif ty == 'n': ns.append(int(a))
        else: fs.append(list(a))
    if 'kind' in sig:
        return 'LOOP %d %s %d %s %d' % (sig['index'], _ql(qs), len(fs), ' '.join(_ql(f) for f in fs), int(args['__n']))
    return 'RHS %d %s %d %s %d %s %d %s' % (sig['index'], _ql(qs), len(vs), ' '.join(_ql(v) for v in vs),
                                           len(ns), ' '.join(str(n) for n in ns), len(fs), ' '.join(_ql(f) for f in fs))


def parse_out(line):
    if not line.startswith('OK'):
        raise RuntimeError('model driver: ' + line)
    return [F(x) for x in line[2:].split()]


def eval_rhs_model_many(cases, table=None):
    """cases: [(name, args)] -> [[Fraction]]"""
    table = table or sigs()
    lines = [model_line(_sig(n, table), a) for n, a in cases]
    return [parse_out(o) for o in C.run_model(lines, COMP)]


def eval_rhs_model(name, args):
    return eval_rhs_model_many([(name, args)])[0]


def poly(coefs):
    cs = [float(c) for c in coefs]
    def f(x):
        r = 0.0
        for c in reversed(cs):
            r = c + x * r
        return r
    return f


def eval_rhs_python(EoN, name, args, sig=None):
    import numpy as np
    sig = sig or _sig(name)
    fn = getattr(EoN.analytic, sig['py'])
    call = []
    for p, ty in sig['params']:
        a = args[p]
        if ty == 'q': call.append(float(a))
        elif ty == 'v': call.append(np.array([float(x) for x in a]))
        elif ty == 'n': call.append(int(a))
        else: call.append(poly(a))
    with np.errstate(all='ignore'):
        out = fn(*call)
    return [float(x) for x in np.asarray(out, dtype=float).ravel()]


# ---- random points ----------------------------------------------------------
def dy(rng, lo=1, hi=64, den=8):
    return F(rng.randint(lo, hi), den)


def gen_point(rng, sig):
    """random dyadic point: positive state and rates (zero rates with small probability so the
    tau=0 / gamma=0 clauses are exercised), consistent shapes, K >= 2 degree classes"""
    name = sig['py']
    K = rng.randint(2, 6)
    a = {}
    for p, ty in sig['params']:
        if ty == 'q':
            if p in ('tau', 'gamma'):
                a[p] = F(0) if rng.random() < 0.08 else dy(rng, 1, 24, 8)
            elif p == 't':
                a[p] = dy(rng, 0, 40, 4)
            elif p in ('phiS0', 'phiR0'):
                a[p] = dy(rng, 0, 8, 16)
            else:
                a[p] = dy(rng)
        elif ty == 'f':
            a[p] = [dy(rng, 0, 16, 16) for _ in range(rng.randint(2, 5))]
            a[p][-1] += F(1, 16)
        elif ty == 'n':
            a[p] = K
    def vec(n): return [dy(rng) for _ in range(n)]
    if name in ('_dSIS_homogeneous_meanfield_', '_dSIR_homogeneous_meanfield_', '_dEBCM_'):
        a['X'] = vec(2)
    elif name == '_dSIS_homogeneous_pairwise_':
        a['X'] = vec(3)
    elif name in ('_dSIR_homogeneous_pairwise_', '_dSIS_super_compact_pairwise_', '_dSIR_super_compact_pairwise_'):
        a['X'] = vec(4)
    elif name == '_dSIS_compact_pairwise_':
        a['X'] = vec(K + 2); a['Nk'] = vec(K)
    elif name == '_dSIR_compact_pairwise_':
        a['X'] = vec(K + 3)
    elif name == '_dSIS_heterogeneous_meanfield_':
        a['X'] = vec(2 * K)
    elif name == '_dSIR_heterogeneous_meanfield_':
        a['X'] = [dy(rng, 1, 16, 16)] + vec(K); a['S0'] = vec(K); a['Nk'] = vec(K)
    elif name == '_dSIR_compact_effective_degree_':
        a['X'] = vec(K + 2)
    else:
        raise KeyError(name)
    if name in ('_dEBCM_', '_dSIR_super_compact_pairwise_'):
        a['X'][0] = dy(rng, 1, 16, 16)          # theta in (0,1]
    return a


def show(args):
    return {k: ([str(x) for x in v] if isinstance(v, list) else str(v)) for k, v in args.items()}


def point_check(EoN, rng, n_per_fn, table=None, tol=1e-9):
    """Evaluate every translated right-hand side in Python (working tree) and in the extracted
    generated definition at n_per_fn random dyadic points; compare componentwise.
    Returns dict(n, distinct, mism=[(name, args, py, model)], per_fn, samples)."""
    import math
    table = table or sigs()
    cases = []
    for sig in table['rhs']:
        got = 0; tries = 0
        while got < n_per_fn and tries < 20 * n_per_fn:
            tries += 1
            a = gen_point(rng, sig)
            try:
                py = eval_rhs_python(EoN, sig['py'], a, sig)
            except ZeroDivisionError:
                continue
            except Exception as e:
                py = 'EXC ' + type(e).__name__
            if not isinstance(py, str) and not all(math.isfinite(x) for x in py):
                continue                       # a zero denominator: outside the fragment's domain
            cases.append((sig, a, py)); got += 1
    lines = [model_line(s, a) for s, a, _ in cases]
    outs = C.run_model(lines, COMP)
    mism = []; per = {}; samples = []
    for (s, a, py), line, o in zip(cases, lines, outs):
        per.setdefault(s['py'], 0)
        try:
            mo = [float(x) for x in parse_out(o)]
        except Exception as e:
            mism.append((s['py'], show(a), py, 'model driver failure: %s' % o)); continue
        ok = (not isinstance(py, str)) and len(py) == len(mo) and all(C.close(x, y, tol) for x, y in zip(py, mo))
        if ok:
            per[s['py']] += 1
            if len(samples) < 3 and len(py) > 2:
                samples.append({'rhs_point': {'function': s['py'], 'args': show(a), 'python': py, 'model': mo}})
        else:
            mism.append((s['py'], show(a), py, mo))
    return {'n': len(cases), 'distinct': len(set(lines)), 'mism': mism, 'per_fn': per, 'samples': samples}
