"""Registry of the simulator libraries other than gil_lib for the cross-cutting checks
(C04 trajectories, C05 initial condition, C09 transmissions, C10 full data = arrays).
Each adapter runs one merged library (harness/<x>_lib.py): the extracted model chooses the
draw script / tables, the implementation runs on them, the library's own comparison is
the tie, and the cross-cutting Python oracle (harness/xcut.py) judges the implementation's
output for the property at hand."""
import importlib
from fractions import Fraction as F
from . import common as C
from . import simrun as R
from . import sim_check as SC
from . import xcut as X


def _ids(case, key):
    gc = case['gc']
    return {gc.idmap[u] for u in (case.get(key) or [])}


class SIRlike:
    """esir_lib (fast_nonMarkov_SIR with table rules 'NM', fast_SIR 'FSIR'), esis_lib (fast_SIS,
    fast_nonMarkov_SIS): same case fields and outputs as gil_lib"""
    def __init__(self, name, modname, kind, sir, entry, model_file, proved):
        self.name, self.modname, self.kind, self.sir, self.entry, self.model_file, self.proved = name, modname, kind, sir, entry, model_file, proved

    def lib(self):
        return importlib.import_module('harness.' + self.modname)

    def available(self):
        try:
            lib = self.lib()
        except ImportError:
            return False
        ok, log = C.build_driver(lib.COMP)
        return ok

    def merge(self, rows):
        """one row per distinct time (what summary() of the full-data object reports)"""
        last = {}
        for t, c in rows: last[t] = list(c)
        return sorted(last.items())

    def oracle(self, what, lib, EoN, sim):
        sir = self.sir
        moves = X.SIR_MOVES if sir else X.SIS_MOVES
        def f(case, impl, m):
            if impl['status'] != 'OK':
                return []
            gc = case['gc']; N = len(gc.order)
            if isinstance(impl.get('rows'), str):
                return [('arrays', impl['rows'])]
            out = []
            # an event at exactly tmin (a zero user delay, or a dyadic coincidence of scripted draws) is a
            # same-instant tie with the initial condition: never judged by the cross-cutting oracles
            tr = impl.get('trans')
            tie0 = isinstance(tr, list) and any(s is not None and C.close(t, float(case['tmin'])) for t, s, g in tr)
            if not tie0 and not isinstance(impl['rows'], tuple) and len(impl['rows']) > 1 and C.close(impl['rows'][1][0], float(case['tmin'])):
                tie0 = True
            if tie0 and what in ('initial_condition', 'valid_transmissions', 'full_vs_arrays'):
                return []
            if what == 'wf_traj':
                rows = impl['rows']
                if case.get('full') and not isinstance(rows, tuple):
                    # summary() merges simultaneous events: judge merged rows without the one-move clause
                    d = X.wf_traj(rows, case['tmin'], case['tmax'], N, moves, continuous=False)
                    if not d and case['tmax'] is not None and rows and len(rows) > 1 and not rows[-1][0] < float(case['tmax']):
                        d = 'last row at %r, not before tmax=%s' % (rows[-1][0], case['tmax'])
                else:
                    d = X.wf_traj(rows, case['tmin'], case['tmax'], N, moves, continuous=True)
                if d: out.append(('wf_traj', d))
            elif what == 'initial_condition':
                if case.get('i0') is not None and case.get('rho') is None:
                    d = X.initial_condition(impl['rows'], impl.get('hist'), N, _ids(case, 'i0'), _ids(case, 'r0') if sir else set(), case['tmin'], sir)
                    if d: out.append(('initial-condition', d))
            elif what == 'valid_transmissions':
                # fast_nonMarkov_SIS: the documented contract of the user's rule is 'all delays are before
                # recovery'; the C13 tables deliberately ignore it, so that simulator is judged by c09.py's own battery
                if 'hist' in impl and case.get('i0') is not None and self.name != 'fast_nonMarkov_SIS':
                    G = gc.G
                    adj = {gc.idmap[u]: {gc.idmap[v] for v in G.neighbors(u)} for u in gc.order}
                    d = X.valid_transmissions(impl['trans'], impl['hist'], adj, _ids(case, 'i0'), case['tmin'], sir=sir)
                    if d: out.append(('transmissions', d))
            elif what == 'full_vs_arrays':
                if 'hist' in impl:
                    plain = lib.run_impl(EoN, sim, case, m.get('draws', []), full=False)
                    if plain['status'] == 'OK' and not isinstance(plain['rows'], (str, tuple)):
                        mv = {(0, 1), (1, 2)} if sir else {(0, 1), (1, 0)}
                        d = X.full_vs_arrays(impl['hist'], plain['rows'], 3 if sir else 2, case['tmin'], mv)
                        if d: out.append(('full-vs-arrays', d))
                        if not d and not isinstance(impl['rows'], (str, tuple)):
                            if R.rows_equal(self.merge(impl['rows']), [(F(t).limit_denominator(10 ** 9) if False else t, c) for t, c in self.merge(plain['rows'])]):
                                out.append(('accessors', 'S()/I()/R()/t() of the full-data object differ from the plain arrays: %s' % R.rows_equal(self.merge(impl['rows']), self.merge(plain['rows']))))
                    elif plain['status'] != 'OK':
                        out.append(('plain-mode', 'full-data run returns but the same draws without return_full_data give %s %s' % (plain['status'], plain.get('err', ''))))
            return out
        return f

    def run(self, run, pid, EoN, sim, tier, what, total):
        lib = self.lib(); rng = run.rng
        n = 500 if tier == 'quick' else 8000
        kw = {}
        cases = []
        for i in range(n):
            c = lib.gen_case(rng, kind=self.kind, nmax=8)
            if what in ('valid_transmissions', 'full_vs_arrays'): c['full'] = True
            cases.append(c)
        res = SC.Result()
        SC.run_cases(lib, EoN, sim, cases, ['W ' + R.ent_tokens(rng) for _ in cases], self.oracle(what, lib, EoN, sim),
                     lambda case, m, impl: m['status'] == 'OK' and len(m.get('rows', [])) >= 2, res, self.name)
        SC.report(run, pid, self.entry, res, self.model_file, 'its own property file')
        total.n += res.n; total.nontrivial += res.nontrivial; total.distinct |= res.distinct; total.samples += res.samples[:1]
        return {'proved': self.proved, 'cases': res.n, 'mismatches': len(res.mism), 'oracle_failures': len(res.oracle_bad), 'distribution': res.stats}

    def replay(self, rp):
        lib = self.lib()
        EoN = C.import_eon(); import EoN.simulation as sim
        j = rp['replay']; case = lib.case_from_json(j)
        draws = [F(x) for x in j.get('draws', [])]
        impl = lib.run_impl(EoN, sim, case, draws)
        print('implementation:', {k: v for k, v in impl.items() if k not in ('inv', 'log', 'calls')})
        bad = []
        for what in ('wf_traj', 'initial_condition', 'valid_transmissions', 'full_vs_arrays'):
            bad += self.oracle(what, lib, EoN, sim)(case, impl, {'status': 'OK', 'draws': draws})
        print('oracle verdict:', bad or 'holds'); return 1 if bad else 0


class Discrete(SIRlike):
    """disc_lib: discrete_SIR (table rules), basic_discrete_SIR, basic_discrete_SIS, percolation_based_discrete_SIR"""
    def oracle(self, what, lib, EoN, sim):
        sir = self.sir
        def f(case, impl, m):
            if impl['status'] != 'OK' or isinstance(impl.get('rows'), str):
                return []
            gc = case['gc']; N = len(gc.order)
            out = []
            if case['tmax'] is not None and (F(case['tmax']) - F(case['tmin'])).denominator != 1:
                return []      # the property speaks about horizons that are a whole number of steps
            if what == 'wf_traj':
                ends = case['tmax'] is None and case.get('rec') is None and m.get('status') == 'OK'
                d = X.wf_traj(impl['rows'], case['tmin'], case['tmax'], N, None, continuous=False, final_no_infected=ends)
                if not d and not isinstance(impl['rows'], tuple) and not case.get('full'):
                    # one row per time step (summary() of the full-data object only lists times at which something changed)
                    for i in range(1, len(impl['rows'])):
                        if not C.close(impl['rows'][i][0] - impl['rows'][i - 1][0], 1.0):
                            d = 'rows %d->%d are %r apart, not one time step' % (i - 1, i, impl['rows'][i][0] - impl['rows'][i - 1][0]); break
                if d: out.append(('wf_traj', d))
            elif what == 'initial_condition':
                if case.get('i0') is not None and case.get('rho') is None:
                    d = X.initial_condition(impl['rows'], impl.get('hist'), N, _ids(case, 'i0'), _ids(case, 'r0') if sir else set(), case['tmin'], sir)
                    if d: out.append(('initial-condition', d))
            elif what == 'valid_transmissions':
                if 'hist' in impl and case.get('i0') is not None and case.get('rec') is None:
                    G = gc.G
                    adj = {gc.idmap[u]: {gc.idmap[v] for v in G.neighbors(u)} for u in gc.order}
                    d = X.valid_transmissions(impl['trans'], impl['hist'], adj, _ids(case, 'i0'), case['tmin'], sir=sir, discrete=True)
                    if d: out.append(('transmissions', d))
            return out
        return f


class Generic:
    """simple_lib / complex_lib: arbitrary status sets; the trajectory oracle checks time order,
    tmax, non-negative counts and that one node changes per row"""
    def __init__(self, name, modname, entry, model_file):
        self.name, self.modname, self.entry, self.model_file = name, modname, entry, model_file

    def lib(self):
        return importlib.import_module('harness.' + self.modname)

    def available(self):
        try:
            lib = self.lib()
        except ImportError:
            return False
        ok, log = C.build_driver(lib.COMP)
        return ok

    def oracle(self, what):
        def f(case, impl, m):
            if impl['status'] != 'OK' or m.get('status') != 'OK': return []
            rows = impl.get('rows')
            if what != 'wf_traj' or rows is None or isinstance(rows, str) or case.get('full'): return []
            if isinstance(rows, tuple) and rows and rows[0] == 'RAGGED':
                return [('wf_traj', 'arrays of different lengths %r' % (rows[1],))]
            N = len(case['gc'].order); tmin = case['tmin']; tmax = case['tmax']
            if not rows: return [('wf_traj', 'no rows')]
            if not C.close(rows[0][0], float(tmin)): return [('wf_traj', 'first time %r is not tmin=%s' % (rows[0][0], tmin))]
            for i, (t, c) in enumerate(rows):
                if any(x < 0 for x in c) or sum(c) > N * max(1, len(c)):
                    return [('wf_traj', 'row %d has impossible counts %r' % (i, c))]
                if i:
                    if t < rows[i - 1][0]: return [('wf_traj', 'time decreases at row %d' % i)]
                    if tmax is not None and not t < float(tmax) and not case.get('full'):
                        return [('wf_traj', 'row %d at %r, not before tmax=%s' % (i, t, tmax))]
                    if not case.get('full'):
                        d = [a - b for a, b in zip(c, rows[i - 1][1])]
                        # a status listed twice in return_statuses is reported twice: judge distinct columns
                        if sorted(x for x in set(map(tuple, [[dd] for dd in d])) if x != (0,)) and (max(d) > 1 or min(d) < -1):
                            return [('wf_traj', 'rows %d->%d differ by %r: more than one node changed' % (i - 1, i, d))]
            return []
        return f

    def run(self, run, pid, EoN, sim, tier, what, total):
        if what != 'wf_traj':
            return {'proved': False, 'status': 'generic statuses: covered by the component\'s own check'}
        lib = self.lib(); rng = run.rng
        n = 400 if tier == 'quick' else 6000
        cases = [lib.gen_case(rng) for i in range(n)]
        res = SC.Result()
        SC.run_cases(lib, EoN, sim, cases, ['W ' + R.ent_tokens(rng) for _ in cases], self.oracle(what),
                     lambda case, m, impl: m['status'] == 'OK' and len(m.get('rows', [])) >= 2, res, self.name)
        SC.report(run, pid, self.entry, res, self.model_file, 'its own property file')
        total.n += res.n; total.nontrivial += res.nontrivial; total.distinct |= res.distinct; total.samples += res.samples[:1]
        return {'proved': False, 'cases': res.n, 'mismatches': len(res.mism), 'oracle_failures': len(res.oracle_bad), 'distribution': res.stats}


ADAPTERS = [
    SIRlike('fast_nonMarkov_SIR', 'esir_lib', 'NM', True, 'fast_nonMarkov_SIR', 'Model/EventSIR.v', 'C11: first-passage percolation, arrays and transmissions read off the final state'),
    SIRlike('fast_SIR', 'esir_lib', 'FSIR', True, 'fast_SIR', 'Model/EventSIR.v', 'C11 (through the shared loop)'),
    SIRlike('fast_SIS', 'esis_lib', 'fast_SIS', False, 'fast_SIS', 'Model/EventSIS.v', 'C02fast: log_ok (every event enabled)'),
    SIRlike('fast_nonMarkov_SIS', 'esis_lib', 'fast_nonMarkov_SIS', False, 'fast_nonMarkov_SIS', 'Model/EventSIS.v', 'C13: refines the reference agenda semantics'),
    Discrete('discrete_SIR', 'disc_lib', 'DSIR', True, 'discrete_SIR', 'Model/Discrete.v', 'C12: dsir_bfs (rows = BFS generation sizes, S+I+R=N, fuel never exhausted)'),
    Discrete('basic_discrete_SIR', 'disc_lib', 'BSIR', True, 'basic_discrete_SIR', 'Model/Discrete.v', 'C12 (forwards to discrete_SIR)'),
    Discrete('basic_discrete_SIS', 'disc_lib', 'SIS', False, 'basic_discrete_SIS', 'Model/Discrete.v', 'C12: sis_step_law'),
    Discrete('percolation_based_discrete_SIR', 'disc_lib', 'PSIR', True, 'percolation_based_discrete_SIR', 'Model/Discrete.v', 'C12: perc_sir_pathwise'),
    Generic('Gillespie_simple_contagion', 'simple_lib', 'Gillespie_simple_contagion', 'Model/Simple.v'),
    Generic('Gillespie_complex_contagion', 'complex_lib', 'Gillespie_complex_contagion', 'Model/Complex.v'),
]


def run_others(run, pid, EoN, sim, tier, per, total, what):
    for a in ADAPTERS:
        try:
            if not a.available():
                per[a.name] = {'proved': False, 'status': 'component not built'}
                continue
            per[a.name] = a.run(run, pid, EoN, sim, tier, what, total)
        except Exception as e:
            import traceback
            run.violation('%s/%s/harness-crash' % (pid, a.name), 'the %s part of the check crashed: %s' % (a.name, e), {'traceback': traceback.format_exc()}, no_input=True)


def replay(rp):
    for a in ADAPTERS:
        if rp['replay'].get('entry', '') == a.entry and hasattr(a, 'replay'):
            return a.replay(rp)
    print('no replay adapter for', rp['replay'].get('entry')); return 2
