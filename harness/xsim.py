"""Registry of the simulator libraries other than gil_lib for the cross-cutting checks
(C04, C05, C09, C10, C14, C18).  Each entry adapts one library (harness/<x>_lib.py) once it
has been merged; until then the list is empty and the checks say so in their evidence."""
from . import common as C

ADAPTERS = []   # filled in as components are merged: objects with .name, .available(), .run(run, pid, EoN, sim, tier, what) -> dict


def run_others(run, pid, EoN, sim, tier, per, total, what):
    for a in ADAPTERS:
        try:
            if not a.available():
                per[a.name] = {'proved': False, 'status': 'component not built'}
                continue
            per[a.name] = a.run(run, pid, EoN, sim, tier, what, total)
        except Exception as e:
            import traceback
            run.violation('%s/%s/harness-crash' % (pid, a.name), 'the %s part of the check crashed: %s' % (a.name, e), {'traceback': traceback.format_exc()}, no_input=True)


def replay(rp):
    for a in ADAPTERS:
        if rp['replay'].get('entry', '').startswith(a.name) and hasattr(a, 'replay'):
            return a.replay(rp)
    print('no replay adapter for', rp['replay'].get('entry')); return 2
