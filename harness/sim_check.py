"""Generic driver of a simulator correspondence run (used by the simulator checks):
the extracted model chooses a draw script for each case (random walk of the sampler
program, or every path), the implementation is run on that script, trace and outputs
are compared, and an independent oracle is evaluated on the implementation's outputs.

A `lib` module provides:
  COMP                         driver component name
  gen_case(rng, ...)           -> case (dict)
  model_line(case, mode)       -> str      mode = 'W <entropy>' | 'A maxdraws maxpaths k d1..dk' | 'D k q..'
  run_impl(EoN, sim, case, draws) -> dict(status, log, rows/hist/trans/err ...)
  compare(case, model_parsed, impl) -> None | str
  case_json(case, draws)       -> replayable JSON
  case_from_json(j)            -> case
"""
from . import common as C
from . import simrun as R


class Result:
    def __init__(self):
        self.n = 0; self.distinct = set(); self.nontrivial = 0
        self.mism = []          # (size, what, replay)
        self.oracle_bad = []    # (size, key_suffix, what, replay)
        self.stats = {}
        self.samples = []

    def stat(self, k, v=1):
        self.stats[k] = self.stats.get(k, 0) + v


def run_cases(lib, EoN, sim, cases, modes, oracle=None, nontrivial=None, res=None, label='random', sample_every=400):
    """cases: list of case dicts; modes: list of mode strings (same length).
    oracle(case, impl, model) -> list of (key_suffix, what); nontrivial(case, model, impl) -> bool"""
    res = res or Result()
    lines = [lib.model_line(c, m) for c, m in zip(cases, modes)]
    outs = C.run_model(lines, lib.COMP)
    for case, line, out in zip(cases, lines, outs):
        paths = out.split(' ## ') if out and ' ## ' in out else [out]
        for pth in paths:
            m = R.parse_model_line(pth)
            res.n += 1
            res.stat(label)
            draws = m.get('draws', [])
            impl = lib.run_impl(EoN, sim, case, draws)
            res.distinct.add((line.split(' W ')[0].split(' A ')[0], tuple(draws)))
            res.stat('model_' + (m['status'] if m['status'] != 'ERR' else 'ERR_' + m.get('err', '?')))
            if m['status'] == 'OK' and 'rows' in m:
                res.stat('events', len(m['rows']) - 1)
            size = len(case['gc'].order) * 1000 + len(draws)
            rp = lib.case_json(case, draws)
            d = lib.compare(case, m, impl)
            if d:
                res.mism.append((size, d, rp))
            if oracle:
                oimpl, orp, om = impl, rp, m
                if impl['status'] == 'OUT' and m['status'] != 'ERR':
                    # the implementation wants more draws than the model's run consumed: let it run on
                    # (1/2 is a valid answer to every kind of call) so that the oracle can judge its output
                    from fractions import Fraction
                    pad = list(draws) + [Fraction(1, 2)] * 60
                    oimpl = lib.run_impl(EoN, sim, case, pad); orp = lib.case_json(case, pad)
                    om = dict(m, draws=pad)
                    res.stat('impl_ran_past_model')
                try:
                    verdicts = oracle(case, oimpl, om) or []
                except Exception as e:
                    # the oracle replays the implementation's own trace against the specification; when the trace is so far from
                    # what the specification allows that the replay itself breaks down, that is a broken correspondence on this
                    # input (reported without a failing input unless another case yields one), never a crash of the check
                    verdicts = []
                    if not d:
                        res.mism.append((size, 'the property oracle could not follow the trace of the implementation (%s: %s)' % (type(e).__name__, str(e)[:80]), orp))
                    res.stat('oracle_could_not_follow')
                for suffix, what in verdicts:
                    res.oracle_bad.append((size, suffix, what, orp))
            if nontrivial is None or nontrivial(case, m, impl):
                res.nontrivial += 1
                if len(res.samples) < 4 and res.n % sample_every == 1:
                    res.samples.append({'case': rp, 'model_output': pth[:400]})
    return res


def report(run, pid, entry, res, model_file, props_file):
    """turn a Result into violations: oracle failures are failing inputs of the property;
    a bare model/implementation disagreement is reported with no-failing-input-found"""
    seen = set()
    for size, suffix, what, rp in sorted(res.oracle_bad, key=lambda x: x[0]):
        key = '%s/%s/%s' % (pid, entry, suffix)
        if key in seen: continue
        seen.add(key)
        run.violation(key, '%s: %s' % (entry, what), dict(rp, entry=entry, what=what, lib=True))
    if res.mism and not res.oracle_bad:
        size, what, rp = min(res.mism, key=lambda x: x[0])
        run.violation('%s/%s/correspondence' % (pid, entry),
                      'correspondence %s <-> EoN.%s no longer checks (the theorems of %s are about the model); the property oracle found no failing input; %s' % (model_file, entry, props_file, what),
                      dict(rp, entry=entry, broken='correspondence %s vs %s' % (model_file, entry), what=what, lib=True), no_input=True)
