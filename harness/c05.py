"""C05: requested initial conditions are what the simulation starts from.
Theorems: coq/Props/C05.v (Gillespie_SIR/SIS: row 0, initial statuses, rho sampling,
rejection of rho+initial_infecteds) and the generated forwarding theorems of Gen/Calls.v
(wrappers) when the translator is built.  Tie: Gillespie model/implementation
correspondence with every way of passing the initial sets.  Failing-input search: every
SIR/SIS simulator and wrapper is run (real random, seeded) on random graphs and the
request is compared with row 0, the statuses at tmin and the later history of the
initially recovered nodes."""
import random as pyrandom
from fractions import Fraction as F
from . import common as C
from . import simrun as R
from . import xcut as X

CLAIM_MORE = 'ALSO proved (C05x.v, C05s.v, C05disc.v; checkers ic_sirb / ic_genb / ic_sisb / dinit_okb sound, extracted, applied to implementation outputs): event-driven SIR on any delay provider and both fast_SIR paths, fast_SIS / fast_nonMarkov_SIS for every argument form, simple and complex contagion, the discrete-time simulators — every returning run starts as requested, rho count and distinctness, EoNError / KeyError clauses. After two repairs of /repo found here: rho together with initial_recovereds is EoNError in every SIR simulator and a random start node is never an initially recovered one (theorems conclude I0 and R0 disjoint).'

CLAIM = dict(
    text="Machine-checked theorems (coq/Props/C05.v, closed under the global context) for Gillespie_SIR/SIS on every graph: row 0 of every run (every draw script) is "
         "(N-|I0|-|R0|, |I0|, |R0|) at tmin, the state the run starts from has exactly the requested statuses, rho draws int(round(N*rho)) (round half to even) DISTINCT nodes "
         "and the run is the run from that explicit set, rho together with initial_infecteds is EoNError. Tie: model/implementation correspondence with single node / list / tuple / set / "
         "dict-keys / array forms. For ALL simulators and wrappers (Gillespie_*, fast_*, fast_nonMarkov_*, discrete_SIR, basic_discrete_SIR/SIS, percolation_based_discrete_SIR) the "
         "request is checked against row 0, the per-node statuses at tmin, 'initially recovered nodes never change' and the EoNError clause on random graphs with exotic labels, "
         "and wrapper == wrapped (basic_discrete_SIR vs discrete_SIR with the default rule on the same seeds).",
    design='DESIGN.md section 4, C05',
    technique='Coq proof (initial-condition theorems over the Gillespie model; generated forwarding theorems for wrappers) + correspondence + all-simulator oracle',
    note="Theorems are delivered simulator by simulator (evidence lists which); for simulators without a merged model this check is the output oracle only.")

CODE = {'S': 0, 'I': 1, 'R': 2}


def forms(rng, i0, intlabels):
    import numpy as np
    fs = ['list', 'tuple', 'set', 'dictkeys']
    if len(i0) == 1: fs.append('single')
    if intlabels: fs.append('ndarray')
    f = rng.choice(fs)
    if f == 'single': return f, i0[0]
    if f == 'tuple': return f, tuple(i0)
    if f == 'set': return f, set(i0)
    if f == 'dictkeys': return f, {u: 0 for u in i0}.keys()
    if f == 'ndarray': return f, np.array(i0)
    return f, list(i0)


SIMS = {  # name: (callable maker, SIR?, takes initial_recovereds?, continuous?)
    'Gillespie_SIR': (lambda E, G, i0, kw: E.Gillespie_SIR(G, 1.0, 1.0, initial_infecteds=i0, **kw), True, True),
    'Gillespie_SIS': (lambda E, G, i0, kw: E.Gillespie_SIS(G, 1.0, 1.0, initial_infecteds=i0, **kw), False, False),
    'fast_SIR': (lambda E, G, i0, kw: E.fast_SIR(G, 1.0, 1.0, initial_infecteds=i0, **kw), True, True),
    'fast_SIS': (lambda E, G, i0, kw: E.fast_SIS(G, 1.0, 1.0, initial_infecteds=i0, **kw), False, False),
    'fast_nonMarkov_SIR': (lambda E, G, i0, kw: E.fast_nonMarkov_SIR(G, trans_time_fxn=lambda u, v: 0.75, rec_time_fxn=lambda u: 1.0, initial_infecteds=i0, **kw), True, True),
    'fast_nonMarkov_SIS': (lambda E, G, i0, kw: E.fast_nonMarkov_SIS(G, trans_time_fxn=lambda u, v, d: [0.75], rec_time_fxn=lambda u: 1.0, initial_infecteds=i0, **kw), False, False),
    'discrete_SIR': (lambda E, G, i0, kw: E.discrete_SIR(G, args=(0.5,), initial_infecteds=i0, **kw), True, True),
    'basic_discrete_SIR': (lambda E, G, i0, kw: E.basic_discrete_SIR(G, 0.5, initial_infecteds=i0, **kw), True, True),
    'basic_discrete_SIS': (lambda E, G, i0, kw: E.basic_discrete_SIS(G, 0.5, initial_infecteds=i0, **kw), False, False),
    'percolation_based_discrete_SIR': (lambda E, G, i0, kw: E.percolation_based_discrete_SIR(G, 0.5, initial_infecteds=i0, **kw), True, True),
}


def one_case(EoN, rng, name, stats):
    import numpy as np
    call, sir, takes_r = SIMS[name]
    kind = rng.choice(['perm', 'str', 'tuple', 'mixed'])
    gc = R.gen_graph(rng, nmax=9, nmin=2, kind=kind)
    n = len(gc.order)
    k = rng.randint(1, min(3, n))
    sel = rng.sample(gc.order, k)
    rest = [u for u in gc.order if u not in sel]
    r0 = rng.sample(rest, min(len(rest), rng.randint(0, 2))) if (takes_r and rng.random() < 0.5) else []
    tmin = rng.choice([0, 0, 2.5, -3, 7])
    form, i0arg = forms(rng, sel, kind == 'perm')
    stats['form_' + form] = stats.get('form_' + form, 0) + 1
    full = rng.random() < 0.6
    kw = {'tmin': tmin, 'return_full_data': full}
    discrete = 'discrete' in name
    kw['tmax'] = tmin + (rng.choice([2, 3, 5]) if discrete else rng.choice([1.5, 3.0, float('inf') if sir else 2.0]))
    if r0 or (takes_r and rng.random() < 0.2): kw['initial_recovereds'] = list(r0)
    seed = rng.randrange(10 ** 6)
    pyrandom.seed(seed); np.random.seed(seed)
    rp = {'sim': name, 'graph': gc.to_json(), 'i0': [repr(u) for u in sel], 'form': form, 'r0': [repr(u) for u in r0],
          'kw': {a: (b if not isinstance(b, list) else None) for a, b in kw.items()}, 'seed': seed}
    try:
        out = call(EoN, gc.G, i0arg, kw)
    except Exception as e:
        return ('%s/crash' % name, '%s raised %s: %s on a valid request (initial_infecteds as %s, initial_recovereds=%r, tmin=%s)' % (name, type(e).__name__, str(e)[:100], form, bool(r0), tmin), rp)
    I0 = {gc.idmap[u] for u in sel}; R0 = {gc.idmap[u] for u in r0}
    if full:
        hist, _ = R.canon_full(out, gc, CODE)
        try:
            cols = [out.t(), out.S(), out.I()] + ([out.R()] if sir else [])
            rows = R.canon_arrays(cols)
        except Exception as e:
            return ('%s/full-data-accessors' % name, '%s full data: S()/I()/R()/t() raised %s' % (name, type(e).__name__), rp)
    else:
        hist = None; rows = R.canon_arrays(out)
    d = X.initial_condition(rows, hist, n, I0, R0, tmin, sir)
    if d:
        shape = 'initial_recovereds' if r0 else 'form-' + form
        return ('%s/%s/%s' % (name, shape, 'full' if full else 'plain'), '%s: %s' % (name, d), rp)
    stats['ok_' + name] = stats.get('ok_' + name, 0) + 1
    return None


def rho_cases(EoN, rng, stats):
    """rho selects int(round(N*rho)) distinct nodes; rho + initial_infecteds is EoNError"""
    import numpy as np
    bad = []
    for name, (call, sir, takes_r) in SIMS.items():
        if name in ('discrete_SIR',):     # discrete_SIR takes rho as well
            pass
        gc = R.gen_graph(rng, nmax=11, nmin=3)
        n = len(gc.order)
        for rho in (0.25, 0.5, 0.3, 1.0, 0.0):
            exp = int(round(n * rho))
            E = EoN
            tmax = 3
            try:
                pyrandom.seed(5); np.random.seed(5)
                fn = getattr(E, name)
                if name.startswith('fast_nonMarkov_SIR'): out = fn(gc.G, trans_time_fxn=lambda u, v: 0.75, rec_time_fxn=lambda u: 1.0, rho=rho, tmax=tmax)
                elif name.startswith('fast_nonMarkov_SIS'): out = fn(gc.G, trans_time_fxn=lambda u, v, d: [0.75], rec_time_fxn=lambda u: 1.0, rho=rho, tmax=tmax)
                elif name == 'discrete_SIR': out = fn(gc.G, args=(0.5,), rho=rho, tmax=tmax)
                elif 'discrete' in name: out = fn(gc.G, 0.5, rho=rho, tmax=tmax)
                else: out = fn(gc.G, 1.0, 1.0, rho=rho, tmax=tmax)
                rows = R.canon_arrays(out)
                if rows[0][1][1] != exp:
                    bad.append(('%s/rho/count' % name, '%s with rho=%s on %d nodes starts with %d infected, int(round(N*rho))=%d' % (name, rho, n, rows[0][1][1], exp),
                                {'sim': name, 'graph': gc.to_json(), 'rho': rho}))
                stats['rho_ok'] = stats.get('rho_ok', 0) + 1
            except Exception as e:
                bad.append(('%s/rho/crash' % name, '%s with rho=%s raised %s: %s' % (name, rho, type(e).__name__, str(e)[:80]), {'sim': name, 'graph': gc.to_json(), 'rho': rho}))
        # both given, in every falsy/truthy combination
        for i0 in ([gc.order[0]], gc.order[0], []):
            for rho in (0.25, 0.0):
                try:
                    fn = getattr(E, name)
                    if name.startswith('fast_nonMarkov_SIR'): fn(gc.G, trans_time_fxn=lambda u, v: 0.75, rec_time_fxn=lambda u: 1.0, rho=rho, initial_infecteds=i0, tmax=2)
                    elif name.startswith('fast_nonMarkov_SIS'): fn(gc.G, trans_time_fxn=lambda u, v, d: [0.75], rec_time_fxn=lambda u: 1.0, rho=rho, initial_infecteds=i0, tmax=2)
                    elif name == 'discrete_SIR': fn(gc.G, args=(0.5,), rho=rho, initial_infecteds=i0, tmax=2)
                    elif 'discrete' in name: fn(gc.G, 0.5, rho=rho, initial_infecteds=i0, tmax=2)
                    else: fn(gc.G, 1.0, 1.0, rho=rho, initial_infecteds=i0, tmax=2)
                    got = 'returned normally'
                except Exception as e:
                    got = type(e).__name__
                stats['both_given'] = stats.get('both_given', 0) + 1
                if got != 'EoNError':
                    bad.append(('%s/rho+initial_infecteds' % name, '%s(rho=%r, initial_infecteds=%s) %s instead of raising EoNError' % (name, rho, 'single node' if not isinstance(i0, list) else 'empty list' if not i0 else 'list', got),
                                {'sim': name, 'graph': gc.to_json(), 'rho': rho, 'i0': repr(i0)}))
        # rho together with initial_recovereds (SIR simulators that take both): either rejected with EoNError, or the run starts
        # from round(N*rho) infected nodes AND the requested recovered nodes: row 0 = (N-k-|R0|, k, |R0|), every row a census of N nodes
        if takes_r and sir:
            r0 = list(gc.order[:max(1, n // 3)])
            for rho in (None, 0.5, 0.25):                   # None: the default single random start node
                if (1 if rho is None else int(round(n * rho))) + len(r0) > n: continue      # an inconsistent request is outside the property
                for seed in range(12):
                    try:
                        pyrandom.seed(seed); np.random.seed(seed)
                        fn = getattr(E, name)
                        if name.startswith('fast_nonMarkov_SIR'): out = fn(gc.G, trans_time_fxn=lambda u, v: 0.75, rec_time_fxn=lambda u: 1.0, rho=rho, initial_recovereds=r0, tmax=3)
                        elif name == 'discrete_SIR': out = fn(gc.G, args=(1.0,), rho=rho, initial_recovereds=r0, tmax=3)
                        elif 'discrete' in name: out = fn(gc.G, 1.0, rho=rho, initial_recovereds=r0, tmax=3)
                        else: out = fn(gc.G, 1.0, 1.0, rho=rho, initial_recovereds=r0, tmax=3)
                    except Exception as e:
                        stats['rho+r0_rejected'] = stats.get('rho+r0_rejected', 0) + 1
                        if type(e).__name__ != 'EoNError':
                            bad.append(('%s/rho+initial_recovereds/crash' % name, '%s(rho=%r, initial_recovereds=%d nodes) with random.seed(%d) raised %s: %s (neither EoNError nor a run that honours both requests)' % (name, rho, len(r0), seed, type(e).__name__, str(e)[:80]),
                                        {'sim': name, 'graph': gc.to_json(), 'rho': rho, 'r0': repr(r0), 'seed': seed}))
                        break
                    rows = R.canon_arrays(out); k = 1 if rho is None else int(round(n * rho))
                    if not rows:
                        bad.append(('%s/rho+initial_recovereds' % name, '%s(rho=%r, initial_recovereds=%d of %d nodes) with random.seed(%d) returned empty arrays (no row at tmin)' % (name, rho, len(r0), n, seed),
                                    {'sim': name, 'graph': gc.to_json(), 'rho': rho, 'r0': repr(r0), 'seed': seed}))
                        break
                    stats['rho+r0_runs'] = stats.get('rho+r0_runs', 0) + 1
                    wrong = [(t, c) for t, c in rows if min(c) < 0 or sum(c) != n]
                    if list(rows[0][1]) != [n - k - len(r0), k, len(r0)] or wrong:
                        bad.append(('%s/rho+initial_recovereds' % name, '%s(rho=%r, initial_recovereds=%d of %d nodes) with random.seed(%d): row 0 is %r, requested (S,I,R) = %r%s' % (
                                        name, rho, len(r0), n, seed, list(rows[0][1]), [n - k - len(r0), k, len(r0)], '; rows that are no census of %d nodes: %r' % (n, wrong[:3]) if wrong else ''),
                                    {'sim': name, 'graph': gc.to_json(), 'rho': rho, 'r0': repr(r0), 'seed': seed}))
                        break
    return bad


def wrapper_equiv(EoN, rng, stats):
    """basic_discrete_SIR(G,p,initial_infecteds=X, ...) starts (and runs) the same epidemic as discrete_SIR with the default rule"""
    import numpy as np
    bad = []
    for i in range(40):
        gc = R.gen_graph(rng, nmax=9, nmin=2)
        sel = rng.sample(gc.order, rng.randint(1, min(3, len(gc.order))))
        rest = [u for u in gc.order if u not in sel]
        r0 = rng.sample(rest, min(len(rest), rng.randint(0, 2)))
        p = rng.choice([0.25, 0.5, 1.0]); tmin = rng.choice([0, 2, -1]); tmax = tmin + 6
        seed = rng.randrange(10 ** 6)
        outs = []
        for which in (0, 1):
            pyrandom.seed(seed); np.random.seed(seed)
            try:
                if which == 0:
                    o = EoN.basic_discrete_SIR(gc.G, p, initial_infecteds=list(sel), initial_recovereds=list(r0), tmin=tmin, tmax=tmax)
                else:
                    o = EoN.discrete_SIR(gc.G, args=(p,), initial_infecteds=list(sel), initial_recovereds=list(r0), tmin=tmin, tmax=tmax)
                outs.append(R.canon_arrays(o))
            except Exception as e:
                outs.append('EXC ' + type(e).__name__)
        stats['wrapper_pairs'] = stats.get('wrapper_pairs', 0) + 1
        if outs[0] != outs[1]:
            bad.append(('basic_discrete_SIR/wrapper-vs-discrete_SIR', 'basic_discrete_SIR(G,%s,initial_infecteds=X,initial_recovereds=Y,tmin=%s,tmax=%s) gives %r, discrete_SIR with the default rule and the same seeds gives %r' % (p, tmin, tmax, str(outs[0])[:150], str(outs[1])[:150]),
                        {'graph': gc.to_json(), 'i0': [repr(u) for u in sel], 'r0': [repr(u) for u in r0], 'p': p, 'tmin': tmin, 'tmax': tmax, 'seed': seed}))
    return bad


def run(run, tier):
    EoN = C.import_eon()
    import EoN.simulation as sim
    from . import gil_lib as GL
    from . import sim_check as SC
    props = C.check_props('C05')
    ok, log = C.build_driver(GL.COMP)
    if not ok:
        run.violation('C05/build', 'extracted model does not build: ' + log[-500:], {'log': log[-3000:]}, no_input=True)
        C.proof_coverage(run, props, 1, 0, 'build failed', [log[-300:]]); return
    rng = run.rng; stats = {}
    # (1) Gillespie: correspondence with every way of passing the sets (the model sees the element list)
    per = {}
    def gil_oracle(case, impl, m):
        if impl['status'] != 'OK' or case['i0'] is None: return []
        gc = case['gc']
        I0 = {gc.idmap[u] for u in case['i0']}; R0 = {gc.idmap[u] for u in (case['r0'] or [])} if case['kind'] == 'SIR' else set()
        d = X.initial_condition(impl['rows'], impl.get('hist'), len(gc.order), I0, R0, case['tmin'], case['kind'] == 'SIR')
        return [('initial-condition/' + case['i0_form'], d)] if d else []
    total = SC.Result()
    for kind in ('SIR', 'SIS'):
        res = SC.Result()
        n = 800 if tier == 'quick' else 10000
        cases = [GL.gen_case(rng, kind, nmax=8, malformed=(i % 10 == 0)) for i in range(n)]
        SC.run_cases(GL, EoN, sim, cases, ['W ' + R.ent_tokens(rng, 12) for _ in cases], gil_oracle, None, res, 'Gillespie_' + kind)
        SC.report(run, 'C05', 'Gillespie_' + kind, res, 'Model/Gillespie.v', 'Props/C05.v')
        per['Gillespie_' + kind] = {'proved': True, 'cases': res.n, 'mismatches': len(res.mism), 'oracle_failures': len(res.oracle_bad)}
        total.n += res.n; total.nontrivial += res.nontrivial; total.distinct |= res.distinct; total.samples += res.samples[:1]
    # (2) every simulator and wrapper: the request vs. what the run starts from
    nper = 60 if tier == 'quick' else 1500
    found = {}
    for name in SIMS:
        for i in range(nper):
            v = one_case(EoN, rng, name, stats)
            total.n += 1
            if v is None: total.nontrivial += 1; total.distinct.add((name, i))
            elif v[0] not in found: found[v[0]] = v
    for v in rho_cases(EoN, rng, stats) + wrapper_equiv(EoN, rng, stats):
        if v[0] not in found: found[v[0]] = v
    for key, (k, what, rp) in sorted(found.items()):
        run.violation('C05/' + k, what, dict(rp, kind='all-simulator-oracle'))
    # (3) wrapper forwarding theorems generated from the source
    try:
        from . import calls_lib
        per['forwarding'] = calls_lib.check_forwarding(run, ['basic_discrete_SIR', 'percolation_based_discrete_SIR', 'fast_SIR', 'basic_discrete_SIS'])
    except ImportError:
        per['forwarding'] = 'calls2v translator not merged yet'
    from . import xsim
    xsim.run_others(run, 'C05', EoN, sim, tier, per, total, 'initial_condition')
    from . import xc05; total.n += xc05.part(run, tier, 'C05', props, per) or 0
    from . import discx; discx.part(run, tier, 'C05', props, per)
    from . import xsis05; total.n += xsis05.part(run, tier, 'C05', props, per) or 0
    if not props['ok']:
        run.violation('C05/proof', 'Props/C05.v no longer checks: %s' % props['log'][-400:], {'broken': 'coq/Props/C05.v', 'log': props['log']}, no_input=True)
    C.proof_coverage(run, props, total.n, min(len(total.distinct), total.nontrivial),
                     'Gillespie_SIR/SIS: model-chosen scripts on random graphs, initial sets passed as single node / list / tuple / set / dict keys, with/without initially recovered nodes, tmin in {0,5/2,-3/2,..}, rho, 10%% malformed (rho + initial_infecteds). '
                     'All 10 simulators/wrappers: %d random requests each (exotic labels; forms incl. ndarray; initial_recovereds; tmin; both return modes) + rho in {0,.25,.3,.5,1} + rho together with list/single node/empty list + basic_discrete_SIR vs discrete_SIR on equal seeds. Non-trivial = the request was honoured (counted), distinct = distinct cases.' % nper,
                     total.samples, {'simulators': per, 'distribution': stats})


def replay(rp):
    if rp['replay'].get('discx'):
        from . import discx
        return discx.replay(rp)
    EoN = C.import_eon()
    j = rp['replay']
    if j.get('lib'):
        from . import gil_lib as GL
        return GL.replay(rp)
    print('replay of an all-simulator oracle case:', {k: v for k, v in j.items() if k != 'graph'})
    print('re-run ./check C05 (cases are regenerated from the seed)'); return 2
