"""Event-driven SIR (fast_nonMarkov_SIR with table rules, fast_SIR under scripted draws)
and the percolation builders: case generation, model lines for the `esir` driver,
running the implementation, comparison (trace + rule calls + outputs), and the
first-passage-percolation oracle (plain Dijkstra, independent of the Coq model).

Same interface as gil_lib (COMP, gen_case, model_line, run_impl, compare, case_json,
case_from_json, oracle).  Case kinds: 'NM' = fast_nonMarkov_SIR with deterministic
tables, 'FSIR' = fast_SIR.  Statuses 0=S, 1=I, 2=R.

Ties: user-supplied delays make simultaneous events normal.  The plain arrays have one
row per event; `summary()` of the full-data object has one row per distinct time.
`merge_ties(rows)` (last row of each run of equal times) is the canonical form that both
agree on; `run_impl(..., full=True)['rows']` is the summary, i.e. already merged."""
import heapq, math
from fractions import Fraction as F
from . import common as C
from . import simrun as R

COMP = 'esir'
CODE = {'S': 0, 'I': 1, 'R': 2}
FUEL = 400
INF = float('inf')

DELAYS = [F(0), F(1, 2), F(1), F(1), F(2), F(3), None]
DURS = [F(0), F(1, 2), F(1), F(2), F(2), None]


def fl(x):
    return INF if x is None else float(x)


def merge_ties(rows):
    out = []
    for t, c in rows:
        if out and float(out[-1][0]) == float(t): out[-1] = (t, c)
        else: out.append((t, c))
    return out


# ------------------------------------------------------------- generation ----
def gen_tables(rng, gc, delays=DELAYS, durs=DURS):
    G = gc.G
    rtab = {u: rng.choice(durs) for u in gc.order}
    dtab = {(u, v): rng.choice(delays) for u in gc.order for v in G.neighbors(u)}
    return dtab, rtab


def gen_case(rng, kind='NM', nmax=7, malformed=False, zero_init_dur=False, directed=None):
    if kind == 'FSIR':
        ewl = rng.choice([None, 'tw', 'tw']); nwl = rng.choice([None, None, 'rw'])
    else:
        ewl = nwl = None
    directed = (rng.random() < 0.3) if directed is None else directed
    gc = R.gen_graph(rng, nmax=nmax, ewl=ewl, nwl=nwl, directed=directed)
    n = len(gc.order)
    tmin = F(rng.choice([0, 0, 5, -3]), rng.choice([1, 2]))
    case = {'kind': kind, 'gc': gc, 'full': rng.random() < 0.5, 'tmin': tmin, 'rho': None, 'r0': None, 'i0_form': 'list',
            'tmax': rng.choice([None, None, tmin + F(rng.randint(1, 8), 2)])}
    case['joint'] = kind == 'NM' and rng.random() < 0.3        # the joint user-function API trans_and_rec_time_fxn(node, susceptible_neighbors, *args)
    r = rng.random()
    if malformed and r < 0.5:
        case['i0'] = [gc.order[0]]; case['rho'] = F(1, 4)              # both given: EoNError
    elif malformed:
        case['i0'] = None; case['rho'] = F(1, 4); case['r0'] = [gc.order[0]]   # rho + recovereds: EoNError
    elif r < 0.1:
        case['i0'] = None; case['rho'] = rng.choice([None, F(1, 4), F(1, 2), F(3, 8), F(1)])
    elif r < 0.2:
        # the default start node with initial_recovereds given: drawn from the nodes that are NOT initially
        # recovered (/repo 0a3e1b4); now and then every node is initially recovered: random.sample([], 1) -> ValueError
        case['i0'] = None; case['rho'] = None
        case['r0'] = list(gc.order) if rng.random() < 0.15 else rng.sample(gc.order, rng.randint(0, max(0, n - 1)))
    else:
        k = rng.randint(1, min(3, n)) if rng.random() < 0.95 else 0
        sel = rng.sample(gc.order, k)
        case['i0'] = sel
        case['i0_form'] = rng.choice(['list', 'tuple', 'set', 'single'] if k == 1 else ['list', 'tuple', 'set', 'dictkeys'])
        if rng.random() < 0.35:
            rest = [u for u in gc.order if u not in sel]
            case['r0'] = rng.sample(rest, min(len(rest), rng.randint(0, 2)))
    if kind == 'NM':
        case['dtab'], case['rtab'] = gen_tables(rng, gc)
        if not zero_init_dur and case['i0']:
            for u in case['i0']:
                if case['rtab'][u] == 0: case['rtab'][u] = F(1)
        if not zero_init_dur and case['i0'] is None:
            for u in gc.order:
                if case['rtab'][u] == 0: case['rtab'][u] = F(1, 2)
    else:
        dy = lambda: R.dyadic(rng)
        case['tau'] = dy(); case['gamma'] = dy()
        if rng.random() < 0.7 and case['tau'] == 0: case['tau'] = F(1)
    return case


def table_tokens(case):
    gc = case['gc']; G = gc.G
    t = [R.opt_q(case['rtab'][u]) for u in gc.order]
    t += [R.opt_q(case['dtab'][(u, v)]) for u in gc.order for v in G.neighbors(u)]
    return ' '.join(t)


def model_line(case, mode):
    gc = case['gc']; im = gc.idmap
    nl = lambda l: '0' if l is None else '1 %d %s' % (len(l), ' '.join(str(im[u]) for u in l))
    common = [nl(iter_i0(case)), nl(case['r0']), R.opt_q(case['rho']), C.qtok(case['tmin']), R.opt_q(case['tmax']),
              '1' if case['full'] else '0', str(FUEL)]
    if case['kind'] == 'NM':
        return ' '.join(['NMS', gc.tokens()] + common + [table_tokens(case), mode])
    return ' '.join(['FSIR', gc.tokens(), C.qtok(case['tau']), C.qtok(case['gamma'])] + common + [mode])


def direct_line(case):
    """the ESIR command: esir_det itself (initial_infecteds given), fuel = esir_fuel"""
    gc = case['gc']; im = gc.idmap
    nl = lambda l: '%d %s' % (len(l or []), ' '.join(str(im[u]) for u in (l or [])))
    return ' '.join(['ESIR', gc.tokens(), nl(iter_i0(case)), nl(case['r0']), C.qtok(case['tmin']), R.opt_q(case['tmax']),
                     '1' if case['full'] else '0', '-1', table_tokens(case)])


def shape_i0(case):
    i0 = case['i0']
    if i0 is None: return None
    f = case['i0_form']
    if f == 'single': return i0[0]
    if f == 'tuple': return tuple(i0)
    if f == 'set': return set(i0)
    if f == 'dictkeys': return {u: 1 for u in i0}.keys()
    return list(i0)


def iter_i0(case):
    """the initially infected nodes in the order the code will iterate over the caller's
    container (a set's order is its hash order: an input of the run, not a result)"""
    if case['i0'] is None: return None
    if case['i0_form'] == 'single': return [case['i0'][0]]
    return list(shape_i0(case))


def call_impl(EoN, case, full=None, calls=None):
    gc = case['gc']; im = gc.idmap
    kw = dict(initial_infecteds=shape_i0(case), rho=None if case['rho'] is None else float(case['rho']),
              tmin=float(case['tmin']), tmax=fl(case['tmax']),
              return_full_data=case['full'] if full is None else full)
    if case['r0'] is not None: kw['initial_recovereds'] = list(case['r0'])
    if case['kind'] == 'NM':
        dtab, rtab = case['dtab'], case['rtab']
        def ttf(u, v, *a):
            if calls is not None: calls.append((im[u], im[v]))
            return fl(dtab[(u, v)])
        def rtf(u, *a):
            if calls is not None: calls.append((im[u], None))
            return fl(rtab[u])
        if case.get('joint'):
            # the documented joint form: one call returns ({susceptible neighbour: delay}, duration); consulting the tables in the
            # order the separate form does (duration first, then the neighbours as handed over) gives the same call log
            def both(u, sus, tag):
                assert tag == 'ARGS'
                d = rtf(u)
                return {v: ttf(u, v) for v in sus}, d
            return EoN.fast_nonMarkov_SIR(gc.G, trans_and_rec_time_fxn=both, trans_and_rec_time_args=('ARGS',), **kw)
        return EoN.fast_nonMarkov_SIR(gc.G, trans_time_fxn=ttf, rec_time_fxn=rtf, **kw)
    return EoN.fast_SIR(gc.G, float(case['tau']), float(case['gamma']), transmission_weight=gc.ewl,
                        recovery_weight=gc.nwl, **kw)


def run_impl(EoN, sim, case, draws, full=None):
    gc = case['gc']
    s = R.Scripted(draws, gc.idmap)
    calls = []
    st, val = R.run_impl(lambda: call_impl(EoN, case, full, calls), s, sim, with_np=True)
    out = {'status': st, 'log': s.log, 'used': s.i, 'calls': calls}
    if st == 'EXC': out['err'] = val
    if st == 'OK':
        isfull = case['full'] if full is None else full
        if isfull:
            inv = val
            out['hist'], out['trans'] = R.canon_full(inv, gc, CODE)
            try:
                out['rows'] = R.canon_arrays([inv.t(), inv.S(), inv.I(), inv.R()])
            except Exception as e:
                out['rows'] = 'EXC ' + type(e).__name__
            out['inv'] = inv
        else:
            out['rows'] = R.canon_arrays(val)
    return out


def parse_calls(m):
    cs = []
    for t in (m.get('extra') or {}).get('CALLS', []):
        a, b = t.split('>')
        cs.append((int(a), None if b == '-' else int(b)))
    return cs


def compare(case, m, impl):
    """None when model and implementation agree on trace, rule calls and outputs"""
    if m['status'] == 'DRIVERFAIL':
        return 'model driver failure: %r' % (m.get('raw'),)
    if m['status'] == 'ERR' and m.get('err') == 'ConstPathNotModelled':
        return None
    d = R.compare_trace(impl['log'], m['trace'])
    if d: return d
    if m['status'] == 'ERR':
        if m['err'] in ('OutOfDraws', 'OutOfFuel'):
            return None if impl['status'] in ('OUT', 'OK') else 'model %s, implementation raised %s' % (m['err'], impl.get('err'))
        if impl['status'] != 'EXC' or R.ERRMAP.get(impl['err'], impl['err']) != m['err']:
            return 'model raises %s, implementation %s %s' % (m['err'], impl['status'], impl.get('err', ''))
        return None
    if impl['status'] != 'OK':
        return 'model returns, implementation %s %s' % (impl['status'], impl.get('err', ''))
    if isinstance(impl['rows'], str):
        return 'implementation arrays: ' + impl['rows']
    if case['kind'] == 'NM':
        mc = parse_calls(m)
        if mc != impl['calls']:
            k = next((i for i, (a, b) in enumerate(zip(mc, impl['calls'])) if a != b), min(len(mc), len(impl['calls'])))
            return 'calls of the user rules differ at call %d: implementation %r, model %r' % (
                k, impl['calls'][k:k + 1], mc[k:k + 1])
    mrows = merge_ties(m['rows']) if 'hist' in m else m['rows']
    d = R.rows_equal(impl['rows'], mrows)
    if d: return d
    if 'hist' in m:
        if 'hist' not in impl: return 'model has full data, implementation has not'
        return R.hist_equal(impl['hist'], m['hist']) or R.trans_equal(impl['trans'], m['trans'])
    return None


def case_json(case, draws=None):
    gc = case['gc']
    j = {'kind': case['kind'], 'graph': gc.to_json(),
         'i0': None if case['i0'] is None else [repr(u) for u in case['i0']], 'i0_form': case['i0_form'],
         'r0': None if case['r0'] is None else [repr(u) for u in case['r0']],
         'rho': None if case['rho'] is None else str(case['rho']), 'tmin': str(case['tmin']),
         'tmax': None if case['tmax'] is None else str(case['tmax']), 'full': case['full']}
    if case.get('joint'): j['joint'] = True
    if case['kind'] == 'NM':
        j['rtab'] = [[repr(u), None if d is None else str(d)] for u, d in case['rtab'].items()]
        j['dtab'] = [[repr(u), repr(v), None if d is None else str(d)] for (u, v), d in case['dtab'].items()]
    else:
        j['tau'] = str(case['tau']); j['gamma'] = str(case['gamma'])
    if draws is not None: j['draws'] = [str(d) for d in draws]
    return j


def case_from_json(j):
    ev = lambda l: None if l is None else [eval(x) for x in l]
    fq = lambda x: None if x is None else F(x)
    c = {'kind': j['kind'], 'gc': R.GraphCase.from_json(j['graph']), 'i0': ev(j['i0']), 'i0_form': j['i0_form'],
         'r0': ev(j['r0']), 'rho': fq(j['rho']), 'tmin': F(j['tmin']), 'tmax': fq(j['tmax']), 'full': j['full'], 'joint': bool(j.get('joint'))}
    if j['kind'] == 'NM':
        c['rtab'] = {eval(u): fq(d) for u, d in j['rtab']}
        c['dtab'] = {(eval(u), eval(v)): fq(d) for u, v, d in j['dtab']}
    else:
        c['tau'] = F(j['tau']); c['gamma'] = F(j['gamma'])
    return c


# ---------------------------------------------------------------- L0 oracle ----
def dijkstra(nodes, nbrs, delay, dur, I0, R0):
    """first-passage percolation: shortest-path distance from I0 in the directed graph that
    keeps u->v iff delay(u,v) <= dur(u), with the nodes of R0 removed.  Floats (inf allowed)."""
    dist = {u: INF for u in nodes}
    heap = []
    for u in I0:
        if u not in R0:
            dist[u] = 0.0; heapq.heappush(heap, (0.0, u))
    done = set()
    while heap:
        d, u = heapq.heappop(heap)
        if u in done: continue
        done.add(u)
        for v in nbrs[u]:
            if v in R0: continue
            w = delay(u, v)
            if w <= dur(u) and d + w < dist[v]:
                dist[v] = d + w; heapq.heappush(heap, (d + w, v))
    return dist


def percolation_verdict(case, impl, delay, dur, I0, R0):
    """the statement of C11 evaluated on the implementation's OUTPUT (infection times and
    infectors from transmissions(), recovery times from the histories, or the arrays).
    Returns list of (key_suffix, what).  Everything in id space (0..n-1)."""
    bad = []
    gc = case['gc']; G = gc.G; im = gc.idmap
    n = len(gc.order)
    nbrs = {im[u]: [im[v] for v in G.neighbors(u)] for u in gc.order}
    tmin = float(case['tmin']); tmax = fl(case['tmax'])
    dist = dijkstra(range(n), nbrs, delay, dur, I0, R0)
    exp_inf = {v: tmin + dist[v] for v in range(n) if tmin + dist[v] < tmax}
    exp_rec = {v: exp_inf[v] + dur(v) for v in exp_inf if exp_inf[v] + dur(v) < tmax}
    if 'trans' in impl and not isinstance(impl['trans'], str):
        tr = impl['trans']
        inf = {}; src = {}
        for t, s, v in tr:
            if v in inf:
                bad.append(('twice', 'node %d is infected twice in transmissions()' % v)); return bad
            inf[v] = t; src[v] = s
        if any(tr[i][0] > tr[i + 1][0] for i in range(len(tr) - 1)):
            bad.append(('order', 'transmissions() not in time order: %r' % (tr,)))
        if set(inf) != set(exp_inf):
            bad.append(('infected-set', 'infected nodes %r; first-passage percolation (tmin + distance < tmax) gives %r' % (sorted(inf), sorted(exp_inf))))
            return bad
        for v in inf:
            if not C.close(inf[v], exp_inf[v]):
                bad.append(('infection-time', 'node %d infected at %r; tmin + shortest-path distance = %r' % (v, inf[v], exp_inf[v]))); return bad
            s = src[v]
            if s is None:
                if v not in I0:
                    bad.append(('infector', 'node %d has no infector but is not initially infected' % v))
            else:
                if v in I0 and not (s in inf):
                    bad.append(('infector', 'initial node %d has infector %r' % (v, s)))
                ok = s in inf and v in nbrs[s] and delay(s, v) <= dur(s) and C.close(inf[s] + delay(s, v), inf[v])
                if not ok:
                    bad.append(('infector', 'recorded infector %r of node %d is not a predecessor on a shortest path (inf[src]=%r, delay=%r, duration=%r, inf=%r)' % (
                        s, v, inf.get(s), delay(s, v) if v in nbrs.get(s, []) else None, dur(s), inf[v])))
        hist = impl['hist']
        for v in range(n):
            h = hist.get(v)
            if isinstance(h, str) or h is None:
                bad.append(('history', 'node_history(%d): %r' % (v, h))); continue
            if v in R0:
                if h != [(tmin, 2)]:
                    bad.append(('initially-recovered', 'initially recovered node %d has history %r' % (v, h)))
                continue
            rt = [t for t, s in h if s == 2]
            if v in exp_rec:
                if len(rt) != 1 or not C.close(rt[0], exp_rec[v]):
                    bad.append(('recovery', 'node %d: recovery reported at %r; infection time + duration = %r' % (v, rt, exp_rec[v])))
            elif rt:
                bad.append(('recovery', 'node %d: recovery reported at %r; none expected before tmax=%r (infection %r, duration %r)' % (v, rt, tmax, exp_inf.get(v), dur(v))))
            it = [t for t, s in h if s == 1]
            if it and (v not in exp_inf or not C.close(it[0], exp_inf[v])):
                bad.append(('history', 'node %d: history %r; infection expected at %r' % (v, h, exp_inf.get(v))))
    rows = impl.get('rows')
    if rows is not None and not isinstance(rows, str) and not (isinstance(rows, tuple) and rows and rows[0] == 'RAGGED'):
        evs = sorted([(exp_inf[v], 0) for v in exp_inf if v not in I0] + [(exp_rec[v], 1) for v in exp_rec])
        nI0 = len([v for v in I0 if v in exp_inf]); nR0 = len(R0)
        # expected counts after all events of each distinct time
        S = n - nI0 - nR0; I = nI0; Rc = nR0
        exp_rows = [(tmin, [S, I, Rc])]
        per_event = [(tmin, None)]
        for t, k in evs:
            if k == 0: S -= 1; I += 1
            else: I -= 1; Rc += 1
            exp_rows.append((t, [S, I, Rc]))
        got = merge_ties(rows)
        d = R.rows_equal(got, merge_ties(exp_rows))
        if d:
            bad.append(('rows', 'arrays differ from the first-passage percolation event list (compared per distinct time): ' + d))
        elif 'hist' not in impl and len(rows) != len(exp_rows):
            bad.append(('rows', 'number of reported events %d, expected %d' % (len(rows) - 1, len(exp_rows) - 1)))
        if any(t >= tmax for t, _ in rows):
            bad.append(('tmax', 'an event at or after tmax=%r is reported' % tmax))
    return bad


def initial_ids(case, impl, draws):
    """the initially infected ids: given, or what the scripted random.sample answered"""
    im = case['gc'].idmap
    if case['i0'] is not None:
        return [im[u] for u in iter_i0(case)]
    n = len(case['gc'].order)
    e = impl['log'][0] if impl['log'] else None
    if e is None or e[0] != 'S': return None
    k = e[1]
    pop = sorted(e[2])          # the population the code handed to random.sample (filtered by initial_recovereds)
    if k > len(pop) or k < 0: return None
    r = int(F(draws[0]))
    if r >= len(pop): r = 0        # as simrun.Scripted.sample / exec's rotate
    return [x[0] for x in (pop[r:] + pop[:r])[:k]]


def oracle(case, impl, m=None):
    """C11 oracle for both kinds; [] when the output is what first-passage percolation gives"""
    if impl['status'] == 'OUT':
        return []
    gc = case['gc']; im = gc.idmap
    if case['rho'] is not None and (case['i0'] is not None or case['r0'] is not None):
        if not (impl['status'] == 'EXC' and impl['err'] == 'EoNError'):
            return [('rho+initial', 'rho together with initial nodes was not rejected with EoNError (got %s %s)' % (impl['status'], impl.get('err')))]
        return []
    if case['i0'] is None and case['rho'] is None and case['r0'] is not None and set(gc.order) <= set(case['r0']):
        # every node initially recovered and no start node given: random.sample([], 1) raises ValueError
        if not (impl['status'] == 'EXC' and impl['err'] == 'ValueError'):
            return [('default-start/all-recovered', 'no node is left to start from, the code must fail in random.sample (ValueError); got %s %s' % (impl['status'], impl.get('err')))]
        return []
    if impl['status'] == 'EXC':
        return [('crash', 'raised %s on a valid input' % impl['err'])]
    draws = m['draws'] if m else []
    I0 = initial_ids(case, impl, draws)
    if I0 is not None and case['i0'] is None and case['r0'] is not None and set(I0) & set(im[u] for u in case['r0']):
        return [('default-start/initially-recovered', 'the randomly chosen start node %r is one of the initially recovered nodes' % (I0,))]
    if I0 is None:
        return [('rho/sample', 'initial infected nodes not drawn with random.sample: %r' % (impl['log'][:1],))]
    R0 = set(im[u] for u in (case['r0'] or []))
    if case['kind'] == 'NM':
        inv = {i: u for u, i in im.items()}
        delay = lambda a, b: fl(case['dtab'][(inv[a], inv[b])])
        dur = lambda a: fl(case['rtab'][inv[a]])
        bad = []
        if len(set(impl['calls'])) != len(impl['calls']):
            bad.append(('calls-once', 'a user rule was consulted twice for the same argument: %r' % (impl['calls'],)))
        return bad + percolation_verdict(case, impl, delay, dur, I0, R0)
    tabs = fsir_tables(case, impl, draws, I0, R0)
    if isinstance(tabs, str):
        return [('draws', tabs)]
    if tabs is None:
        return []
    delay, dur = tabs
    return percolation_verdict(case, impl, delay, dur, I0, R0)


def fsir_tables(case, impl, draws, I0, R0):
    """fast_SIR: reconstruct the delay/duration tables from the implementation's OWN calls to
    the random source (rates handed to expovariate reveal which clock each draw is) in the
    order transmissions() gives, checking every rate against tau*w / gamma*w.  Needs full data;
    None when there is nothing to judge."""
    if 'trans' not in impl or isinstance(impl['trans'], str):
        return None
    gc = case['gc']; G = gc.G; im = gc.idmap; inv = {i: u for u, i in im.items()}
    tau = case['tau']; gamma = case['gamma']
    edge_path = gc.ewl is not None or tau * gamma == 0
    nw = (lambda i: F(G.nodes[inv[i]][gc.nwl])) if gc.nwl else (lambda i: F(1))
    ew = (lambda i, j: F(G.adj[inv[i]][inv[j]][gc.ewl])) if gc.ewl else (lambda i, j: F(1))
    log = impl['log']; pos = 0; di = 0
    if case['i0'] is None: pos = 1; di = 1
    status = {i: 0 for i in range(len(gc.order))}
    for r in R0: status[r] = 2
    dtab = {}; rtab = {}
    def take(kind):
        nonlocal pos, di
        if pos >= len(log): return None
        e = log[pos]
        if e[0] != kind: return ('bad', e)
        pos += 1; di += 1
        return e
    for t, s, v in impl['trans']:
        status[v] = 1
        rr = gamma * nw(v)
        if rr > 0:
            e = take('E')
            if e is None or e[0] == 'bad' or not C.close(e[1], float(rr)):
                return 'duration of node %d drawn with %r; the recovery rate is %s' % (v, e, rr)
            rtab[v] = float(draws[di - 1])
        else:
            rtab[v] = INF
        sus = [im[w] for w in G.neighbors(inv[v]) if status[im[w]] == 0]
        if edge_path:
            for w in sus:
                rt = tau * ew(v, w)
                if rt > 0:
                    e = take('E')
                    if e is None or e[0] == 'bad' or not C.close(e[1], float(rt)):
                        return 'delay of edge %d->%d drawn with %r; the transmission rate is %s' % (v, w, e, rt)
                    dtab[(v, w)] = float(draws[di - 1])
                else:
                    dtab[(v, w)] = INF
        else:
            e = take('B')
            p = 1 - math.exp(-float(tau) * rtab[v])
            if e is None or e[0] == 'bad' or e[1] != len(sus) or not C.close(e[2], p, 1e-9):
                return 'number of transmissions of node %d drawn as %r; expected binomial(%d, %r)' % (v, e, len(sus), p)
            k = int(draws[di - 1])
            e = take('S')
            if e is None or e[0] == 'bad' or e[1] != k or sorted(e[2]) != sorted((w,) for w in sus):
                return 'recipients of node %d drawn as %r; expected a %d-sample of the susceptible neighbours %r' % (v, e, k, sus)
            r = int(draws[di - 1])
            if r >= len(sus): r = 0        # as simrun.Scripted.sample / exec's rotate
            pop = sorted(e[2]); rec = [x[0] for x in (pop[r:] + pop[:r])[:k]]
            for w in sus: dtab[(v, w)] = INF
            for w in rec:
                e = take('E')
                if e is None or e[0] == 'bad' or not C.close(e[1], float(tau)):
                    return 'truncated delay of edge %d->%d drawn with %r; the rate is %s' % (v, w, e, tau)
                x = float(draws[di - 1]); T = rtab[v]
                dtab[(v, w)] = x if x < T else x - int(x / T) * T
    if pos != len(log):
        return 'the run made %d calls to the random source, %d are accounted for by infections' % (len(log), pos)
    # edges never consulted lead to nodes that were no longer susceptible: they cannot
    # shorten any path provided that node was infected no later (checked by the verdict
    # through the infection times) -> treat as absent
    inf = {v: t for t, s, v in impl['trans']}
    for (t, s, v) in impl['trans']:
        for w in G.neighbors(inv[v]):
            j = im[w]
            if (v, j) not in dtab:
                if j not in R0 and not (j in inf and inf[j] <= t):
                    return 'edge %d->%d was never given a delay although %d was not infected before %d' % (v, j, j, v)
                dtab[(v, j)] = INF
    return (lambda a, b: dtab.get((a, b), INF)), (lambda a: rtab.get(a, INF))


# ------------------------------------------------------- percolation builders ----
def perc_line(case):
    return ' '.join(['PERC', case['gc'].tokens(), table_tokens(case)])


def run_perc_impl(EoN, case, weights=True):
    gc = case['gc']; im = gc.idmap; calls = []
    dtab, rtab = case['dtab'], case['rtab']
    def ttf(u, v, *a):
        calls.append((im[u], im[v])); return fl(dtab[(u, v)])
    def rtf(u, *a):
        calls.append((im[u], None)); return fl(rtab[u])
    H = EoN.nonMarkov_directed_percolate_network_with_timing(gc.G, ttf, rtf, weights=weights)
    return H, calls


def canon_H(H, gc, weights=True):
    im = gc.idmap
    return {'directed': H.is_directed(), 'nodes': [im[u] for u in H.nodes()],
            'dur': {im[u]: H.nodes[u].get('duration') for u in H.nodes()} if weights else None,
            'node_attr_keys': sorted({k for u in H.nodes() for k in H.nodes[u]}),
            'edge_attr_keys': sorted({k for u, v in H.edges() for k in H.adj[u][v]}),
            'edges': {(im[u], im[v]): H.adj[u][v].get('delay_to_infection') for u, v in H.edges()}}


def parse_pg(m):
    """PG tokens 'u@dur=v@d,v@d' -> (nodes, dur, edges)"""
    nodes = []; dur = {}; edges = {}
    fx = lambda s: INF if s == 'inf' else float(F(s))
    for t in (m.get('extra') or {}).get('PG', []):
        head, _, rest = t.partition('=')
        u, d = head.split('@'); u = int(u)
        nodes.append(u); dur[u] = fx(d)
        for e in rest.split(','):
            if e:
                v, dd = e.split('@'); edges[(u, int(v))] = fx(dd)
    return nodes, dur, edges


def perc_spec(case):
    """the directed graph the property names: same nodes, u->v iff delay <= duration"""
    gc = case['gc']; im = gc.idmap; G = gc.G
    dur = {im[u]: fl(case['rtab'][u]) for u in gc.order}
    edges = {(im[u], im[v]): fl(case['dtab'][(u, v)]) for u in gc.order for v in G.neighbors(u)
             if fl(case['dtab'][(u, v)]) <= fl(case['rtab'][u])}
    return [im[u] for u in gc.order], dur, edges


def reach_py(n, edges, I0, R0):
    seen = set(i for i in I0); todo = list(seen)
    while todo:
        u = todo.pop()
        for (a, b) in edges:
            if a == u and b not in R0 and a not in R0 and b not in seen:
                seen.add(b); todo.append(b)
    return seen


# ------------------------------------------------ cross-cutting theorems (C04/C09/C10) ----
# Props/C04esir.v, Props/C09esir.v, Props/C10esir.v: the per-simulator theorems of the
# cross-cutting properties for fast_nonMarkov_SIR / fast_SIR (every tie policy).  The two
# decidable checkers of coq/Model/EventSIRChk.v (`wf_trajb`: C04, `tx_validb`: C09) are
# extracted into the component 'esirx' and applied here to the IMPLEMENTATION's outputs.
# Coq: every run of the model passes them (C04_esir_checker_accepts_every_run,
# C09_esir_checker_accepts_every_run) and acceptance means the clauses of the property
# (C04_esir_checker_sound, C09_esir_checker_sound).  Nothing above this line uses what follows.
XCOMP = 'esirx'
XPROPS = ('C04esir', 'C09esir', 'C10esir')


def xprops():
    """rebuild and re-check the three theorem files; {name: check_props result}"""
    return {p: C.check_props(p) for p in XPROPS}


def xchk_line(case, rows=None, trans=None, hist=None):
    """XCHK command of ocaml/esirx_driver.ml: the extracted checkers applied to GIVEN outputs
    (rows: [(time, [S, I, R])], trans: [(time, src id | None, tgt id)], hist: {id: [(time, code)]},
    ids = gc.idmap)"""
    gc = case['gc']; im = gc.idmap
    nl = lambda l: '%d %s' % (len(l or []), ' '.join(str(im[u]) for u in (l or [])))
    toks = ['XCHK', gc.tokens(), nl(iter_i0(case)), nl(case['r0']), C.qtok(case['tmin']), R.opt_q(case['tmax']),
            table_tokens(case)]
    if rows is None:
        toks.append('0')
    else:
        toks.append('1 %d %s' % (len(rows), ' '.join('%s %d %d %d' % (C.qtok(F(t)), c[0], c[1], c[2]) for t, c in rows)))
    if trans is None:
        toks.append('0')
    else:
        toks.append('1 %d %s' % (len(trans), ' '.join(
            '%s %s %d' % (C.qtok(F(t)), '0' if s is None else '1 %d' % s, v) for t, s, v in trans)))
    if hist is None or any(isinstance(h, str) for h in hist.values()):
        toks.append('0')
    else:
        n = len(gc.order)
        toks.append('1 %d %s' % (n, ' '.join('%d %s' % (len(hist[i]), ' '.join('%s %d' % (C.qtok(F(t)), s) for t, s in hist[i])) for i in range(n))))
    return ' '.join(toks)


def xlog_line(case):
    gc = case['gc']; im = gc.idmap
    nl = lambda l: '%d %s' % (len(l or []), ' '.join(str(im[u]) for u in (l or [])))
    return ' '.join(['XLOG', gc.tokens(), nl(iter_i0(case)), nl(case['r0']), C.qtok(case['tmin']), R.opt_q(case['tmax']),
                     table_tokens(case)])


def xchk_parse(line):
    """'OK okb2=b traj=b|- tx=b|- cons=b|-' -> {'okb2': bool, 'traj': .., 'tx': .., 'cons': bool|None} ('fail' on a driver failure)"""
    if not line or not line.startswith('OK'):
        return {'fail': line}
    d = {}
    for tok in line.split()[1:]:
        k, v = tok.split('=')
        d[k] = None if v == '-' else v == '1'
    return d


def xchk_domain(case):
    """inside the domain of the theorems (esir_okb2): table rules, initial_infecteds given
    and duplicate-free (always: sampled without replacement), not both rho and infecteds"""
    return case['kind'] == 'NM' and case['i0'] is not None and case['rho'] is None


def xchk_impl(EoN, sim, cases):
    """run the implementation in both return modes on each case and apply the extracted
    checkers to ITS outputs: wf_trajb to the plain arrays, tx_validb to transmissions(),
    consistent_b (Model/Investigation.v) to (node histories of the full-data run, plain arrays).
    Returns [(case, verdict, plain, full)]; verdict as xchk_parse (plus 'impl_failed' when the
    implementation raised or returned unusable outputs: then only okb2 is judged), or {'skip': why}."""
    lines, runs = [], []
    for case in cases:
        if not xchk_domain(case):
            runs.append((case, {'skip': 'outside esir_okb2'}, None, None, {})); continue
        plain = run_impl(EoN, sim, case, [], full=False)
        full = run_impl(EoN, sim, case, [], full=True)
        bad = None
        if plain['status'] != 'OK' or full['status'] != 'OK' or isinstance(plain.get('rows'), (str, tuple)) or isinstance(full.get('trans'), str):
            bad = (plain['status'], plain.get('err'), plain.get('rows') if isinstance(plain.get('rows'), (str, tuple)) else None,
                   full['status'], full.get('err'), full.get('trans') if isinstance(full.get('trans'), str) else None)
        fin = lambda x: x == x and abs(x) != INF
        nonfin = {}
        if not bad:
            # an infinite or NaN time cannot be a rational: such a section is rejected outright
            if not all(fin(t) for t, _ in plain['rows']): nonfin['traj'] = False
            if not all(fin(t) for t, _, _ in full['trans']): nonfin['tx'] = False
            if not all(fin(t) for h in full['hist'].values() if not isinstance(h, str) for t, _ in h): nonfin['cons'] = False
        runs.append((case, bad, plain, full, nonfin))
        lines.append(xchk_line(case) if bad else xchk_line(case, None if 'traj' in nonfin else plain['rows'],
                                                           None if 'tx' in nonfin else full['trans'],
                                                           None if 'cons' in nonfin else full['hist']))
    outs = C.run_model(lines, XCOMP) if lines else []
    it = iter(outs)
    res = []
    for c, v, p, f, nonfin in runs:
        if isinstance(v, dict):                      # skipped: outside the domain
            res.append((c, v, p, f)); continue
        d = xchk_parse(next(it))
        if v is not None: d['impl_failed'] = v       # the implementation did not return usable outputs
        if nonfin and 'fail' not in d:
            d.update(nonfin); d['nonfinite_time'] = sorted(nonfin)
        res.append((c, d, p, f))
    return res
