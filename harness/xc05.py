"""C05 / C18 for the event-driven SIR simulator (fast_nonMarkov_SIR, fast_SIR on both paths),
Gillespie_simple_contagion and Gillespie_complex_contagion: theorem files coq/Props/C05x.v and
coq/Props/C18x.v, the extracted checkers ic_sirb / ic_genb of coq/Model/InitChk.v applied to the
IMPLEMENTATION's own outputs, and the implementation-level form of the C18x theorems: the same
seeds with and without return_full_data must give the same SEQUENCE OF CALLS to random /
numpy.random (with the same arguments) and the same arrays; permuting initial_recovereds or the
insertion order of the (sortable) transition graphs must change nothing.
Called from harness/c05.py and harness/c18.py through part(); stand-alone: ./check xc05."""
import random as pyrandom
from fractions import Fraction as F
from . import common as C
from . import simrun as R

CLAIM = dict(
    claimed=False,
    text="Machine-checked theorems (coq/Props/C05x.v, C18x.v, closed under the global context) for fast_nonMarkov_SIR / fast_SIR (both paths), Gillespie_simple_contagion and "
         "Gillespie_complex_contagion: every returning run, for every draw script, starts from the request (row 0, first history entries, initially recovered nodes untouched, rho count/distinctness, "
         "EoNError / KeyError clauses); the return_full_data flag changes neither the calls made to the random source nor the arrays; initial_recovereds order and (sortable) transition order are irrelevant.",
    design='DESIGN.md section 4, C05 / C18',
    technique='Coq proof (two-phase queue invariant over any delay provider; result-level simulation of sampler programs) + extracted checkers and call-trace comparison on the implementation',
    note='stand-alone form of the xc05 part of C05 / C18')

COMP = 'xc05'
CODE = {'S': 0, 'I': 1, 'R': 2}


# ---------------------------------------------------------------- helpers
def qt(x):
    f = F(x)
    return '%d %d' % (f.numerator, f.denominator)


def rows_tokens(rows):
    return '%d %s' % (len(rows), ' '.join('%s %d %s' % (qt(t), len(c), ' '.join(str(int(x)) for x in c)) for t, c in rows))


def hist_tokens(hist, n):
    if hist is None: return '0'
    parts = []
    for i in range(n):
        h = hist[i]
        parts.append('%d %s' % (len(h), ' '.join('%s %d' % (qt(t), s) for t, s in h)))
    return '1 %d %s' % (n, ' '.join(parts))


def props_join(run, pid, pname, props):
    xp = C.check_props(pname)
    props['theorems'] = list(props['theorems']) + list(xp['theorems'])
    props['axioms'] = dict(props['axioms'], **xp['axioms'])
    if not xp['ok']:
        props['ok'] = False
        props['log'] = (props.get('log') or '') + ' | ' + xp['log'][-400:]
        run.violation('%s/proof/%s' % (pid, pname), 'Props/%s.v no longer checks: %s' % (pname, xp['log'][-400:]),
                      {'broken': 'coq/Props/%s.v' % pname, 'log': xp['log']}, no_input=True)
    return xp


class Rec:
    """a seeded random source that logs every call with its arguments"""
    def __init__(self, seed):
        self.r = pyrandom.Random(seed); self.log = []
    def random(self):
        self.log.append(('random',)); return self.r.random()
    def expovariate(self, rate):
        self.log.append(('expovariate', float(rate))); return self.r.expovariate(rate)
    def choice(self, seq):
        self.log.append(('choice', repr(list(seq)))); return self.r.choice(seq)
    def sample(self, pop, k):
        self.log.append(('sample', repr(list(pop)), k)); return self.r.sample(pop, k)
    def seed(self, *a):
        pass
    def __getattr__(self, name):
        def f(*a, **k):
            self.log.append((name, repr(a))); return getattr(self.r, name)(*a, **k)
        return f


class recording:
    """substitute EoN.simulation.random and numpy.random.binomial by logging, seeded sources"""
    def __init__(self, sim, seed):
        self.sim = sim; self.rec = Rec(seed); self.seed = seed
    def __enter__(self):
        import numpy as np
        self.np = np; self.old = self.sim.random; self.oldb = np.random.binomial
        self.sim.random = self.rec
        rs = np.random.RandomState(self.seed % (2 ** 32)); rec = self.rec
        def binomial(n, p, *a, **k):
            rec.log.append(('binomial', int(n), float(p))); return rs.binomial(n, p, *a, **k)
        np.random.binomial = binomial
        return self.rec
    def __exit__(self, *a):
        self.sim.random = self.old; self.np.random.binomial = self.oldb


def sir_spec(tau, gamma):
    import networkx as nx
    H = nx.DiGraph(); H.add_edge('I', 'R', rate=gamma)
    J = nx.DiGraph(); J.add_edge(('I', 'S'), ('I', 'I'), rate=tau)
    return H, J


def cx_funcs():
    def rate_function(G, node, status, parameters):
        tau, gamma = parameters
        if status[node] == 'I': return gamma
        if status[node] == 'S': return tau * len([v for v in G.neighbors(node) if status[v] == 'I'])
        return 0
    def transition_choice(G, node, status, parameters):
        return 'R' if status[node] == 'I' else 'I'
    def get_influence_set(G, node, status, parameters):
        return [v for v in G.neighbors(node) if status[v] == 'S']
    return rate_function, transition_choice, get_influence_set


SIR_SIMS = ('fast_nonMarkov_SIR', 'fast_SIR', 'fast_SIR_weighted')


def call_sir(EoN, name, gc, kw):
    if name == 'fast_nonMarkov_SIR':
        return EoN.fast_nonMarkov_SIR(gc.G, trans_time_fxn=lambda u, v: 0.75, rec_time_fxn=lambda u: 1.25, **kw)
    if name == 'fast_SIR_weighted':
        return EoN.fast_SIR(gc.G, 1.0, 1.0, transmission_weight='w5', **kw)
    return EoN.fast_SIR(gc.G, 1.0, 1.0, **kw)


def sir_graph(rng, name, n=None):
    kind = rng.choice(['perm', 'str', 'tuple', 'mixed'])
    gc = R.gen_graph(rng, nmax=n or 9, nmin=n or 2, kind=kind)
    if name == 'fast_SIR_weighted':
        for u, v in gc.G.edges(): gc.G.edges[u, v]['w5'] = rng.choice([0.5, 1.0, 2.0])
    return gc, kind


def outputs(out, gc, full, sir=True, statuses=None):
    """(rows, hist or None) of a simulator result; hist as {id: [(t, code)]}"""
    if full:
        code = CODE if statuses is None else statuses
        hist, _ = R.canon_full(out, gc, code)
        if sir:
            rows = R.canon_arrays([out.t(), out.S(), out.I(), out.R()])
        else:
            rows = None
        return rows, hist
    return R.canon_arrays(out), None


# ---------------------------------------------------------------- C05
def c05_sir_cases(EoN, rng, n, stats):
    """event-driven SIR: run the implementation, hand (request, output) to the extracted ic_sirb"""
    import numpy as np
    lines = []; metas = []
    for i in range(n):
        name = SIR_SIMS[i % 3]
        gc, kind = sir_graph(rng, name)
        N = len(gc.order)
        k = rng.randint(1, min(3, N))
        sel = rng.sample(gc.order, k)
        rest = [u for u in gc.order if u not in sel]
        r0 = rng.sample(rest, min(len(rest), rng.randint(0, 2))) if rng.random() < 0.6 else []
        tmin = rng.choice([0, 0, 2.5, -3, 7])
        tmax = tmin + rng.choice([1.5, 3.0, float('inf')])
        full = rng.random() < 0.6
        form = rng.choice(['list', 'tuple', 'set', 'dictkeys'] + (['single'] if k == 1 else []))
        i0arg = {'list': list(sel), 'tuple': tuple(sel), 'set': set(sel), 'dictkeys': {u: 0 for u in sel}.keys(), 'single': sel[0]}[form]
        kw = {'initial_infecteds': i0arg, 'tmin': tmin, 'tmax': tmax, 'return_full_data': full}
        if r0 or rng.random() < 0.2: kw['initial_recovereds'] = rng.choice([list, tuple, set])(r0)
        seed = rng.randrange(10 ** 6)
        pyrandom.seed(seed); np.random.seed(seed)
        rp = {'sim': name, 'graph': gc.to_json(), 'i0': [repr(u) for u in sel], 'form': form, 'r0': [repr(u) for u in r0],
              'tmin': tmin, 'tmax': repr(tmax), 'full': full, 'seed': seed, 'checker': 'ic_sirb'}
        try:
            out = call_sir(EoN, name, gc, kw)
            rows, hist = outputs(out, gc, full)
        except Exception as e:
            metas.append((rp, 'EXC %s: %s' % (type(e).__name__, str(e)[:100]), None)); lines.append(None); continue
        if isinstance(rows, tuple) or (hist and any(isinstance(h, str) for h in hist.values())):
            metas.append((rp, 'malformed output %r' % (rows if isinstance(rows, tuple) else hist,), None)); lines.append(None); continue
        ids = lambda l: ' '.join(str(gc.idmap[u]) for u in l)
        line = 'ICSIR %d %d %s %d %s %s %s %s %s' % (N, len(sel), ids(sel), len(r0), ids(r0), qt(tmin),
                                                      '0' if tmax == float('inf') else '1 ' + qt(tmax), rows_tokens(rows), hist_tokens(hist, N))
        lines.append(line); metas.append((rp, None, rows[:3]))
        stats['sir_' + name] = stats.get('sir_' + name, 0) + 1
    return lines, metas


def gen_generic(rng):
    kind = rng.choice(['perm', 'str', 'tuple', 'mixed'])
    gc = R.gen_graph(rng, nmax=8, nmin=1, kind=kind)
    sts = ['S', 'I', 'R']
    ic = {u: rng.choice(['S', 'S', 'I', 'R']) for u in gc.order}
    rstat = rng.choice([('S', 'I', 'R'), ('I', 'S', 'R'), ('R', 'I', 'S'), ('S', 'I', 'R', 'S')])
    tmin = rng.choice([0, 2.5, -3])
    tmax = tmin + rng.choice([1.0, 3.0])
    return gc, ic, rstat, tmin, tmax


def call_generic(EoN, which, gc, ic, rstat, tmin, tmax, full, order=0):
    if which == 'simple':
        import networkx as nx
        H = nx.DiGraph(); J = nx.DiGraph()
        sp = [('I', 'R', 1.0), ('R', 'S', 0.5)]; ind = [(('I', 'S'), ('I', 'I'), 1.0), (('R', 'S'), ('R', 'R'), 0.25)]
        if order: sp.reverse(); ind.reverse()
        for a, b, r in sp: H.add_edge(a, b, rate=r)
        for a, b, r in ind: J.add_edge(a, b, rate=r)
        return EoN.Gillespie_simple_contagion(gc.G, H, J, ic, rstat, tmin=tmin, tmax=tmax, return_full_data=full)
    rf, tc, gi = cx_funcs()
    return EoN.Gillespie_complex_contagion(gc.G, rf, tc, gi, ic, rstat, tmin=tmin, tmax=tmax, return_full_data=full, parameters=(1.0, 1.0))


def c05_generic_cases(EoN, sim, rng, n, stats):
    import numpy as np
    lines = []; metas = []; bad = []
    for i in range(n):
        which = ('simple', 'complex')[i % 2]
        gc, ic, rstat, tmin, tmax = gen_generic(rng)
        N = len(gc.order)
        full = rng.random() < 0.5 and len(set(rstat)) == len(rstat)
        icarg = dict(ic)
        if rng.random() < 0.3: icarg[('extra', 'key')] = 'I'     # keys outside the graph are never read
        seed = rng.randrange(10 ** 6)
        pyrandom.seed(seed); np.random.seed(seed)
        rp = {'sim': which, 'graph': gc.to_json(), 'ic': {repr(u): s for u, s in ic.items()}, 'rstat': list(rstat), 'tmin': tmin, 'tmax': tmax,
              'full': full, 'seed': seed, 'checker': 'ic_genb'}
        try:
            out = call_generic(EoN, which, gc, icarg, rstat, tmin, tmax, full)
            if full:
                hist, _ = R.canon_full(out, gc, CODE)
                rows = R.canon_arrays([out.t()] + [out.summary()[1][s] for s in rstat])
            else:
                hist = None; rows = R.canon_arrays(out)
        except Exception as e:
            metas.append((rp, 'EXC %s: %s' % (type(e).__name__, str(e)[:100]), None)); lines.append(None); continue
        req = ' '.join(str(CODE[ic[u]]) for u in gc.order)
        line = 'ICGEN %d %s %d %s %s %s %s' % (N, req, len(rstat), ' '.join(str(CODE[s]) for s in rstat), qt(tmin), rows_tokens(rows), hist_tokens(hist, N))
        lines.append(line); metas.append((rp, None, rows[:3]))
        stats['gen_' + which] = stats.get('gen_' + which, 0) + 1
        # a node of the graph missing from a plain-dict IC: KeyError before any draw / user call
        if i % 5 == 0 and N >= 1:
            miss = dict(ic); del miss[rng.choice(gc.order)]
            with recording(sim, seed) as rec:
                try:
                    call_generic(EoN, which, gc, miss, rstat, tmin, tmax, full); got = 'returned normally'
                except Exception as e:
                    got = type(e).__name__
            stats['missing_ic'] = stats.get('missing_ic', 0) + 1
            if got != 'KeyError' or rec.log:
                bad.append(('%s/IC-missing-node' % which, 'Gillespie_%s_contagion with an IC dict that does not list a node of the graph %s (calls to the random source before that: %d); the model says KeyError before any draw' % (which, got, len(rec.log)), dict(rp, missing=True)))
    return lines, metas, bad


def c05_rho(EoN, rng, stats):
    """rho: int(round(N*rho)) distinct nodes are I at tmin (read off the full-data object and handed to ic_sirb);
    rho together with initial_recovereds is EoNError (sim:2310)"""
    import numpy as np
    lines = []; metas = []; bad = []
    for name in SIR_SIMS:
        # N*rho a half-integer (round half to even: 5/2 -> 2, 3/2 -> 2, 1/2 -> 0) and ordinary cases
        for rho, nn in ((0.5, 5), (0.5, 3), (0.25, 6), (0.25, 2), (0.125, 4), (0.375, 4), (0.3, 5), (1.0, 4), (0.0, 3), (0.5, 7)):
            gc, kind = sir_graph(rng, name, nn)
            N = len(gc.order)
            exp = int(round(N * rho))                 # as the property states it (Python floats; exact for the dyadic rho values, round half to even)
            seed = rng.randrange(10 ** 6); pyrandom.seed(seed); np.random.seed(seed)
            rp = {'sim': name, 'graph': gc.to_json(), 'rho': rho, 'seed': seed, 'checker': 'ic_sirb'}
            try:
                out = call_sir(EoN, name, gc, {'rho': rho, 'tmin': 1.5, 'tmax': 4.0, 'return_full_data': True})
                rows, hist = outputs(out, gc, True)
            except Exception as e:
                metas.append((rp, 'EXC %s: %s' % (type(e).__name__, str(e)[:100]), None)); lines.append(None); continue
            i0 = [u for u in range(N) if hist[u] and hist[u][0][1] == 1]
            stats['rho'] = stats.get('rho', 0) + 1
            if len(i0) != exp:
                bad.append(('%s/rho/count' % name, '%s with rho=%s on %d nodes: %d nodes are infected at tmin, int(round(N*rho)) = %d' % (name, rho, N, len(i0), exp), rp))
            lines.append('ICSIR %d %d %s 0 %s 1 %s %s %s' % (N, len(i0), ' '.join(map(str, i0)), qt(1.5), qt(4.0), rows_tokens(rows), hist_tokens(hist, N)))
            metas.append((rp, None, rows[:2]))
        gc, kind = sir_graph(rng, name)
        for r0 in ([gc.order[0]], []):
            for rho in (0.25, 0.0):
                try:
                    call_sir(EoN, name, gc, {'rho': rho, 'initial_recovereds': r0, 'tmax': 2}); got = 'returned normally'
                except Exception as e:
                    got = type(e).__name__
                stats['rho+r0'] = stats.get('rho+r0', 0) + 1
                if got != 'EoNError':
                    bad.append(('%s/rho+initial_recovereds' % name, '%s(rho=%r, initial_recovereds=%r) %s instead of raising EoNError' % (name, rho, r0, got),
                                {'sim': name, 'graph': gc.to_json(), 'rho': rho, 'r0': repr(r0)}))
    return lines, metas, bad


def judge(run, pid, lines, metas, per, label):
    idx = [i for i, l in enumerate(lines) if l is not None]
    outs = C.run_model([lines[i] for i in idx], COMP)
    judged = rejected = 0
    for i, o in zip(idx, outs):
        rp, _, shown = metas[i]
        if not o.startswith('OK'):
            run.violation('%s/xc05/driver' % pid, 'checker driver failed: %r' % (o,), dict(rp, line=lines[i]), no_input=True); continue
        v = dict(x.split('=') for x in o.split()[1:])
        if v.get('dom', '1') != '1': continue
        judged += 1
        if v['chk'] != '1':
            rejected += 1
            chk = rp['checker']
            run.violation('%s/%s/%s' % (pid, rp['sim'], chk), 'the extracted checker %s (proved sound and accepted on every model run, Props/C05x.v) rejects the implementation\'s output: request %s, first rows %r' % (
                chk, {k: rp[k] for k in ('i0', 'r0', 'ic', 'rstat', 'rho', 'tmin') if k in rp}, shown), dict(rp, line=lines[i]))
    for i, (rp, err, _) in enumerate(metas):
        if err:
            run.violation('%s/%s/crash' % (pid, rp['sim']), '%s on a request inside the domain: %s' % (rp['sim'], err), rp)
    per[label] = {'proved': True, 'props': 'Props/C05x.v', 'judged': judged, 'rejected': rejected}
    return judged


# ---------------------------------------------------------------- C18
def traced(EoN, sim, seed, fn):
    import numpy as np
    pyrandom.seed(seed); np.random.seed(seed)
    with recording(sim, seed) as rec:
        try:
            out = fn()
        except Exception as e:
            return ('EXC ' + type(e).__name__), list(rec.log)
    return out, list(rec.log)


def merge_ties(rows):
    """Simulation_Investigation.summary() reports one row per distinct time: the last of the plain rows at that time (Props/C10esir.v)"""
    out = []
    for t, c in rows:
        if out and out[-1][0] == t: out[-1] = (t, c)
        else: out.append((t, c))
    return out


def first_diff(a, b):
    for i, (x, y) in enumerate(zip(a, b)):
        if x != y: return 'call %d: %r vs %r' % (i, x, y)
    return 'length %d vs %d (first extra call: %r)' % (len(a), len(b), (a + b)[min(len(a), len(b))])


def c18_cases(EoN, sim, rng, n, stats):
    bad = []
    for i in range(n):
        which = ('fast_nonMarkov_SIR', 'fast_SIR', 'fast_SIR_weighted', 'simple', 'complex')[i % 5]
        seed = rng.randrange(10 ** 6)
        if which in SIR_SIMS:
            gc, kind = sir_graph(rng, which)
            N = len(gc.order)
            sel = rng.sample(gc.order, rng.randint(1, min(3, N)))
            rest = [u for u in gc.order if u not in sel]
            r0 = rng.sample(rest, min(len(rest), rng.randint(0, 3)))
            tmin = rng.choice([0, 2.5, -3]); tmax = tmin + rng.choice([2.0, float('inf')])
            userho = rng.random() < 0.2
            base = {'tmin': tmin, 'tmax': tmax}
            if userho: base['rho'] = rng.choice([0.25, 0.5])
            else: base.update(initial_infecteds=list(sel), initial_recovereds=list(r0))
            rp = {'sim': which, 'graph': gc.to_json(), 'i0': [repr(u) for u in sel], 'r0': [repr(u) for u in r0], 'tmin': tmin, 'tmax': repr(tmax), 'rho': base.get('rho'), 'seed': seed}
            run1 = lambda full, kw=base: call_sir(EoN, which, gc, dict(kw, return_full_data=full))
            cols = lambda o: R.canon_arrays([o.t(), o.S(), o.I(), o.R()])
            # initial_recovereds in another order
            if not userho and len(r0) >= 2:
                kw2 = dict(base, initial_recovereds=list(reversed(r0)))
                a, la = traced(EoN, sim, seed, lambda: call_sir(EoN, which, gc, dict(base, return_full_data=False)))
                b, lb = traced(EoN, sim, seed, lambda: call_sir(EoN, which, gc, dict(kw2, return_full_data=False)))
                stats['r0_order'] = stats.get('r0_order', 0) + 1
                if la != lb or (not isinstance(a, str) and R.canon_arrays(a) != R.canon_arrays(b)):
                    bad.append(('%s/initial_recovereds-order' % which, '%s: the order of initial_recovereds changes the run for identical seeds (%s)' % (which, first_diff(la, lb) if la != lb else 'arrays differ'), dict(rp, clause='r0-order')))
        else:
            gc, ic, rstat, tmin, tmax = gen_generic(rng)
            rstat = tuple(dict.fromkeys(rstat))
            rp = {'sim': which, 'graph': gc.to_json(), 'ic': {repr(u): s for u, s in ic.items()}, 'rstat': list(rstat), 'tmin': tmin, 'tmax': tmax, 'seed': seed}
            run1 = lambda full: call_generic(EoN, which, gc, ic, rstat, tmin, tmax, full)
            cols = lambda o: R.canon_arrays([o.t()] + [o.summary()[1][s] for s in rstat])
            if which == 'simple':
                a, la = traced(EoN, sim, seed, lambda: call_generic(EoN, which, gc, ic, rstat, tmin, tmax, False, order=0))
                b, lb = traced(EoN, sim, seed, lambda: call_generic(EoN, which, gc, ic, rstat, tmin, tmax, False, order=1))
                stats['transition_order'] = stats.get('transition_order', 0) + 1
                if la != lb or (not isinstance(a, str) and R.canon_arrays(a) != R.canon_arrays(b)):
                    bad.append(('simple/transition-order', 'Gillespie_simple_contagion: the insertion order of the (sortable) transitions changes the run for identical seeds (%s)' % (first_diff(la, lb) if la != lb else 'arrays differ'), dict(rp, clause='transition-order')))
        p, lp = traced(EoN, sim, seed, lambda: run1(False))
        f, lf = traced(EoN, sim, seed, lambda: run1(True))
        stats['flag_' + which] = stats.get('flag_' + which, 0) + 1
        stats['calls'] = stats.get('calls', 0) + len(lp)
        if lp != lf:
            bad.append(('%s/full-data-flag/calls' % which, '%s makes different calls to the random source with and without return_full_data for identical seeds: %s' % (which, first_diff(lp, lf)), dict(rp, clause='flag')))
        elif isinstance(p, str) or isinstance(f, str):
            if p != f and isinstance(p, str):
                bad.append(('%s/full-data-flag/exception' % which, '%s: plain mode raised %s, full-data mode %s' % (which, p, f if isinstance(f, str) else 'returned'), dict(rp, clause='flag')))
        else:
            try:
                cf = cols(f)
            except Exception as e:
                cf = 'EXC ' + type(e).__name__
            if cf != merge_ties(R.canon_arrays(p)):
                bad.append(('%s/full-data-flag/arrays' % which, '%s: arrays differ with and without return_full_data for identical seeds: %r vs %r' % (which, str(R.canon_arrays(p))[:200], str(cf)[:200]), dict(rp, clause='flag')))
    return bad


# ---------------------------------------------------------------- entry points
def part(run, tier, pid, props, per):
    """the xc05 part of property pid (C05 / C18), called from harness/c05.py / c18.py"""
    EoN = C.import_eon()
    import EoN.simulation as sim
    rng = run.rng; stats = {}
    if pid == 'C05':
        props_join(run, pid, 'C05x', props)
        ok, log = C.build_driver(COMP)
        if not ok:
            run.violation('C05/build/xc05', 'extracted checkers do not build: ' + log[-500:], {'log': log[-3000:]}, no_input=True); return 0
        n = 240 if tier == 'quick' else 4000
        l1, m1 = c05_sir_cases(EoN, rng, n, stats)
        j = judge(run, pid, l1, m1, per, 'event-driven-SIR/extracted-checker')
        l2, m2, bad2 = c05_generic_cases(EoN, sim, rng, n, stats)
        j += judge(run, pid, l2, m2, per, 'generic-simulators/extracted-checker')
        l3, m3, bad3 = c05_rho(EoN, rng, stats)
        j += judge(run, pid, l3, m3, per, 'event-driven-SIR/rho')
        seen = set()
        for k, what, rp in bad2 + bad3:
            if k not in seen:
                seen.add(k); run.violation('C05/' + k, what, dict(rp, kind='xc05'))
        per['xc05/distribution'] = stats
        return j
    props_join(run, pid, 'C18x', props)
    n = 150 if tier == 'quick' else 2500
    seen = set()
    for k, what, rp in c18_cases(EoN, sim, rng, n, stats):
        if k not in seen:
            seen.add(k); run.violation('C18/' + k, what, dict(rp, kind='xc05'))
    per['xc05/call-trace'] = stats
    return n


def run(run, tier):
    props = {'ok': True, 'theorems': [], 'axioms': {}, 'log': ''}
    per = {}
    n = part(run, tier, 'C05', props, per) or 0
    n += part(run, tier, 'C18', props, per) or 0
    C.proof_coverage(run, props, max(n, 1), n, 'see harness/xc05.py: event-driven SIR / simple / complex contagion, extracted checkers on implementation outputs and call-trace comparison', [], {'parts': per})


def replay(rp):
    print('replay of an xc05 case:', {k: v for k, v in rp['replay'].items() if k not in ('graph', 'line')})
    j = rp['replay']
    if j.get('line'):
        C.build_driver(COMP)
        o = C.run_model([j['line']], COMP)[0]
        print('verdict of the extracted checker on the recorded implementation output:', o)
        print('(re-run ./check C05 to regenerate the case from the seed against the current tree)')
        return 1 if 'chk=0' in o else 0
    print('re-run the check (cases are regenerated from the seed)'); return 2
