"""C07x: the SIR-hierarchy and preferential-mixing clauses of property C07 as theorems (coq/Props/C07x.v), and their
failing-input search.  Part of `./check C07` (attached at the end of harness/c07.py); `./check C07X` runs it alone.

Every theorem has the form  rhs_big(Phi(x)) = DPhi(x) . rhs_small(x)  with Phi a polynomial change of variables
(coq/Model/Pgf.v).  This module
  * re-checks Props/C07x.v (its theorems join the obligations of C07),
  * ties the hand-written Coq models of _dEBCM_pref_mix_ / EBCM_pref_mix_discrete and the Coq definitions of Phi, DPhi
    to the code and to the closed forms used below (extracted component `c07x`, exact rationals),
  * evaluates every identity numerically on the real Python right-hand sides (random degree distributions, random
    points of the manifold, rel 1e-9) and checks that the arguments and initial vectors the *_from_graph wrappers
    build from rho are the polynomial closures / the manifold point Phi(theta=1, R=0): a failure is a failing input
    of property C07 (two models the property calls equivalent have different vector fields / start off the manifold)."""
import os, math
from fractions import Fraction as F
from . import common as C

CLAIM = dict(
    claimed=False,
    text="Machine-checked theorems (coq/Props/C07x.v, closed under the global context): EBCM -> SIR super-compact pairwise -> SIR compact pairwise "
         "as identities rhs_big(Phi(x)) = DPhi(x).rhs_small(x) between the right-hand sides GENERATED from EoN/analytic.py, "
         "Phi polynomial in theta and DPhi its formal derivative (proved to be the derivative: first-order Taylor expansion with polynomial remainder; sum, Leibniz, "
         "power rules) -- no chain rule assumed; the closures and initial vectors the *_from_graph wrappers build from rho are the polynomial (1-rho)P_k with its formal "
         "derivatives and the manifold point Phi(1,0); preferential-mixing EBCM with P(k'|k)=k'P(k')/<k> = EBCM, continuous (vector fields on the invariant subspace) "
         "and discrete (lock-step for every number of steps); EBCM -> SIR compact effective degree (S_kappa = N sum_k c_k C(k,kappa) u^kappa v^(k-kappa), proved through the binomial "
         "moments and the absorption identity); EBCM -> SIR effective degree, the full (s,i) model (S_si = N sum_k c_k C(k,s)C(k-s,i) phiS^s phiI^i phiR^(k-s-i); trinomial moments), "
         "also over the definition generated from the source; all five wrappers start at the manifold point Phi(1,0) on the rho path.",
    design='DESIGN.md section 4, C07; section 8.2 row C07',
    technique='Coq proof over translator-generated right-hand sides + hand-written model of the dict-based routines tied by point evaluation + numerical re-evaluation of every identity on the Python functions',
    note='part of C07 (harness/c07.py); cited: Picard-Lindeloef uniqueness for the lift to curves (continuous-time models only)')

COMP = 'c07x'
# what Props/C07x.v reaches; the rest of the hierarchy clause is carried by the numerical identities below and the curve oracles of harness/c07.py
PROVED_STATE = {'proved': ['EBCM -> SIR compact effective degree (binomial change of variables Phi_ced, formal derivative) and the wrapper\'s initial point Phi_ced(1,0)',
                           'EBCM -> SIR effective degree, full (s,i) model (trinomial change of variables Phi_ed), over the hand-written model and over the definition generated from the source, and the wrapper\'s initial point Phi_ed(1,0)',
                           'heterogeneous mean-field SIR on one degree class -> homogeneous mean-field SIR without the assumed chain rule',
                           'returned S, I, R series of the four big wrappers = EBCM_from_graph\'s at every time index, with the cited uniqueness lift as the only (explicit) hypothesis; solvers abstract',
                           'regular graphs, rho path: compact pairwise / homogeneous pairwise (SIS, SIR) and heterogeneous / homogeneous mean-field (SIS, SIR) wrappers start at corresponding points'],
                'numerical': []}


# ------------------------------------------------------------------ closed forms (L0, generic arithmetic) ----
def binom(n, k):
    return math.comb(n, k) if 0 <= k <= n else 0


def pw(x, k):
    """x**k for an int k >= 0 with 0**0 = 1, generic in the number type"""
    r = 1
    for _ in range(k):
        r = r * x
    return r


def hier(c, N, tau, g, s0, r0, th):
    """the polynomial change of variables of Model/Pgf.v and the derivatives of its components w.r.t. theta, written out"""
    K = len(c)
    a = sum(k * c[k] * pw(th, k - 1) for k in range(1, K))
    b = sum(k * (k - 1) * c[k] * pw(th, k - 2) for k in range(2, K))
    a1 = sum(k * c[k] for k in range(1, K))
    phiS = s0 * a / a1; phiR = r0 + g / tau * (1 - th); phiI = th - phiS - phiR
    dphiS = s0 * b / a1; dphiR = -g / tau; dphiI = 1 - dphiS - dphiR
    m = dict(a=a, b=b, a1=a1, phiS=phiS, phiR=phiR, phiI=phiI)
    m['SS'] = N * a * phiS; m['dSS'] = N * (b * phiS + a * dphiS)
    m['SI'] = N * a * phiI; m['dSI'] = N * (b * phiI + a * dphiI)
    m['Sk'] = [N * c[k] * pw(th, k) for k in range(K)]
    m['dSk'] = [N * c[k] * k * pw(th, k - 1) if k else 0 * th for k in range(K)]
    u = th - phiR; v = phiR; du = 1 - dphiR; dv = dphiR
    m['Skap'] = [N * sum(c[k] * binom(k, kap) * pw(u, kap) * pw(v, k - kap) for k in range(kap, K)) for kap in range(K)]
    m['dSkap'] = [N * sum(c[k] * binom(k, kap) * ((kap * pw(u, kap - 1) * pw(v, k - kap) * du if kap else 0) +
                                                  ((k - kap) * pw(u, kap) * pw(v, k - kap - 1) * dv if k > kap else 0))
                          for k in range(kap, K)) for kap in range(K)]
    # full effective degree model: S_{s,i} = N sum_k c_k k!/(s! i! (k-s-i)!) phiS^s phiI^i phiR^(k-s-i), (K x K array, row s, column i)
    tri = lambda k, s_, i_: binom(k, s_) * binom(k - s_, i_)
    m['Ssi'] = [[N * sum(c[k] * tri(k, s_, i_) * pw(phiS, s_) * pw(phiI, i_) * pw(phiR, k - s_ - i_) for k in range(s_ + i_, K)) for i_ in range(K)] for s_ in range(K)]
    m['dSsi'] = [[N * sum(c[k] * tri(k, s_, i_) * ((s_ * pw(phiS, s_ - 1) * dphiS * pw(phiI, i_) * pw(phiR, k - s_ - i_) if s_ else 0) +
                                                   (i_ * pw(phiS, s_) * pw(phiI, i_ - 1) * dphiI * pw(phiR, k - s_ - i_) if i_ else 0) +
                                                   ((k - s_ - i_) * pw(phiS, s_) * pw(phiI, i_) * pw(phiR, k - s_ - i_ - 1) * dphiR if k > s_ + i_ else 0))
                          for k in range(s_ + i_, K)) for i_ in range(K)] for s_ in range(K)]
    return m


def polys(c):
    ps = lambda x: sum(cj * x ** j for j, cj in enumerate(c))
    psP = lambda x: sum(j * cj * x ** (j - 1) for j, cj in enumerate(c) if j >= 1)
    psDP = lambda x: sum(j * (j - 1) * cj * x ** (j - 2) for j, cj in enumerate(c) if j >= 2)
    return ps, psP, psDP


def closev(x, y, tol=1e-9):
    import numpy as np
    x = np.atleast_1d(np.array(x, dtype=float)); y = np.atleast_1d(np.array(y, dtype=float))
    return x.shape == y.shape and all(C.close(float(u), float(v), tol) for u, v in zip(x, y))


def fl(v):
    import numpy as np
    return [float(z) for z in np.atleast_1d(np.array(v, dtype=float))]


def uncorrelated(Pk):
    kave = sum(k * p for k, p in Pk.items())
    return {k1: {k2: k2 * Pk[k2] / kave for k2 in Pk} for k1 in Pk}


# ------------------------------------------------------------------ the identities on the Python functions ----
def case_spec(EoN, p):
    """one identity of Props/C07x.v evaluated on the Python right-hand sides at one point of the manifold"""
    import numpy as np
    A = EoN.analytic
    th_name = p['theorem']; a = p['args']
    f = lambda x: float(F(x))
    if th_name in ('ebcm_to_super_compact', 'ebcm_to_compact', 'super_compact_to_compact', 'ebcm_to_compact_effective_degree', 'ebcm_to_effective_degree'):
        c = [f(x) for x in a['c']]; N, tau, g, th, R = (f(a[k]) for k in ('N', 'tau', 'gamma', 'theta', 'R'))
        s0, r0 = f(a.get('phiS0', 1)), f(a.get('phiR0', 0))
        ps, psP, psDP = polys(c)
        m = hier(c, N, tau, g, s0, r0, th)
        e = A._dEBCM_(np.array([th, R]), 0, N, tau, g, ps, psP, s0, r0)
        if th_name == 'ebcm_to_super_compact':
            lhs = A._dSIR_super_compact_pairwise_(np.array([th, m['SS'], m['SI'], R]), 0, tau, g, ps, psP, psDP, N)
            rhs = [e[0], m['dSS'] * e[0], m['dSI'] * e[0], e[1]]
            what = '_dSIR_super_compact_pairwise_ at Phi_sc(theta,R) vs push-forward of _dEBCM_'
        elif th_name == 'ebcm_to_compact':
            lhs = A._dSIR_compact_pairwise_(np.array(m['Sk'] + [m['SS'], m['SI'], R]), 0, N, tau, g)
            rhs = [d * e[0] for d in m['dSk']] + [m['dSS'] * e[0], m['dSI'] * e[0], e[1]]
            what = '_dSIR_compact_pairwise_ at Phi_cp(theta,R) vs push-forward of _dEBCM_'
        elif th_name == 'super_compact_to_compact':
            SS, SI = f(a['SS']), f(a['SI'])
            sc = A._dSIR_super_compact_pairwise_(np.array([th, SS, SI, R]), 0, tau, g, ps, psP, psDP, N)
            lhs = A._dSIR_compact_pairwise_(np.array(m['Sk'] + [SS, SI, R]), 0, N, tau, g)
            rhs = [d * sc[0] for d in m['dSk']] + [sc[1], sc[2], sc[3]]
            what = '_dSIR_compact_pairwise_ at S_k = N c_k theta^k vs push-forward of _dSIR_super_compact_pairwise_'
        elif th_name == 'ebcm_to_effective_degree':
            K = len(c)
            X = np.array([x for row in m['Ssi'] for x in row] + [R])
            lhs = A._dSIR_effective_degree_(X, 0, N, (K, K), tau, g)
            rhs = [d * e[0] for row in m['dSsi'] for d in row] + [e[1]]
            what = '_dSIR_effective_degree_ at the trinomial manifold point Phi_ed(theta,R) vs push-forward of _dEBCM_'
        else:
            lhs = A._dSIR_compact_effective_degree_(np.array(m['Skap'] + [R, m['SI']]), 0, N, tau, g)
            rhs = [d * e[0] for d in m['dSkap']] + [e[1], m['dSI'] * e[0]]
            what = '_dSIR_compact_effective_degree_ at Phi_ced(theta,R) vs push-forward of _dEBCM_'
        return None if closev(lhs, rhs) else '%s: %s vs %s' % (what, fl(lhs), fl(rhs))
    if th_name == 'lump_SIR_heterogeneous_meanfield_regular':
        k = int(a['k']); th, r, s0, N, tau, g = (f(a[x]) for x in ('theta', 'r', 's0', 'N', 'tau', 'gamma'))
        z = [0.0] * k
        big = A._dSIR_heterogeneous_meanfield_(np.array([th] + z + [r]), 0, np.array(z + [s0]), np.array(z + [N]), tau, g)
        S = s0 * th ** k; I = N - S - r
        small = A._dSIR_homogeneous_meanfield_(np.array([S, I]), 0, k / N, tau, g)
        dS = k * s0 * th ** (k - 1) * big[0]
        ok = closev([dS, -dS - g * I], small) and closev(big[1:], z + [g * I])
        return None if ok else 'heterogeneous mean-field SIR on the single class k=%d pushed forward to (S, I): %s (dR_k = %s), homogeneous mean-field with n=k: %s' % (k, fl([dS, -dS - g * I]), fl(big[1:]), fl(small))
    Pk = {int(k): f(v) for k, v in a['Pk'].items()}
    rho, N = f(a['rho']), f(a['N'])
    Pnk = uncorrelated(Pk)
    psh = lambda x: (1 - rho) * sum(Pk[k] * x ** k for k in Pk)
    pshP = lambda x: (1 - rho) * sum(k * Pk[k] * x ** (k - 1) for k in Pk)
    if th_name == 'prefmix_uncorrelated_cts':
        tau, g, th, R = (f(a[k]) for k in ('tau', 'gamma', 'theta', 'R'))
        X = [R / N]
        for _ in sorted(Pk):
            X += [th, g / tau * (1 - th)]
        lhs = A._dEBCM_pref_mix_(np.array(X), 0, rho, tau, g, Pk, Pnk)
        e = A._dEBCM_(np.array([th, R]), 0, N, tau, g, psh, pshP, 1 - rho, 0)
        rhs = [e[1] / N]
        for _ in sorted(Pk):
            rhs += [e[0], -g / tau * e[0]]
        return None if closev(lhs, rhs) else '_dEBCM_pref_mix_ with P(k\'|k)=k\'P(k\')/<k> on theta_k=theta, phiR_k=gamma(1-theta)/tau: %s, push-forward of _dEBCM_: %s' % (fl(lhs), fl(rhs))
    if th_name == 'prefmix_uncorrelated_discrete':
        pp = f(a['p']); T = int(a['T'])
        x = EoN.EBCM_pref_mix_discrete(N, Pk, Pnk, pp, rho=rho, tmax=T, return_full_data=True)
        y = EoN.EBCM_discrete(N, psh, pshP, pp, 1 - rho, phiR0=0, R0=0, tmax=T, return_full_data=True)
        for i, nm in ((1, 'S'), (2, 'I'), (3, 'R')):
            if not closev(x[i], y[i]):
                return 'EBCM_pref_mix_discrete (uncorrelated) %s = %s, EBCM_discrete %s = %s' % (nm, fl(x[i])[:6], nm, fl(y[i])[:6])
        for k in Pk:
            if not closev(x[4][k], y[4]):
                return 'EBCM_pref_mix_discrete theta[%d] = %s, EBCM_discrete theta = %s' % (k, fl(x[4][k])[:6], fl(y[4])[:6])
        return None
    return 'unknown theorem'


class _Stop(Exception):
    pass


def capture(EoN, wrapper, inner, *args, **kw):
    """call EoN.analytic.<wrapper>(*args) with EoN.analytic.<inner> replaced by a recorder: what does the wrapper pass on?"""
    A = EoN.analytic
    orig = getattr(A, inner); box = {}

    def spy(*a, **k):
        box['a'] = a; box['k'] = k
        raise _Stop()
    setattr(A, inner, spy)
    try:
        getattr(A, wrapper)(*args, **kw)
    except _Stop:
        pass
    finally:
        setattr(A, inner, orig)
    return box


def case_wrapper(EoN, p):
    """the arguments a *_from_graph wrapper hands to its solver on the rho path: closures = polynomial (1-rho)P_k and its
    derivatives, constants phiS0 = 1-rho, phiR0 = 0, R0 = 0, N = G.order(), initial vector = Phi(theta=1, R=0)"""
    from . import ode_oracles as O
    import numpy as np
    if p['wrapper'] in ('EBCM_uniform_introduction', 'EBCM_discrete_uniform_introduction', 'EBCM_pref_mix'):
        return case_wrapper_pk(EoN, p)
    if p['wrapper'].startswith('regular/'):
        return case_wrapper_regular(EoN, p)
    G = O.graph_from_desc(p['graph']); N = G.order(); rho = p['rho']; tau, g = p['tau'], p['gamma']
    degs = [d for _, d in G.degree()]; K = max(degs) + 1
    c = [(1 - rho) * degs.count(k) / N for k in range(K)]
    m = hier(c, float(N), tau, g, 1 - rho, 0.0, 1.0)
    ps, psP, psDP = polys(c)
    xs = p['xs']
    w = p['wrapper']

    def closures(fs, names):
        for fn, ref, nm in zip(fs, (ps, psP, psDP), names):
            for x in xs:
                if not C.close(float(fn(x)), float(ref(x)), 1e-9):
                    return '%s(%.4g) = %.12g, but the %s of sum (1-rho) P_k x^k is %.12g' % (nm, x, fn(x), {'psihat': 'value', 'psihatPrime': 'derivative', 'psihatDPrime': 'second derivative'}[nm], ref(x))
        return None
    if w == 'EBCM_from_graph':
        b = capture(EoN, w, 'EBCM', G, tau, g, rho=rho)
        (N_, psihat, psihatPrime, tau_, g_, phiS0), k = b['a'], b['k']
        r = closures((psihat, psihatPrime), ('psihat', 'psihatPrime'))
        if r: return r
        if not (C.close(phiS0, 1 - rho) and C.close(k.get('phiR0', 0), 0) and C.close(k.get('R0', 0), 0) and N_ == N):
            return 'EBCM called with N=%s phiS0=%s phiR0=%s R0=%s, expected N=%d phiS0=1-rho=%s phiR0=0 R0=0' % (N_, phiS0, k.get('phiR0'), k.get('R0'), N, 1 - rho)
        return None
    if w == 'SIR_super_compact_pairwise_from_graph':
        b = capture(EoN, w, 'SIR_super_compact_pairwise', G, tau, g, rho=rho)
        R0, SS0, SI0, N_, tau_, g_, psihat, psihatPrime, psihatDPrime = b['a']
        r = closures((psihat, psihatPrime, psihatDPrime), ('psihat', 'psihatPrime', 'psihatDPrime'))
        if r: return r
        if not (closev([SS0, SI0, R0], [m['SS'], m['SI'], 0.0]) and N_ == N):
            return 'initial (SS, SI, R) = %s, the manifold point Phi_sc(1,0) has %s (N=%s)' % (fl([SS0, SI0, R0]), fl([m['SS'], m['SI'], 0.0]), N_)
        return None
    if w == 'SIR_compact_pairwise_from_graph':
        b = capture(EoN, w, 'SIR_compact_pairwise', G, tau, g, rho=rho)
        Sk0, I0, R0, SS0, SI0 = b['a'][:5]
        if not (closev(list(Sk0) + [SS0, SI0, R0], m['Sk'] + [m['SS'], m['SI'], 0.0]) and C.close(float(I0 + R0 + sum(Sk0)), float(N))):
            return 'initial (Sk, SS, SI, R) = %s, the manifold point Phi_cp(1,0) is %s' % (fl(list(Sk0) + [SS0, SI0, R0]), fl(m['Sk'] + [m['SS'], m['SI'], 0.0]))
        return None
    if w == 'SIR_compact_effective_degree_from_graph':
        b = capture(EoN, w, 'SIR_compact_effective_degree', G, tau, g, rho=rho)
        Skap0, I0, R0, SI0 = b['a'][:4]
        if not (closev(list(Skap0) + [R0, SI0], m['Skap'] + [0.0, m['SI']]) and C.close(float(I0 + R0 + sum(Skap0)), float(N))):
            return 'initial (Skappa, R, SI) = %s, the manifold point Phi_ced(1,0) is %s' % (fl(list(Skap0) + [R0, SI0]), fl(m['Skap'] + [0.0, m['SI']]))
        return None
    if w == 'SIR_effective_degree_from_graph':
        b = capture(EoN, w, 'SIR_effective_degree', G, tau, g, rho=rho)
        Ssi0, I0, R0 = b['a'][:3]
        want = np.array(m['Ssi'], dtype=float)
        if not (np.shape(Ssi0) == want.shape and closev(np.array(Ssi0).ravel(), want.ravel()) and C.close(float(R0), 0.0) and C.close(float(I0 + R0 + np.sum(Ssi0)), float(N))):
            return 'initial S_si = %s (R0=%s), the manifold point Phi_ed(1,0) is %s' % (fl(np.array(Ssi0).ravel()), R0, fl(want.ravel()))
        return None
    return 'unknown wrapper'


def case_wrapper_pk(EoN, p):
    """what the degree-distribution entry points hand on: EBCM(_discrete)_uniform_introduction pass psihat = (1-rho) psi, psihat' = (1-rho) psi',
    phiS0 = 1-rho, phiR0 = 0, R0 = 0 (the instance the pref-mix theorems compare with); EBCM_pref_mix starts odeint at [0, 1, 0, 1, 0, ..] = Phi_pm(1,0)"""
    import numpy as np
    Pk = {int(k): float(F(v)) for k, v in p['Pk'].items()}; rho = p['rho']; N = p['N']; w = p['wrapper']
    psi = lambda x: sum(Pk[k] * x ** k for k in Pk); psiP = lambda x: sum(k * Pk[k] * x ** (k - 1) for k in Pk)
    if w in ('EBCM_uniform_introduction', 'EBCM_discrete_uniform_introduction'):
        if w == 'EBCM_uniform_introduction':
            b = capture(EoN, w, 'EBCM', N, psi, psiP, p['tau'], p['gamma'], rho)
            N_, psihat, psihatPrime, _tau, _g, phiS0 = b['a'][:6]
        else:
            b = capture(EoN, w, 'EBCM_discrete', N, psi, psiP, p['p'], rho)
            N_, psihat, psihatPrime, _p, phiS0 = b['a'][:5]
        k = b['k']
        for x in p['xs']:
            if not (C.close(float(psihat(x)), (1 - rho) * psi(x)) and C.close(float(psihatPrime(x)), (1 - rho) * psiP(x))):
                return '%s passes psihat(%.4g) = %.12g, psihatPrime = %.12g; expected (1-rho) psi = %.12g, (1-rho) psi\' = %.12g' % (w, x, psihat(x), psihatPrime(x), (1 - rho) * psi(x), (1 - rho) * psiP(x))
        if not (C.close(phiS0, 1 - rho) and C.close(k.get('phiR0', 0), 0) and C.close(k.get('R0', 0), 0) and N_ == N):
            return '%s passes N=%s phiS0=%s phiR0=%s R0=%s, expected N=%s phiS0=1-rho=%s phiR0=0 R0=0' % (w, N_, phiS0, k.get('phiR0', 0), k.get('R0', 0), N, 1 - rho)
        return None
    A = EoN.analytic
    orig = A.integrate.odeint; box = {}

    def spy(f, x0, ts, args=()):
        box['x0'] = np.array(x0, dtype=float); box['args'] = args
        raise _Stop()
    A.integrate.odeint = spy
    try:
        EoN.EBCM_pref_mix(N, Pk, uncorrelated(Pk), p['tau'], p['gamma'], rho=rho, tmax=1, tcount=3)
    except _Stop:
        pass
    finally:
        A.integrate.odeint = orig
    want = [0.0] + [1.0, 0.0] * len(Pk)
    if not closev(box.get('x0', []), want):
        return 'EBCM_pref_mix starts odeint at %s, the point Phi_pm(theta=1, R=0) of the invariant subspace is %s' % (fl(box.get('x0', [])), want)
    if not C.close(float(box['args'][0]), rho):
        return 'EBCM_pref_mix passes rho=%s to its right-hand side, expected %s' % (box['args'][0], rho)
    return None


def case_wrapper_regular(EoN, p):
    """on a k-regular graph with rho the big and the small wrapper hand corresponding arguments to their solvers
    (theorems C07x_*_regular_initial_points): Sk0 = (0,..,0,S0), same SS0/SI0, n = k, Nk = (0,..,0,N)"""
    from . import ode_oracles as O
    import numpy as np
    G = O.graph_from_desc(p['graph']); N = G.order(); rho = p['rho']; tau, g = p['tau'], p['gamma']
    k = p['k']; z = [0.0] * k; w = p['wrapper']
    cap = lambda wr, inner: capture(EoN, wr, inner, G, tau, g, rho=rho)['a']
    if w == 'regular/SIR_pairwise':
        Sk0, I0, R0, SS0, SI0 = cap('SIR_compact_pairwise_from_graph', 'SIR_compact_pairwise')[:5]
        S0h, I0h, R0h, SI0h, SS0h, n = cap('SIR_homogeneous_pairwise_from_graph', 'SIR_homogeneous_pairwise')[:6]
        ok = closev(list(Sk0) + [SS0, SI0, R0, I0], z + [S0h, SS0h, SI0h, R0h, I0h]) and C.close(float(n), float(k))
        return None if ok else 'SIR compact pairwise starts at (Sk,SS,SI,R,I) = %s, homogeneous pairwise at (S,SS,SI,R,I) = %s with n = %s (k = %d)' % (fl(list(Sk0) + [SS0, SI0, R0, I0]), fl([S0h, SS0h, SI0h, R0h, I0h]), n, k)
    if w == 'regular/SIS_pairwise':
        Sk0, Ik0, SI0, SS0, II0 = cap('SIS_compact_pairwise_from_graph', 'SIS_compact_pairwise')[:5]
        S0h, I0h, SI0h, SS0h, n = cap('SIS_homogeneous_pairwise_from_graph', 'SIS_homogeneous_pairwise')[:5]
        ok = closev(list(Sk0) + list(Ik0) + [SI0, SS0], z + [S0h] + z + [I0h] + [SI0h, SS0h]) and C.close(float(n), float(k)) and C.close(float(SS0 + II0 + 2 * SI0), float(N * k))
        return None if ok else 'SIS compact pairwise starts at (Sk,Ik,SI,SS) = %s (twoM = %s), homogeneous pairwise at (S,I,SI,SS) = %s with n = %s (k = %d)' % (fl(list(Sk0) + list(Ik0) + [SI0, SS0]), SS0 + II0 + 2 * SI0, fl([S0h, I0h, SI0h, SS0h]), n, k)
    if w == 'regular/SIS_meanfield':
        Sk0, Ik0 = cap('SIS_heterogeneous_meanfield_from_graph', 'SIS_heterogeneous_meanfield')[:2]
        S0h, I0h, n = cap('SIS_homogeneous_meanfield_from_graph', 'SIS_homogeneous_meanfield')[:3]
        ok = closev(list(Sk0) + list(Ik0), z + [S0h] + z + [I0h]) and C.close(float(n), float(k))
        return None if ok else 'SIS heterogeneous mean-field starts at (Sk,Ik) = %s, homogeneous mean-field at (S,I) = %s with n = %s (k = %d)' % (fl(list(Sk0) + list(Ik0)), fl([S0h, I0h]), n, k)
    return 'unknown wrapper'


CASES = {'x_spec': case_spec, 'x_wrapper': case_wrapper}


# ------------------------------------------------------------------ generators ----
def dy(rng, lo, hi, den):
    return F(rng.randint(lo, hi), den)


def _weights(rng, idx, total, must=()):
    """`total` units spread over the positions idx, at least one on every position of `must`"""
    w = {i: 0 for i in idx}
    for i in must:
        w[i] += 1
    for _ in range(total - len(must)):
        w[rng.choice(idx)] += 1
    return w


def rand_c(rng):
    """(1-rho) P_k, dyadic, P sums to 1, some degree >= 2 present"""
    K = rng.randint(3, 7)
    T = rng.choice([8, 16, 32])
    w = _weights(rng, list(range(K)), T, must=(rng.randint(2, K - 1), 1))
    rho = dy(rng, 1, 8, 16)
    return [(1 - rho) * F(w[k], T) for k in range(K)], rho


def rand_Pkdict(rng):
    ks = sorted(rng.sample(range(0, 7), rng.randint(2, 4)))
    if max(ks) < 2: ks[-1] = 3
    T = rng.choice([8, 16])
    w = _weights(rng, ks, T, must=tuple(ks))
    return {k: F(w[k], T) for k in ks}


def spec_points(rng, n):
    out = []
    for _ in range(n):
        c, rho = rand_c(rng)
        base = dict(c=[str(x) for x in c], N=str(rng.choice([40, 100, 1000])), tau=str(dy(rng, 1, 24, 8)), gamma=str(dy(rng, 1, 16, 8)),
                    theta=str(dy(rng, 8, 32, 32)), R=str(dy(rng, 0, 64, 4)))
        # stay where no denominator of the code vanishes: theta - phi_R = phi_S + phi_I > 0 for both phiR0 used below
        th = F(base['theta'])
        while th - (F(1, 8) + F(base['gamma']) / F(base['tau']) * (1 - th)) < F(1, 16):
            th = (th + 1) / 2
        base['theta'] = str(th)
        out.append({'theorem': 'ebcm_to_super_compact', 'args': dict(base, phiS0=str(dy(rng, 4, 16, 16)), phiR0=str(dy(rng, 0, 4, 32)))})
        out.append({'theorem': 'ebcm_to_compact', 'args': dict(base, phiS0=str(1 - rho), phiR0='0')})
        out.append({'theorem': 'ebcm_to_compact', 'args': dict(base, phiS0=str(dy(rng, 4, 16, 16)), phiR0=str(dy(rng, 0, 4, 32)))})
        out.append({'theorem': 'super_compact_to_compact', 'args': dict(base, SS=str(dy(rng, 1, 400, 4)), SI=str(dy(rng, 1, 400, 4)))})
        out.append({'theorem': 'ebcm_to_compact_effective_degree', 'args': dict(base, phiS0=str(1 - rho), phiR0='0')})
        out.append({'theorem': 'ebcm_to_compact_effective_degree', 'args': dict(base, phiS0=str(dy(rng, 4, 16, 16)), phiR0=str(dy(rng, 0, 4, 32)))})
        out.append({'theorem': 'ebcm_to_effective_degree', 'args': dict(base, phiS0=str(1 - rho), phiR0='0')})
        out.append({'theorem': 'ebcm_to_effective_degree', 'args': dict(base, phiS0=str(dy(rng, 4, 16, 16)), phiR0=str(dy(rng, 0, 4, 32)))})
        out.append({'theorem': 'lump_SIR_heterogeneous_meanfield_regular', 'args': dict(k=rng.randint(1, 6), theta=base['theta'], r=str(dy(rng, 0, 64, 8)), s0=str(dy(rng, 1, 64, 2)),
                                                                                       N=base['N'], tau=base['tau'], gamma=base['gamma'])})
        Pk = rand_Pkdict(rng); pk = {str(k): str(v) for k, v in Pk.items()}
        out.append({'theorem': 'prefmix_uncorrelated_cts', 'args': dict(Pk=pk, rho=str(dy(rng, 1, 8, 16)), N=base['N'], tau=base['tau'], gamma=base['gamma'], theta=base['theta'], R=base['R'])})
        out.append({'theorem': 'prefmix_uncorrelated_discrete', 'args': dict(Pk=pk, rho=str(dy(rng, 1, 8, 16)), N=base['N'], p=str(dy(rng, 1, 7, 8)), T=rng.randint(3, 8))})
    return out


WRAPPERS = ['EBCM_from_graph', 'SIR_super_compact_pairwise_from_graph', 'SIR_compact_pairwise_from_graph', 'SIR_compact_effective_degree_from_graph', 'SIR_effective_degree_from_graph']


def wrapper_points(rng, n):
    from . import ode_oracles as O
    out = []
    for _ in range(n):
        degs = rng.choice([(1, 2, 2, 3, 3, 4, 5), (1, 1, 2, 6), (2, 3, 4), (1, 3, 3, 5), (0, 1, 2, 3)])
        G = O.labelled(O.hetero_graph(rng, rng.choice([10, 16, 24]), degs), rng)
        base = dict(graph=O.graph_desc(G), rho=rng.choice([0.0625, 0.125, 0.25]), tau=rng.choice([0.5, 0.75, 1.5]), gamma=rng.choice([0.5, 1.0]),
                    xs=[rng.randint(2, 16) / 16.0 for _ in range(3)])
        for w in WRAPPERS:
            out.append(dict(base, wrapper=w))
        kreg = rng.choice([2, 3, 4]); nreg = rng.choice([8, 10, 12])
        Greg = O.labelled(O.regular_graph(rng, kreg, nreg), rng)
        for w in ('regular/SIR_pairwise', 'regular/SIS_pairwise', 'regular/SIS_meanfield'):
            out.append(dict(graph=O.graph_desc(Greg), k=kreg, rho=base['rho'], tau=base['tau'], gamma=base['gamma'], wrapper=w))
        Pk = rand_Pkdict(rng)
        pkb = dict(Pk={str(k): str(v) for k, v in Pk.items()}, rho=base['rho'], N=rng.choice([50, 1000]), tau=base['tau'], gamma=base['gamma'], p=rng.choice([0.25, 0.5]), xs=base['xs'])
        for w in ('EBCM_uniform_introduction', 'EBCM_discrete_uniform_introduction', 'EBCM_pref_mix'):
            out.append(dict(pkb, wrapper=w))
    return out


# ------------------------------------------------------------------ ties through the extracted component ----
def _q(x): return C.qtok(F(x))
def _ql(l): return '%d %s' % (len(l), ' '.join(_q(x) for x in l))
def _pk(Pk): return '%d %s' % (len(Pk), ' '.join('%d %s' % (k, _q(Pk[k])) for k in sorted(Pk)))
def _pnk(Pnk): return '%d %s' % (len(Pnk), ' '.join('%d %s' % (k, _pk(Pnk[k])) for k in sorted(Pnk)))


def _parse(line):
    if not line.startswith('OK'):
        return None
    return [[F(t) for t in part.split()] for part in line[2:].split('|')]


def tie_maps(rng, n):
    """the Coq definitions of Phi / DPhi (extracted) against the closed forms `hier` used by the identity checks: exact rationals"""
    lines = []; want = []
    for _ in range(n):
        c, rho = rand_c(rng)
        N = F(rng.choice([40, 100])); tau = dy(rng, 1, 24, 8); g = dy(rng, 1, 16, 8); s0 = dy(rng, 4, 16, 16); r0 = dy(rng, 0, 4, 32)
        th = dy(rng, 8, 32, 32); R = dy(rng, 0, 64, 4); dth = dy(rng, -16, 16, 8); dR = dy(rng, -16, 16, 8)
        m = hier(c, N, tau, g, s0, r0, th)
        args = '%s %s %s %s %s %s %s %s %s %s' % (_ql(c), _q(N), _q(tau), _q(g), _q(s0), _q(r0), _q(th), _q(R), _q(dth), _q(dR))
        lines.append('PHI sc ' + args); want.append(('Phi_sc', [[th, m['SS'], m['SI'], R], [dth, m['dSS'] * dth, m['dSI'] * dth, dR]]))
        lines.append('PHI cp ' + args); want.append(('Phi_cp', [m['Sk'] + [m['SS'], m['SI'], R], [d * dth for d in m['dSk']] + [m['dSS'] * dth, m['dSI'] * dth, dR]]))
        lines.append('PHI ced ' + args); want.append(('Phi_ced', [m['Skap'] + [R, m['SI']], [d * dth for d in m['dSkap']] + [dR, m['dSI'] * dth]]))
        # Phi_ed builds (K x K) polynomials of degree ~K^2 with unreduced rational coefficients: exact evaluation only for 3 classes
        c3 = [(1 - rho) * F(x, 8) for x in _weights(rng, [0, 1, 2], 8, must=(1, 2)).values()]
        m3 = hier(c3, N, tau, g, s0, r0, th)
        lines.append('PHI ed %s %s %s %s %s %s %s %s %s %s' % (_ql(c3), _q(N), _q(tau), _q(g), _q(s0), _q(r0), _q(th), _q(R), _q(dth), _q(dR)))
        want.append(('Phi_ed', [[x for row in m3['Ssi'] for x in row] + [R], [d * dth for row in m3['dSsi'] for d in row] + [dR]]))
        Pk = rand_Pkdict(rng)
        lines.append('PHIPM %s %s %s %s %s %s %s %s' % (_pk(Pk), _q(N), _q(tau), _q(g), _q(th), _q(R), _q(dth), _q(dR)))
        want.append(('Phi_pm', [[R / N] + [x for _ in Pk for x in (th, g / tau * (1 - th))], [dR / N] + [x for _ in Pk for x in (dth, -g / tau * dth)]]))
    outs = C.run_model(lines, COMP)
    mism = []
    for ln, (nm, w), o in zip(lines, want, outs):
        got = _parse(o)
        if got != w:
            mism.append((nm, ln, o[:200]))
    return len(lines), mism


def tie_prefmix(EoN, rng, n):
    """hand-written Coq models of _dEBCM_pref_mix_ and of the loop of EBCM_pref_mix_discrete against the Python functions, arbitrary
    (not only uncorrelated) mixing matrices"""
    import numpy as np
    A = EoN.analytic
    lines = []; meta = []
    for i in range(n):
        Pk = rand_Pkdict(rng)
        keys = sorted(Pk)
        Pnk = {}
        for k1 in keys:
            sub = sorted(rng.sample(keys, rng.randint(1, len(keys))))
            Pnk[k1] = {k2: dy(rng, 0, 8, 8) for k2 in sub}
        rho = dy(rng, 1, 8, 16)
        if i % 2 == 0:
            tau = dy(rng, 1, 24, 8); g = dy(rng, 1, 16, 8)
            X = [dy(rng, 0, 16, 32)] + [dy(rng, 8, 32, 32) if j % 2 == 0 else dy(rng, 0, 8, 32) for j in range(2 * len(keys))]
            lines.append('PM %s %s %s %s %s %s' % (_q(rho), _q(tau), _q(g), _ql(X), _pk(Pk), _pnk(Pnk)))
            meta.append(('cts', dict(Pk=Pk, Pnk=Pnk, rho=rho, tau=tau, g=g, X=X)))
        else:
            N = F(rng.choice([40, 100])); p = dy(rng, 1, 7, 8); T = rng.randint(1, 3)     # exact rationals: digits grow ~6x per pass
            lines.append('PMD %s %s %s %s %s %d' % (_q(N), _q(rho), _q(p), _pk(Pk), _pnk(Pnk), T))
            meta.append(('disc', dict(Pk=Pk, Pnk=Pnk, rho=rho, N=N, p=p, T=T)))
    outs = C.run_model(lines, COMP)
    mism = []
    flt = lambda d: {k: (flt(v) if isinstance(v, dict) else float(v)) for k, v in d.items()}
    for (kind, a), o in zip(meta, outs):
        got = _parse(o)
        if got is None:
            mism.append((kind, 'driver: ' + o[:100])); continue
        try:
            if kind == 'cts':
                py = A._dEBCM_pref_mix_(np.array([float(x) for x in a['X']]), 0, float(a['rho']), float(a['tau']), float(a['g']), flt(a['Pk']), flt(a['Pnk']))
                if not closev(py, got[0]):
                    mism.append(('_dEBCM_pref_mix_', 'python %s model %s' % (fl(py), fl(got[0]))))
            else:
                t, S, I, R, theta = EoN.EBCM_pref_mix_discrete(float(a['N']), flt(a['Pk']), flt(a['Pnk']), float(a['p']), rho=float(a['rho']), tmax=a['T'], return_full_data=True)
                for n_, row in enumerate(got):
                    py = [R[n_], S[n_], I[n_]] + [theta[k][n_] for k in sorted(a['Pk'])]
                    if not closev(py, row):
                        mism.append(('EBCM_pref_mix_discrete', 'step %d python %s model %s' % (n_, fl(py), fl(row)))); break
        except Exception as e:
            mism.append((kind, 'python raised %s: %s' % (type(e).__name__, str(e)[:80])))
    return len(lines), mism


# ------------------------------------------------------------------ the part of C07 ----
def part(run, tier, report, EoN=None):
    """returns dict(props=..., n_eval=..., n_distinct=..., samples=..., extra=...) and reports violations on `run`"""
    import random
    EoN = EoN or C.import_eon()
    rng = random.Random(repr((run.seed, 'C07x')))           # own stream: does not shift the cases of harness/c07.py
    thorough = tier == 'thorough'
    xp = C.check_props('C07x')
    broken = []
    if not xp['ok']:
        broken.append(('proof/C07x', 'Props/C07x.v no longer checks: %s' % xp['log'][-400:].replace('\n', ' ')))
    ok, log = C.build_driver(COMP)
    n_eval = 0; stats = {}
    if not ok:
        broken.append(('build/c07x', 'extracted component c07x does not build: ' + log[-400:].replace('\n', ' ')))
    else:
        n, mism = tie_maps(rng, 40 if thorough else 8)
        n_eval += n; stats['phi_maps_exact'] = n
        if mism:
            broken.append(('tie/phi', 'extracted Phi/DPhi differ from the closed forms of harness/c07x.py: %s' % (mism[0],)))
        n, mism = tie_prefmix(EoN, rng, 400 if thorough else 60)
        n_eval += n; stats['prefmix_model_points'] = n
        if mism:
            broken.append(('tie/prefmix', 'hand-written model of %s differs from the code: %s (%d of %d points)' % (mism[0][0], mism[0][1], len(mism), n)))
    found = 0
    sp = spec_points(rng, 60 if thorough else 10)
    for p in sp:
        n_eval += 1
        try:
            res = case_spec(EoN, p)
        except Exception as e:
            res = 'CRASH %s: %s' % (type(e).__name__, str(e)[:120])
        stats[p['theorem']] = stats.get(p['theorem'], 0) + 1
        if res:
            found += report(run, 'C07/hierarchy/%s' % p['theorem'], 'two models that C07 calls equivalent have different vector fields on the invariant manifold (theorem %s of Props/C07x.v evaluated on the Python right-hand sides): %s' % (p['theorem'], res),
                            {'kind': 'x_spec', 'params': p, 'detail': res, 'also_broken': [b[0] for b in broken]})
    wp = wrapper_points(rng, 12 if thorough else 3)
    for p in wp:
        n_eval += 1
        try:
            res = case_wrapper(EoN, p)
        except Exception as e:
            res = 'CRASH %s: %s' % (type(e).__name__, str(e)[:120])
        stats[p['wrapper']] = stats.get(p['wrapper'], 0) + 1
        if res:
            found += report(run, 'C07/wrapper/%s/rho' % p['wrapper'], '%s(rho=%s) does not start the model on the invariant manifold on which C07\'s models correspond: %s' % (p['wrapper'], p['rho'], res),
                            {'kind': 'x_wrapper', 'params': p, 'detail': res, 'also_broken': [b[0] for b in broken]})
    if broken and not found:
        for what, detail in broken:
            report(run, 'C07/%s' % what, detail + ' -- the numerical re-evaluation of the identities found no failing input of the property',
                   {'broken': what, 'detail': detail, 'log': xp.get('log', '')[-2000:]}, no_input=True)
    return dict(props=xp, n_eval=n_eval, n_distinct=len(sp) + len(wp), stats=stats, broken=broken,
                rule='C07x: every identity of Props/C07x.v (EBCM -> super-compact pairwise -> compact pairwise, EBCM -> compact effective degree, EBCM -> effective degree, pref-mix continuous and discrete, heterogeneous -> homogeneous mean-field SIR) '
                     're-evaluated on the Python right-hand sides at random points of the invariant manifold (degree distributions with 3-7 classes, dyadic, rho in [1/16,1/2], theta in [1/4,1], '
                     'arbitrary phiS0/phiR0), rel 1e-9; arguments and initial vectors that EBCM_from_graph, SIR_super_compact_pairwise_from_graph, SIR_compact_pairwise_from_graph, '
                     'SIR_compact_effective_degree_from_graph, SIR_effective_degree_from_graph pass on the rho path (captured) against the polynomial closures and the manifold point Phi(1,0); extracted Phi/DPhi against the '
                     'closed forms (exact); hand-written pref-mix models against the code on arbitrary mixing matrices.')


def attach(run0, replay0, cases0, report):
    """called once at the end of harness/c07.py: C07's run/replay extended by this part"""
    cases0.update(CASES)

    def run(run, tier):
        run0(run, tier)
        r = part(run, tier, report)
        cov = run.coverage; xp = r['props']
        thms = list(cov.get('theorems', [])) + list(xp['theorems'])
        cov['theorems'] = thms
        cov['obligations'] = len(thms)
        cov['discharged'] = (cov.get('discharged', 0) + len(xp['theorems'])) if xp['ok'] else cov.get('discharged', 0)
        cov['print_assumptions'] = dict(cov.get('print_assumptions', {}), **xp['axioms'])
        cov['checker_cmd'] = cov.get('checker_cmd', '') + ' && make -C coq Props/C07x.vo && coqc -Q coq EoNV coq/Props/C07x.v'
        cov['evaluations'] = cov.get('evaluations', 0) + r['n_eval']
        cov['distinct_nontrivial'] = cov.get('distinct_nontrivial', 0) + r['n_distinct']
        cov['rule'] = cov.get('rule', '') + '  ' + r['rule']
        cov.setdefault('distribution', {})['c07x'] = r['stats']
        vno = [x for x in cov.get('validated_numerically_only', []) if 'prefmix' not in x and 'effective degree' not in x and 'initial conditions' not in x and 'chain rule' not in x]
        vno.append('initial conditions of the heterogeneous pairwise / pair-based / individual-based wrappers on the symmetric subspace of regular graphs (harness/c07.py curve oracles)')
        if 'cited' in cov:
            cov['cited'] = [x for x in cov['cited'] if 'chain rule' not in x]
        cov['validated_numerically_only'] = vno + PROVED_STATE['numerical']
        cov['proved_c07x'] = PROVED_STATE['proved'] + ['EBCM -> SIR super-compact pairwise -> SIR compact pairwise (formal derivative, no chain rule assumed)',
                              'wrappers\' rho-path closures and initial vectors lie on the manifold', 'EBCM_pref_mix = EBCM for uncorrelated mixing (continuous: vector fields; discrete: every step)']
        if r['broken']:
            cov['also_broken_c07x'] = r['broken']

    def replay(rp):
        r = rp.get('replay', {})
        if r.get('kind') in CASES:
            EoN = C.import_eon()
            res = CASES[r['kind']](EoN, r['params'])
            print('replay %s: %s' % (r['kind'], res or 'holds'))
            return 1 if res else 0
        return replay0(rp)
    return run, replay


def run(run, tier):
    """stand-alone: ./check C07X (regenerates Gen/Rhs.v and Gen/Rhs2.v from the source first, as harness/c07.py does)"""
    from .c08 import report
    from . import rhs_lib as L, rhs2_spec as S2
    try:
        L.regen_rhs('all')
    except L.RhsRefused as e:
        run.violation('C07/translator', 'translate/rhs2v.py refuses the current EoN/analytic.py: %s' % e, {'broken': 'translator'}, no_input=True)
    S2.regen_phase()
    r = part(run, tier, report)
    C.proof_coverage(run, r['props'], r['n_eval'], r['n_distinct'], r['rule'], [], {'distribution': r['stats']})


def replay(rp):
    EoN = C.import_eon()
    r = rp.get('replay', {})
    if r.get('kind') not in CASES:
        print('replay: no concrete input recorded'); return 0
    res = CASES[r['kind']](EoN, r['params'])
    print('replay %s: %s' % (r['kind'], res or 'holds'))
    return 1 if res else 0
