"""C14: results depend on network structure, not on node names or ordering.
Theorems: coq/Props/C14.v (initial-condition builders of the ODE wrappers are equivariant under
relabelling + re-ordering; the deterministic-rule simulators' per-node outcomes are functions of
graph distances: C11 / C12 characterisations).  The tie for this property IS a relabelling
correspondence: every graph-consuming ODE entry point and every deterministic-rule simulator is run
on G and on relabelled + insertion-order-permuted copies and the outputs are compared through the
relabelling (harness/c14_ode.py for the ODE half, this file for the simulators)."""
import random as pyrandom
from fractions import Fraction as F
from . import common as C
from . import simrun as R

CLAIM_MORE = "ALSO PROVED (coq/Props/C14x.v 46 + C14xg.v 3): node-level right-hand sides, initial vectors, every explicit Runge-Kutta solution and the aggregated outputs commute with relabelling, adjacency order and nodelist order (also over the definitions regenerated from analytic.py); all 17 modelled wrappers and every graph quantity they read are invariant under graph isomorphism with any insertion order; discrete_SIR, fast_nonMarkov_SIR and (distinct times) fast_nonMarkov_SIS outputs are mapped through the relabelling as corollaries of C12 / C11 / C13. Cited: the lift from vector fields to the exact flow and to scipy's adaptive odeint."

CLAIM = dict(
    text="Machine-checked theorems (coq/Props/C14.v, closed under the global context): the initial-condition builders shared by the *_from_graph ODE wrappers "
         "(_get_Nk_and_IC_as_arrays_ on explicit sets and on rho, the per-degree-class counts, N) are invariant under any relabelling of the nodes combined with any re-ordering "
         "of G.nodes() and of every adjacency list; for the simulators driven by deterministic rules the per-node outcome is characterised by graph distances "
         "(C11: infection time = tmin + shortest-path distance in the delay graph, for every tie order; C12: tmin + BFS distance), which do not mention labels or ordering. "
         "The tie is the relabelling correspondence itself: every graph-consuming ODE entry point and every deterministic-rule simulator is run on G and on 3 relabelled "
         "(permuted ints / strings / tuples) + insertion-order-permuted copies and compared through the relabelling on every run.",
    design='DESIGN.md section 4, C14',
    technique='Coq proof (equivariance of the IC builders; distance characterisations) + relabelling correspondence of the implementation with itself',
    note="A hand model with an abstract node type cannot express `Y[node]`: label-as-index slips are found by the relabelling runs (and by every other check, whose generators never use labels 0..N-1). "
         "Equivariance of whole ODE solutions is the equivariance of the initial vector + of the right-hand side; only the former is proved in Coq (the latter is checked numerically).")

CODE = {'S': 0, 'I': 1, 'R': 2}


def relabelled(rng, gc, kind):
    """a copy of gc.G with new labels of the given kind and shuffled node / edge insertion order; returns (G', map old->new)"""
    import networkx as nx
    n = len(gc.order)
    new = R.make_labels(rng, n, kind)
    f = dict(zip(gc.order, new))
    G2 = nx.DiGraph() if gc.G.is_directed() else nx.Graph()
    nodes = list(gc.order); rng.shuffle(nodes)
    G2.add_nodes_from(f[u] for u in nodes)
    edges = list(gc.G.edges()); rng.shuffle(edges)
    for u, v in edges:
        if not gc.G.is_directed() and rng.random() < .5: u, v = v, u
        G2.add_edge(f[u], f[v], **dict(gc.G.edges[u, v]))
    for u in gc.order:
        G2.nodes[f[u]].update(gc.G.nodes[u])
    return G2, f


def hist_of(inv, nodes):
    out = {}
    for u in nodes:
        ts, ss = inv.node_history(u)
        out[u] = [(float(a), b) for a, b in zip(ts, ss)]
    return out


def sim_part(run, EoN, tier, stats):
    """deterministic-rule simulators: fast_nonMarkov_SIR / fast_nonMarkov_SIS with table rules, discrete_SIR with a
    table transmission test (and a table recovery test)"""
    rng = run.rng
    n = 120 if tier == 'quick' else 3000
    found = {}
    for i in range(n):
        which = ['fast_nonMarkov_SIR', 'fast_nonMarkov_SIS', 'discrete_SIR'][i % 3]
        gc = R.gen_graph(rng, nmax=8, nmin=2, kind='perm')
        G = gc.G
        # distinct dyadic delays avoid same-instant ties between different nodes' events (their order is hash order of labels)
        pairs = [(u, v) for u in gc.order for v in G.neighbors(u)]
        dl = {p: F(2 * k + 1, 64) + F(rng.randint(0, 3)) for k, p in enumerate(rng.sample(pairs, len(pairs)))}
        du = {u: F(2 * k + 1, 128) + F(rng.randint(1, 3)) for k, u in enumerate(gc.order)}
        if which == 'fast_nonMarkov_SIS' and (i // 3) % 2 == 1:
            # integer-valued tables: same-instant ties everywhere (constant-delay rules are the natural deterministic rules).  The per-node
            # histories of fast_nonMarkov_SIS do not depend on adjacency / insertion order even then (an attempt landing exactly on the
            # target's recovery time is dropped on every path); 3600 such cases x 6 presentations agreed on the unchanged code
            dl = {p: F(rng.choice([1, 2, 3, 4])) for p in pairs}
            du = {u: F(rng.choice([1, 2, 3])) for u in gc.order}
            stats['sis_tie_cases'] = stats.get('sis_tie_cases', 0) + 1
        succ = {p: rng.random() < 0.6 for p in pairs}
        sel = rng.sample(gc.order, rng.randint(1, min(2, len(gc.order))))
        tmin = rng.choice([0, 2.5, -1])
        def call(GG, f):
            inv_f = {b: a for a, b in f.items()}
            # a single index case is handed over as the bare node in every other such case: a label that is itself iterable (str, tuple)
            # must still be taken as ONE node
            i0arg = f[sel[0]] if (len(sel) == 1 and i % 2 == 0) else [f[u] for u in sel]
            if which == 'fast_nonMarkov_SIR':
                return EoN.fast_nonMarkov_SIR(GG, trans_time_fxn=lambda u, v: float(dl[(inv_f[u], inv_f[v])]), rec_time_fxn=lambda u: float(du[inv_f[u]]),
                                              initial_infecteds=i0arg, tmin=tmin, tmax=tmin + 20, return_full_data=True)
            if which == 'fast_nonMarkov_SIS':
                return EoN.fast_nonMarkov_SIS(GG, trans_time_fxn=lambda u, v, d: [float(dl[(inv_f[u], inv_f[v])])] if dl[(inv_f[u], inv_f[v])] <= d else [],
                                              rec_time_fxn=lambda u: float(du[inv_f[u]]), initial_infecteds=i0arg, tmin=tmin, tmax=tmin + 6, return_full_data=True)
            return EoN.discrete_SIR(GG, test_transmission=lambda u, v: succ[(inv_f[u], inv_f[v])], args=(), initial_infecteds=i0arg,
                                    tmin=tmin, tmax=tmin + 10, return_full_data=True)
        ident = {u: u for u in gc.order}
        try:
            base = hist_of(call(G, ident), gc.order)
        except Exception as e:
            found.setdefault('%s/crash' % which, ('%s/crash' % which, '%s raised %s: %s' % (which, type(e).__name__, str(e)[:100]), {'sim': which, 'graph': gc.to_json()}))
            continue
        stats['sim_cases'] = stats.get('sim_cases', 0) + 1
        for kind in ('perm', 'str', 'tuple'):
            G2, f = relabelled(rng, gc, kind)
            try:
                h2 = hist_of(call(G2, f), [f[u] for u in gc.order])
            except Exception as e:
                key = '%s/raises/labels=%s' % (which, kind)
                found.setdefault(key, (key, '%s works on the original graph but raises %s on a relabelled copy (%s labels)' % (which, type(e).__name__, kind), {'sim': which, 'graph': gc.to_json(), 'labels': kind}))
                continue
            stats['sim_comparisons'] = stats.get('sim_comparisons', 0) + 1
            for u in gc.order:
                a, b = base[u], h2[f[u]]
                if len(a) != len(b) or any(not C.close(x[0], y[0]) or x[1] != y[1] for x, y in zip(a, b)):
                    key = '%s/differs/labels=%s' % (which, kind)
                    found.setdefault(key, (key, '%s: history of node %r is %r, of its relabelled copy %r is %r' % (which, u, a[:5], f[u], b[:5]),
                                           {'sim': which, 'graph': gc.to_json(), 'labels': kind, 'i0': [repr(x) for x in sel], 'tmin': tmin}))
                    break
    for key, (k, what, rp) in sorted(found.items()):
        run.violation('C14/' + k, what, dict(rp, kind='simulator-relabelling'))
    return stats


def run(run, tier):
    EoN = C.import_eon()
    props = C.check_props('C14')
    stats = {}
    from . import c14_ode
    ode = c14_ode.run_ode_part(run, tier)
    sim_part(run, EoN, tier, stats)
    from . import c14x; stats['c14x'] = c14x.part(run, tier, props)      # proof-side extension: Props/C14x.v + extracted relabelling action on the Python right-hand sides
    if not props['ok']:
        run.violation('C14/proof', 'Props/C14.v no longer checks: %s' % props['log'][-400:], {'broken': 'coq/Props/C14.v', 'log': props['log']}, no_input=True)
    n_eval = int((ode.get('counts') or {}).get('comparisons', 0) or 0) + stats.get('sim_comparisons', 0)
    samples = (ode.get('samples') or [])[:2] + [{'simulators': stats}]
    C.proof_coverage(run, props, max(1, n_eval), max(2, int((ode.get('counts') or {}).get('agree', 0) or 0) + stats.get('sim_comparisons', 0)),
                     'ODE half: every graph-consuming entry point on a base graph (labels 0..N-1, natural order) and 3 relabelled (permuted ints / strings / tuples) + insertion-order-permuted copies, aggregated series compared directly, '
                     'per-node series through the relabelling (+ an unrelated edge attribute named weight). Simulator half: fast_nonMarkov_SIR / fast_nonMarkov_SIS with table delay rules (distinct times) and discrete_SIR with a '
                     'table transmission test, on a graph and 3 relabelled + re-ordered copies, per-node histories compared through the relabelling. Non-trivial = a completed comparison.',
                     samples, {'ode': {k: v for k, v in ode.items() if k not in ('violations', 'samples')}, 'simulators': stats})


def replay(rp):
    from . import c14x
    if rp['replay'].get('kind') in getattr(c14x, 'KINDS', ()):
        return c14x.replay(rp)
    if rp['replay'].get('kind') == 'simulator-relabelling':
        print(rp['replay']); print('re-run ./check C14'); return 2
    from . import c14_ode
    return c14_ode.replay(rp)
