"""C18: simulations are reproducible from the random seeds.
Theorems: coq/Props/C18.v (every sampler program is a function of its draw script;
Gillespie_SIR/SIS consume the same draws and return the same arrays with and without
return_full_data).  The cross-process clauses are runtime facts: the check runs a
battery of simulator calls (harness/c18_worker.py) in this process twice and in several
interpreter processes with different PYTHONHASHSEED values, with string and tuple node
names and string statuses, and compares outputs byte-wise; a sentinel detects any other
entropy source."""
import json, os, subprocess, sys
from . import common as C

CLAIM_MORE = 'ALSO proved: flag independence for the event-driven SIR simulator and both fast_SIR paths, simple and complex contagion (C18x.v), fast_SIS / fast_nonMarkov_SIS (C18s.v); order of initial_recovereds irrelevant, order of initial_infecteds exhibited as an input; the regenerated table of loops that can run in hash order (Props/HashIterTable.v): no continuous-time simulator reaches a set-ordered loop. A static scan of the source for any other entropy source runs on every check.'

CLAIM = dict(
    text="Machine-checked theorems (coq/Props/C18.v): a simulator model is a function of (ordered inputs, draw script) — `exec` is deterministic by construction — and, by a "
         "general simulation lemma over sampler programs (same calls, same arguments, related continuations => same trace, related results, for every script), Gillespie_SIR "
         "and Gillespie_SIS consume exactly the same draws and return the same arrays with and without return_full_data. The cross-process clause (identical output across "
         "PYTHONHASHSEED values for the continuous-time simulators, string/tuple node names, string statuses), repeated calls in one process, and 'no other entropy source' "
         "are runtime facts checked on every run: a battery of calls of every simulator is executed twice in-process and in 4 (quick) / 8 (thorough) fresh interpreters with different hash seeds and compared byte-wise.",
    design='DESIGN.md section 4, C18',
    technique='Coq proof (simulation lemma over sampler programs; flag independence) + multi-process reproducibility runs compared byte-wise',
    note="The continuous-time models take no permutation oracle: that absence is the formal content of 'hash-seed independent'; for the discrete-time simulators (which iterate Python sets) "
         "only same-process reproducibility is required by the property and checked. User-supplied containers/rules are passed as ordered lists (their own iteration order is the caller's).")

CONTINUOUS = ('Gillespie_SIR', 'Gillespie_SIS', 'fast_SIR', 'fast_SIS', 'fast_nonMarkov_SIR', 'fast_nonMarkov_SIS', 'simple', 'complex')


def worker(seeds, hashseed):
    env = dict(os.environ, PYTHONHASHSEED=str(hashseed), EON_REPO=C.REPO)
    p = subprocess.run(['/venv/bin/python', os.path.join(C.VERIF, 'harness', 'c18_worker.py')] + [str(s) for s in seeds],
                       capture_output=True, text=True, env=env, timeout=1200)
    if p.returncode != 0:
        raise RuntimeError('worker failed: ' + p.stderr[-2000:])
    return json.loads(p.stdout)


def run(run, tier):
    props = C.check_props('C18')
    seeds = [run.seed % 1000 + 1, 77] if tier == 'quick' else [run.seed % 1000 + 1, 77, 5, 123456, 2 ** 31 + 7]
    hs = [1, 2, 31337, 99] if tier == 'quick' else [1, 2, 3, 5, 8, 13, 31337, 99]
    # several processes in parallel
    from concurrent.futures import ThreadPoolExecutor
    with ThreadPoolExecutor(8) as ex:
        outs = list(ex.map(lambda h: worker(seeds, h), hs + [hs[0]]))
    base = outs[0]; again = outs[-1]; outs = outs[:-1]
    stats = {'cases_per_seed': len(next(iter(base.values()))), 'seeds': seeds, 'hash_seeds': hs, 'exceptions': 0, 'flag_pairs': 0}
    n_eval = 0; samples = []
    for s in map(str, seeds):
        for name, val in base[s].items():
            n_eval += len(outs)
            if isinstance(val, str) and val.startswith('EXC'):
                stats['exceptions'] += 1
                run.violation('C18/%s/crash' % name.split('/')[0], 'battery case %s raised: %s' % (name, val), {'case': name, 'seed': s, 'what': val})
                continue
            # same interpreter configuration, two runs
            if again[s][name] != val:
                run.violation('C18/%s/repeat' % name.split('/')[0], 'two runs with identical seeds (random.seed/np.random.seed = %s, PYTHONHASHSEED=%s) gave different output for %s' % (s, hs[0], name),
                              {'case': name, 'seed': s, 'hashseed': hs[0]})
            # across hash seeds
            if name.split('/')[0] in CONTINUOUS:
                for h, o in zip(hs, outs):
                    if o[s][name] != val:
                        run.violation('C18/%s/hashseed' % name.split('/')[0],
                                      'output of %s with seeds %s differs between PYTHONHASHSEED=%s and %s' % (name, s, hs[0], h),
                                      {'case': name, 'seed': s, 'hashseeds': [hs[0], h], 'a': str(val)[:300], 'b': str(o[s][name])[:300]})
                        break
            # the full-data flag
            if name.endswith('/plain') and name[:-6] + '/full' in base[s] and name.split('/')[0] in CONTINUOUS:
                f = base[s][name[:-6] + '/full']
                stats['flag_pairs'] += 1
                if isinstance(f, dict) and isinstance(val, list):
                    cols = [f['t']] + ([f['S'], f['I']] if 'S' in f else [f['Sus'], f['Inf'], f['Rec']])
                    if cols != val[:len(cols)]:
                        run.violation('C18/%s/full-data-flag' % name.split('/')[0], 'arrays of %s differ with and without return_full_data for identical seeds' % name,
                                      {'case': name, 'seed': s, 'plain': str(val)[:300], 'full': str(cols)[:300]})
            if len(samples) < 3 and name.startswith('fast_SIS/str'):
                samples.append({'case': name, 'seed': s, 'output_prefix': str(val)[:200]})
    # which loops can run in hash order: translate/hashiter2v.py regenerates coq/Gen/HashIter.v from the source, Props/HashIterTable.v
    # states that no continuous-time simulator reaches a set-ordered loop (the formal content of "independent of the hash seed") and
    # which entry points do.  The battery above (several PYTHONHASHSEED processes) is the failing-input search.
    from . import hashiter_lib
    hi = hashiter_lib.check_hashiter(run)
    stats['hash_iter'] = {'translator_ok': hi['_translator_ok'], 'theorem_ok': hi['_theorem_ok'], 'entries_with_set_ordered_loops': hi.get('_set_entries')}
    if not hi['_translator_ok']:
        run.violation('C18/hashiter/translator', 'translate/hashiter2v.py refuses the current source: %s' % hi['_translator_msg'][-300:],
                      {'broken': 'translate/hashiter2v.py -> coq/Gen/HashIter.v', 'log': hi['_translator_msg'][-2000:]}, no_input=True)
    elif not hi['_theorem_ok']:
        run.violation('C18/hashiter/table', 'Props/HashIterTable.v no longer checks (theorem %s): the set of loops that can run in hash order changed: %s' % (hi.get('_failed_theorem'), (hi.get('_log') or '')[-300:]),
                      {'broken': 'coq/Props/HashIterTable.v: %s' % hi.get('_failed_theorem'), 'log': (hi.get('_log') or '')[-2000:]}, no_input=True)
    if hi.get('_props'):
        props['theorems'] = list(props['theorems']) + list(hi['_props'].get('theorems', []))
        props['axioms'] = dict(props['axioms'], **hi['_props'].get('axioms', {}))
        props['ok'] = props['ok'] and bool(hi['_props'].get('ok'))
    # static part of the sentinel: the reproducibility argument (Props/C18.v: same calls => same draws) assumes the module-level
    # functions of `random` / `numpy.random` are the ONLY entropy the library touches; scan the source for any other generator or clock
    hits = entropy_scan()
    stats['entropy_scan'] = {'files': sorted(ENTROPY_FILES), 'hits': hits}
    if hits:
        run.violation('C18/entropy-static', 'the library source mentions an entropy source other than the seeded module-level random / numpy.random functions: %s' % hits[:6],
                      {'broken': 'assumption of coq/Props/C18.v (C18_same_calls_same_draws): all randomness comes through the seeded module-level generators', 'hits': hits}, no_input=True)
    # entropy sentinel: no other source than random / numpy.random
    sent = subprocess.run(['/venv/bin/python', '-c', SENTINEL], capture_output=True, text=True, env=dict(os.environ, EON_REPO=C.REPO, PYTHONHASHSEED='0', VERIF_DIR=C.VERIF), timeout=600)
    stats['sentinel'] = sent.stdout.strip()[-300:]
    if sent.returncode != 0 or 'ENTROPY' in sent.stdout:
        run.violation('C18/entropy', 'a simulator consumed entropy outside random/numpy.random: %s' % (sent.stdout + sent.stderr)[-400:], {'output': (sent.stdout + sent.stderr)[-2000:]})
    from . import xc05; n_eval += xc05.part(run, tier, 'C18', props, stats) or 0
    from . import xsis05; n_eval += xsis05.part(run, tier, 'C18', props, stats) or 0
    if not props['ok']:
        run.violation('C18/proof', 'Props/C18.v no longer checks: %s' % props['log'][-400:], {'broken': 'coq/Props/C18.v', 'log': props['log']}, no_input=True)
    C.proof_coverage(run, props, n_eval, n_eval - stats['exceptions'],
                     'battery of %d simulator calls per seed (every simulator; weighted/unweighted; plain/full data; rho; str/tuple/int node names; string and tuple statuses) x %d seeds x %d interpreter processes with different PYTHONHASHSEED + one repeat; compared byte-wise (repr of floats). Non-trivial = the call returned (did not raise).' % (stats['cases_per_seed'], len(seeds), len(hs)),
                     samples, {'distribution': stats})


ENTROPY_FILES = ('EoN/simulation.py', 'EoN/analytic.py', 'EoN/auxiliary.py', 'EoN/__init__.py')
ENTROPY_NAMES = {'Random', 'SystemRandom', 'urandom', 'getrandom', 'default_rng', 'RandomState', 'Generator', 'SeedSequence', 'getrandbits', 'randbytes',
                 'uuid', 'uuid1', 'uuid4', 'secrets', 'token_bytes', 'time_ns', 'perf_counter', 'perf_counter_ns', 'monotonic', 'monotonic_ns', 'process_time',
                 'datetime', 'getpid', 'id', 'hash', 'object_id', 'clock'}


def entropy_scan():
    """names of generators / clocks / identity hashes anywhere in the library source (ast: Name, Attribute, import);
    `time` only as the module (`import time`, `time.time`)"""
    import ast
    hits = []
    for rel in ENTROPY_FILES:
        path = os.path.join(C.REPO, rel)
        if not os.path.exists(path): continue
        import warnings
        with warnings.catch_warnings():
            warnings.simplefilter('ignore')
            tree = ast.parse(open(path).read())
        for node in ast.walk(tree):
            nm = None
            if isinstance(node, ast.Name): nm = node.id
            elif isinstance(node, ast.Attribute):
                nm = node.attr
                if isinstance(node.value, ast.Name) and node.value.id == 'time' and isinstance(node.ctx, ast.Load) and nm in ('time', 'sleep'): nm = 'time.' + nm
            elif isinstance(node, (ast.Import, ast.ImportFrom)):
                for a in node.names:
                    base = (getattr(node, 'module', None) or a.name).split('.')[0]
                    if base in ('time', 'secrets', 'uuid', 'datetime', 'os') and base != 'os' or a.name.split('.')[-1] in ENTROPY_NAMES:
                        hits.append('%s:%d import %s' % (rel, node.lineno, a.name))
                continue
            if nm in ENTROPY_NAMES or nm == 'time.time':
                hits.append('%s:%d %s' % (rel, node.lineno, nm))
    return hits


SENTINEL = r'''
import sys, os
sys.path.insert(0, os.path.join(os.environ.get("VERIF_DIR", "/verif"), "harness"))
import random, time, secrets
hits = []
def trap(name):
    def f(*a, **k):
        hits.append(name); raise RuntimeError("ENTROPY " + name)
    return f
import c18_worker as W
os.urandom = trap("os.urandom"); random.SystemRandom = trap("SystemRandom"); secrets.token_bytes = trap("secrets")
_seed = random.seed
def guarded_seed(*a, **k):
    if not a or a[0] is None: hits.append("random.seed()"); raise RuntimeError("ENTROPY random.seed() without argument")
    return _seed(*a, **k)
random.seed = guarded_seed
import numpy as np
_nps = np.random.seed
def guarded_npseed(*a, **k):
    if not a or a[0] is None: hits.append("np.random.seed()"); raise RuntimeError("ENTROPY np.random.seed() without argument")
    return _nps(*a, **k)
np.random.seed = guarded_npseed
out = W.battery(3)
bad = [k for k, v in out.items() if isinstance(v, str) and "ENTROPY" in v]
print("ENTROPY " + repr(bad) if bad or hits else "sentinel ok: %d calls, no other entropy source touched" % len(out))
'''


def replay(rp):
    r = rp['replay']
    if 'hashseeds' in r:
        a = worker([r['seed']], r['hashseeds'][0])[str(r['seed'])][r['case']]
        b = worker([r['seed']], r['hashseeds'][1])[str(r['seed'])][r['case']]
        print('same' if a == b else 'DIFFERENT'); return 0 if a == b else 1
    print('replay: re-run ./check C18'); return 2
