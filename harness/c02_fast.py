"""fast_SIS half of C02 (library for the coordinator's harness/c02.py):
`run_fast_part(run, tier) -> dict` runs the correspondence Model/EventSIS.v <-> EoN.fast_SIS
(scripted draws chosen by the model: random walks + every path of small graphs, depth
bounded by tmax) and the independent trace oracle esis_lib.oracle_clock, reports violations
on `run` (keys C02/fast_SIS/...) and returns counts/samples for the evidence.
Stand-alone: /venv/bin/python -m harness.c02_fast quick"""
import json
from fractions import Fraction as F
from . import common as C
from . import simrun as R
from . import sim_check as SC
from . import esis_lib as L

ENTRY = 'fast_SIS'
PROPS_FILE = 'Props/C02fast.v'
LABELS = [('t', 5, 0), 'vb', 14, ('m', 3)]


def small_cases(rng, tier):
    """every graph on <= 3 nodes (quick; a sample of the 4-node graphs in thorough), every
    non-empty initial set of size <= 2, weight paths, both return modes"""
    out = []
    sizes = [(1, None), (2, None), (3, None)] + ([(4, 40)] if tier != 'quick' else [])
    for n, cap in sizes:
        graphs = list(R.all_graphs(n))
        if cap: graphs = rng.sample(graphs, cap)
        for edges in graphs:
            for k in (1, 2):
                import itertools
                for i0 in itertools.combinations(range(n), k):
                    wmode = rng.choice(['none', 'none', 'edge', 'node', 'both'])
                    ewl = 'tw' if wmode in ('edge', 'both') else None
                    nwl = 'rw' if wmode in ('node', 'both') else None
                    ew = [R.dyadic(rng, zero_ok=(rng.random() < .2)) for _ in edges]
                    nw = [R.dyadic(rng, zero_ok=(rng.random() < .2)) for _ in range(n)]
                    labels = LABELS[:n]
                    gc = R.graph_from_edges(n, edges, labels, ewl=ewl, nwl=nwl, ew=ew, nw=nw)
                    out.append({'kind': ENTRY, 'gc': gc, 'full': rng.random() < .5, 'tmin': F(0), 'tmax': F(rng.choice([3, 4, 5]), 4),
                                'rho': None, 'i0_form': 'list', 'i0': [labels[i] for i in i0],
                                'tau': R.dyadic(rng, zero_ok=False), 'gamma': R.dyadic(rng, zero_ok=(rng.random() < .3))})
    return out


def nontrivial(case, m, impl):
    if m['status'] != 'OK' or 'rows' not in m: return False
    rows = m['rows']
    return len(rows) >= 3 and any(b[1][1] > a[1][1] for a, b in zip(rows, rows[1:])) and any(b[1][1] < a[1][1] for a, b in zip(rows, rows[1:]))


def run_fast_part(run, tier, pid='C02'):
    EoN = C.import_eon()
    import EoN.simulation as sim
    rng = run.rng
    ok, log = C.build_driver(L.COMP)
    if not ok:
        run.violation('%s/fast_SIS/build' % pid, 'extracted model (esis) does not build: ' + log[-500:], {'log': log[-3000:]}, no_input=True)
        return {'n': 0, 'distinct': 0, 'nontrivial': 0, 'stats': {}, 'samples': [], 'mismatches': 0, 'oracle_failures': 0, 'build': 'failed'}
    props = C.check_props('C02fast')
    if not props['ok']:
        run.violation('%s/fast_SIS/proof' % pid, 'Props/C02fast.v no longer checks: %s' % props['log'][-400:], {'broken': 'coq/Props/C02fast.v', 'log': props['log']}, no_input=True)
    res = SC.Result()
    def oracle(case, impl, m):
        if impl['status'] == 'OK':
            res.stat('reinfection_runs', 1 if any(len([e for e in h if e[1] == 1]) >= 2 for h in impl.get('hist', {}).values() if not isinstance(h, str)) else 0)
            res.stat('consecutive_equal_rate_draws', sum(1 for a, b in zip(impl['log'], impl['log'][1:]) if a[0] == 'E' and b[0] == 'E' and a[1] == b[1]))
        return L.oracle_clock(case, impl, m)
    corpus = [L.case_from_json(j) for j in C.load_corpus('C02') if j.get('kind') == ENTRY]
    if corpus:
        SC.run_cases(L, EoN, sim, corpus, ['W ' + R.ent_tokens(rng) for _ in corpus], oracle=oracle, nontrivial=nontrivial, res=res, label='corpus')
    small = small_cases(rng, tier)
    maxpaths = 40 if tier == 'quick' else 150
    SC.run_cases(L, EoN, sim, small, ['A 14 %d 3 1 8 3 8 5 4' % maxpaths] * len(small), oracle=oracle, nontrivial=nontrivial, res=res, label='exhaustive_small')
    nrand = 2500 if tier == 'quick' else 40000
    rnd = [L.gen_case(rng, ENTRY, nmax=8 if i % 3 else 12, malformed=(i % 40 == 0)) for i in range(nrand)]
    SC.run_cases(L, EoN, sim, rnd, ['W ' + R.ent_tokens(rng) for _ in rnd], oracle=oracle, nontrivial=nontrivial, res=res, label='random')
    SC.report(run, pid, ENTRY, res, 'Model/EventSIS.v', PROPS_FILE)
    return {'props': props, 'n': res.n, 'distinct': len(res.distinct), 'nontrivial': res.nontrivial, 'stats': res.stats, 'samples': res.samples,
            'mismatches': len(res.mism), 'oracle_failures': len(res.oracle_bad),
            'rule': 'fast_SIS under the scripted random source, scripts chosen by walking the extracted sampler program: every path (both sides... delays {1/8,3/8,5/4}, '
                    'depth 14 draws, <= %d paths per case) of every graph on <= 3 nodes x initial sets of size <= 2 x weight paths; random walks on graphs <= 12 nodes, weighted and '
                    'unweighted, rho / initial-node forms, malformed stream. Compared: every expovariate rate, arrays, histories, transmissions; independent trace oracle oracle_clock '
                    '(enabledness, clock rates, recovery = infection + draw, no skipped attempt). Non-trivial = at least one infection and one recovery after tmin.' % maxpaths}


def replay(rp):
    EoN = C.import_eon()
    import EoN.simulation as sim
    r = rp['replay']
    case = L.case_from_json(r)
    draws = [F(x) for x in r.get('draws', [])]
    impl = L.run_impl(EoN, sim, case, draws)
    bad = L.oracle_clock(case, impl, {'draws': draws})
    print('implementation:', impl['status'], impl.get('err', ''), 'rows', str(impl.get('rows'))[:300])
    print('oracle verdict:', bad or 'holds')
    if not bad and rp.get('no_failing_input_found'):
        C.build_driver(L.COMP)
        out = C.run_model([L.model_line(case, 'D %d %s' % (len(draws), R.qtoks(draws)))], L.COMP)[0]
        d = L.compare(case, R.parse_model_line(out), impl)
        print('correspondence:', d or 'agrees')
        return 1 if d else 0
    return 1 if bad else 0


if __name__ == '__main__':
    import sys, time
    tier = sys.argv[1] if len(sys.argv) > 1 else 'quick'
    run = C.Run('C02', tier, 20260927)
    t0 = time.time()
    d = run_fast_part(run, tier)
    print(json.dumps({k: v for k, v in d.items() if k not in ('samples', 'rule', 'props')}), 'theorems', d['props'].get('theorems'), 'ok', d['props'].get('ok'), '%.1fs' % (time.time() - t0))
    for key, what, rp, no_input in run.violations:
        print('VIOLATION', key, what[:400], 'no-input' if no_input else '')
    sys.exit(1 if run.violations else 0)
