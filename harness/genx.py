"""Cross-cutting properties C04 / C09 / C10 for the generic simulator Gillespie_simple_contagion:
theorem files coq/Props/C04gen.v, C09gen.v, C10gen.v (every draw script; proofs in
coq/Proofs/SimpleExec*.v) and the extracted checkers of coq/Model/GenxChk.v (component 'genx':
wf_gtrajb, gen_tx_okb, gen_rows_okb, plus consistent_b of Model/Investigation.v) applied to the
IMPLEMENTATION's own outputs: the plain arrays, the node histories and transmissions() of the
full-data object, both obtained from /repo on the same draws (scripted draws chosen by the
extracted model of component 'simple', and seeded runs of the real random module).
part(run, tier, pid, props, per) is called from harness/c04.py, c09.py, c10.py.
Stand-alone: ./check genx [--tier quick|thorough]; replay of a recorded failing input:
./check replay <file> when recorded by the stand-alone form, or
/venv/bin/python -m harness.genx <replay.json> for a file recorded under C04 / C09 / C10."""
import contextlib, io, json, sys
from fractions import Fraction as F
from . import common as C
from . import simrun as R
from . import simple_lib as L

COMP = 'genx'
ENTRY = 'Gillespie_simple_contagion'

CLAIM = dict(
    claimed=False,
    text="Machine-checked theorems (coq/Props/C04gen.v, C09gen.v, C10gen.v, closed under the global context) for Gillespie_simple_contagion, for EVERY contact graph "
         "(directed or not), specification, initial statuses, return_statuses, tmin/tmax and EVERY draw script, in both return modes: the rows are the running census "
         "(one count per return status) of ONE chronological log of enabled specification events, first row at tmin, times non-decreasing and below tmax, one node "
         "changes per row along a spec edge, counts within 0..N and summing to N when return_statuses covers; the node histories are the per-node projections of that "
         "log and transmissions() its induced events in order, each with the inducing neighbour, which has the inducing status at that moment and is a predecessor of "
         "the target; summary() of the histories equals the arrays when no two events share an instant. The decidable forms (wf_gtrajb, gen_tx_okb, gen_rows_okb, "
         "consistent_b) are proved sound and accepted on every model run, extracted, and applied to the implementation's own outputs.",
    design='DESIGN.md section 4, C04 / C09 / C10 (iv)',
    technique='Coq proof (exec-level run structure of the model: every draw script follows only enabled transitions; one event log, three projections) + extracted checkers on implementation outputs',
    note='stand-alone form of the generic-simulator part of C04/C09/C10')

WHICH = {'C04': 'C04gen', 'C09': 'C09gen', 'C10': 'C10gen'}


# ------------------------------------------------------------------ running /repo ----
def run_seeded(EoN, sim, case, seed, full):
    """the implementation under the REAL random module, seeded: both return modes consume the same draws"""
    import warnings
    sim.random.seed(seed)
    gc = case['gc']
    codes, _ = L.status_codes(case)
    rcode = {L.render(x, case['form']): c for x, c in codes.items()}
    try:
        with warnings.catch_warnings():
            warnings.simplefilter('ignore')
            val = L.call_impl(EoN, case, full)
    except Exception as e:
        return {'status': 'EXC', 'err': type(e).__name__}
    out = {'status': 'OK'}
    if full:
        out['hist'], out['trans'] = R.canon_full(val, gc, rcode)
        try:
            tt, D = val.summary()
            out['srows'] = R.canon_arrays([tt] + [D[L.render(x, case['form'])] for x in case['rstat']])
        except Exception as e:
            out['srows'] = 'EXC ' + type(e).__name__
    else:
        out['rows'] = R.canon_arrays(val)
    return out


def seedable(case):
    """under the REAL random module choose_random is a rejection sampler: weights of 2^-30 next to weights of order 1
    (generated to reach the roundoff guard under scripted accept tests) make it spin for ~2^30 rounds per event"""
    return all(w == 0 or w >= F(1, 8) for t in list(case['node_tabs'].values()) + list(case['edge_tabs'].values()) for w in t.values())


class TimeLimit(Exception):
    pass


@contextlib.contextmanager
def time_limit(seconds):
    import signal
    def handler(signum, frame): raise TimeLimit()
    try:
        old = signal.signal(signal.SIGPROF, handler); signal.setitimer(signal.ITIMER_PROF, seconds)
    except ValueError:           # not in the main thread: no limit
        yield; return
    try:
        yield
    finally:
        signal.setitimer(signal.ITIMER_PROF, 0); signal.signal(signal.SIGPROF, old)


def run_scripted(EoN, sim, case, draws, full):
    o = L.run_impl(EoN, sim, case, draws, full=full)
    if o['status'] == 'OK' and full:
        o['srows'] = o.pop('rows')
    return o


# ------------------------------------------------------------------ witness + driver line ----
def strict_rows(case, rows):
    """the arrays' times start at tmin and increase strictly: then (Props/C10gen.v: the rows carry the times of the
    run's log) no two events of the run share an instant and none is at tmin"""
    if not isinstance(rows, list) or not rows: return False
    ts = [F(t) for t, _ in rows]
    return ts[0] == case['tmin'] and all(a < b for a, b in zip(ts, ts[1:]))


def merge_witness(case, hist, trans, rows=None):
    """one chronological log from the per-node histories: (t, node, old, new, src).  Events of different nodes at
    the same instant have no order in the outputs: not judged (None) -- unless the plain arrays of the same draws show
    that the run had no two events at one instant; then the histories must be mergeable, and are judged as they are."""
    evs = []
    for u in sorted(hist):
        h = hist[u]
        if isinstance(h, str) or not h: return None, 'history unavailable: %r' % (h,)
        for (t0, s0), (t1, s1) in zip(h, h[1:]):
            evs.append((F(t1), u, s0, s1))
    times = [e[0] for e in evs]
    if (len(set(times)) != len(times) or any(t <= case['tmin'] for t in times)) and not strict_rows(case, rows):
        return None, 'tie'
    evs.sort(key=lambda e: e[0])
    pending = list(trans) if isinstance(trans, list) else []
    out = []
    for t, u, a, b in evs:
        src = None
        if pending and F(pending[0][0]) == t and pending[0][2] == u:
            src = pending.pop(0)[1]
        out.append((t, u, a, b, src))
    return out, None


def spec_tokens(case):
    codes, _ = L.status_codes(case)
    t = [str(len(case['spont']))]
    for tr in case['spont']:
        t += [str(codes[tr['a']]), str(codes[tr['b']]), C.qtok(tr['rate'])]
    t.append(str(len(case['induced'])))
    for tr in case['induced']:
        t += [str(codes[tr['a']]), str(codes[tr['b']]), str(codes[tr['a2']]), str(codes[tr['c']]), C.qtok(tr['rate'])]
    return t, codes


def genx_line(case, rows=None, hist=None, trans=None, wit=None, cov=None):
    gc = case['gc']
    spec, codes = spec_tokens(case)
    t = ['GENX', gc.tokens()] + spec
    t += [str(codes[case['ic'][u]]) for u in gc.order]
    t += [str(len(case['rstat']))] + [str(codes[x]) for x in case['rstat']]
    t += [C.qtok(case['tmin']), R.opt_q(case['tmax']), '1' if (L.covers(case) if cov is None else cov) else '0']
    if rows is None: t.append('0')
    else:
        t += ['1', str(len(rows))]
        for tm, cs in rows: t += [C.qtok(F(tm))] + [str(c) for c in cs]
    if hist is None: t.append('0')
    else:
        t += ['1', str(len(gc.order))]
        for i in range(len(gc.order)):
            h = hist[i]; t.append(str(len(h)))
            for tm, s in h: t += [C.qtok(F(tm)), str(s)]
    if trans is None: t.append('0')
    else:
        t += ['1', str(len(trans))]
        for tm, s, v in trans: t += [C.qtok(F(tm)), '0' if s is None else '1 %d' % s, str(v)]
    if wit is None: t.append('0')
    else:
        t += ['1', str(len(wit))]
        for tm, u, a, b, s in wit: t += [C.qtok(tm), str(u), str(a), str(b), '0' if s is None else '1 %d' % s]
    return ' '.join(t)


def parse_verdict(line):
    if not line or not line.startswith('OK'):
        return {'fail': line}
    v = {}
    for tok in line.split()[1:]:
        k, _, b = tok.partition('=')
        v[k] = None if b == '-' else (b == '1')
    return v


def in_domain(case):
    """the hypotheses of the theorems: a well-formed specification with weights defined everywhere"""
    return not case['missing'] and not L.is_malformed(case)


def rows_ok_shape(rows, case):
    return isinstance(rows, list) and all(len(c) == len(case['rstat']) for _, c in rows)


def judge(case, plain, full):
    """driver lines for one case: [(tag, line)], and what could not be judged"""
    lines = []; notes = {}
    prow = plain.get('rows') if plain and plain.get('status') == 'OK' else None
    if prow is not None:
        if rows_ok_shape(prow, case): lines.append(('plain', genx_line(case, rows=prow)))
        else: notes['plain_rows'] = prow
    if full and full.get('status') == 'OK' and isinstance(full.get('trans'), list) and all(not isinstance(h, str) for h in full['hist'].values()):
        wit, why = merge_witness(case, full['hist'], full['trans'], prow)
        if wit is None:
            notes['witness'] = why
        else:
            rows = prow if (prow is not None and rows_ok_shape(prow, case)) else None
            cons_ok = rows is not None and L.covers(case) and L.all_initial_in_rstat(case) and strict_rows(case, rows)
            lines.append(('full', genx_line(case, rows=rows, hist=full['hist'], trans=full['trans'], wit=wit)))
            notes['cons_judged'] = cons_ok
            srows = full.get('srows')
            if L.covers(case) and L.all_initial_in_rstat(case) and rows_ok_shape(srows, case):
                lines.append(('summary', genx_line(case, rows=srows)))
    return lines, notes


# ------------------------------------------------------------------ the part of C04 / C09 / C10 ----
def gen_cases(rng, n, nmax=6):
    out = []
    while len(out) < n:
        c = L.gen_case(rng, nmax=nmax, malformed=False, partial=False)
        if in_domain(c): out.append(c)
    return out


def collect(EoN, sim, rng, tier, n_scripted, n_seeded):
    """[(case, how, plain, full)] from the implementation: scripted draws chosen by the model, and seeded runs"""
    res = []
    ok, log = C.build_driver(L.COMP)
    cases = gen_cases(rng, n_scripted)
    if ok:
        outs = C.run_model([L.model_line(c, 'W ' + R.ent_tokens(rng)) for c in cases], L.COMP)
        for c, o in zip(cases, outs):
            m = R.parse_model_line(o)
            if m['status'] == 'DRIVERFAIL': continue
            draws = m['draws']
            plain = run_scripted(EoN, sim, c, draws, False)
            full = run_scripted(EoN, sim, c, draws, True) if L.covers(c) else None
            res.append((c, {'draws': [str(d) for d in draws]}, plain, full))
    if ok:
        # every path (cascade cell x candidate x 2 delays, depth-bounded) of small specifications on every labelled
        # graph of <= 3 nodes, directed and undirected: both return modes of the implementation on each script
        small = []
        for n in (1, 2, 3):
            for directed in (False, True):
                for edges in R.all_graphs(n, directed):
                    gc = R.graph_from_edges(n, edges, R.make_labels(rng, n), directed=directed)
                    c = L.make_case(rng, gc, rng.choice(['SIS', 'SIR', 'SIRS', 'SEIR', 'vaccination', 'random', 'odd']), tmax_steps=3)
                    if in_domain(c): small.append(c)
        if tier == 'quick': small = small[::2]
        amode = 'A %d %d 2 %s' % (8, 12 if tier == 'quick' else 60, R.qtoks([F(1, 4), F(3, 2)]))
        for c, o in zip(small, C.run_model([L.model_line(c, amode) for c in small], L.COMP)):
            for pth in (o.split(' ## ') if o and ' ## ' in o else [o]):
                m = R.parse_model_line(pth)
                if m['status'] == 'DRIVERFAIL': continue
                draws = m['draws']
                plain = run_scripted(EoN, sim, c, draws, False)
                full = run_scripted(EoN, sim, c, draws, True) if L.covers(c) else None
                res.append((c, {'draws': [str(d) for d in draws], 'every_path': True}, plain, full))
    for c in gen_cases(rng, n_seeded):
        if c['tmax'] is None and c['kind'] not in L.TERMINATING: continue
        if not seedable(c): continue
        seed = rng.randrange(10 ** 6)
        try:
            with time_limit(10):
                plain = run_seeded(EoN, sim, c, seed, False)
                full = run_seeded(EoN, sim, c, seed, True) if L.covers(c) else None
        except TimeLimit:
            continue
        res.append((c, {'seed': seed}, plain, full))
    return res, ok, log


FIELDS = {'C04': [('plain', 'traj', 'wf_gtrajb', 'the arrays'), ('summary', 'traj', 'wf_gtrajb', 'summary() of the full-data object')],
          'C09': [('full', 'tx', 'gen_tx_okb', 'node histories and transmissions()')],
          'C10': [('full', 'rowsw', 'gen_rows_okb', 'plain arrays against the log of the full-data object'),
                  ('full', 'cons', 'consistent_b', 'summary() of the node histories against the plain arrays')]}


def apply_checkers(run, pid, items, stats):
    """items: [(case, how, plain, full)].  Returns (judged, nontrivial, rejected, samples)"""
    lines = []; index = []
    for k, (case, how, plain, full) in enumerate(items):
        ls, notes = judge(case, plain, full)
        if notes.get('witness') == 'tie': stats['ties_not_judged'] += 1
        for tag, line in ls:
            lines.append(line); index.append((k, tag, notes))
    outs = C.run_model(lines, COMP)
    judged = nontrivial = rejected = 0; samples = []
    seen_cases = set()
    for (k, tag, notes), o in zip(index, outs):
        case, how, plain, full = items[k]
        v = parse_verdict(o)
        if 'fail' in v:
            run.violation('%s/genx/driver' % pid, 'checker driver failed: %r' % (v['fail'],), dict(L.case_json(case), how=how, genx=True), no_input=True); continue
        for wtag, field, chk, what in FIELDS[pid]:
            if wtag != tag or v.get(field) is None: continue
            if field == 'cons' and not notes.get('cons_judged'): continue
            judged += 1
            if k not in seen_cases:
                seen_cases.add(k)
                nrows = len(plain['rows']) if plain and isinstance(plain.get('rows'), list) else 0
                if nrows >= 3: nontrivial += 1
                if len(samples) < 3 and nrows >= 2:
                    samples.append({'kind': case['kind'], 'directed': case['gc'].G.is_directed(), 'rstat': case['rstat'], 'rows': plain['rows'][:4],
                                    'trans': (full or {}).get('trans', [])[:3] if full else None})
            if v[field] is False:
                rejected += 1
                shown = {'plain': (plain or {}).get('rows'), 'summary': (full or {}).get('srows'),
                         'full': {'rows': (plain or {}).get('rows'), 'hist': (full or {}).get('hist'), 'trans': (full or {}).get('trans')}}[tag]
                run.violation('%s/%s/%s' % (pid, ENTRY, chk),
                              'the extracted checker %s (proved sound and accepted on every model run, Props/%s.v) rejects the implementation\'s %s: %r' % (chk, WHICH.get(pid, pid), what, str(shown)[:600]),
                              dict(L.case_json(case), how=how, genx=True, checker_genx=chk, tag=tag, entry='generic:' + ENTRY))
    return judged, nontrivial, rejected, samples


def returns_check(run, pid, items, stats):
    """C04gen_never_crashes / C03x_never_a_python_error: inside the domain the plain mode returns, and so does the
    full-data mode when return_statuses covers"""
    for case, how, plain, full in items:
        for mode, o in (('plain', plain), ('full', full)):
            if o is None: continue
            if o['status'] == 'EXC':
                stats['impl_failed'] += 1
                if pid == 'C04':
                    run.violation('C04/%s/returns' % ENTRY, 'on a well-formed input (%s mode%s) the model returns for every draw script (C04gen_never_crashes); the implementation raised %s' % (
                                  mode, ', return_statuses covering' if mode == 'full' else '', o.get('err')),
                                  dict(L.case_json(case), how=how, genx=True, checker_genx='returns', entry='generic:' + ENTRY))


def part(run, tier, pid, props, per):
    """the generic-simulator part of property pid (C04 / C09 / C10), called from harness/c04.py, c09.py, c10.py:
    re-checks Props/<pid>gen.v (its theorems join the obligations of pid) and applies the extracted checker(s) of
    that property to the implementation's own outputs; a rejection is a failing input of the property."""
    EoN = C.import_eon()
    import EoN.simulation as sim
    C.extra_props(run, pid, props, [WHICH[pid]])
    ok, log = C.build_driver(COMP)
    if not ok:
        run.violation('%s/build/genx' % pid, 'extracted checkers do not build: ' + log[-500:], {'log': log[-3000:]}, no_input=True)
        return
    quick = tier == 'quick'
    stats = {'ties_not_judged': 0, 'impl_failed': 0}
    items, sok, slog = collect(EoN, sim, run.rng, tier, 500 if quick else 6000, 250 if quick else 3000)
    if not sok:
        run.violation('%s/build/simple' % pid, 'the extracted model that chooses the draw scripts does not build: ' + slog[-300:], {'log': slog[-2000:]}, no_input=True)
    returns_check(run, pid, items, stats)
    judged, nontrivial, rejected, samples = apply_checkers(run, pid, items, stats)
    per['%s/extracted-checker' % ENTRY] = {'proved': True, 'props': 'Props/%s.v' % WHICH[pid], 'checkers': sorted({f[2] for f in FIELDS[pid]}),
                                           'cases': len(items), 'judged': judged, 'nontrivial_cases': nontrivial, 'rejected': rejected,
                                           'directed': sum(1 for c, _, _, _ in items if c['gc'].G.is_directed()),
                                           'seeded': sum(1 for _, h, _, _ in items if 'seed' in h), 'every_path_small_graphs': sum(1 for _, h, _, _ in items if h.get('every_path')),
                                           'stats': stats, 'samples': samples[:2]}
    if pid in ('C04', 'C10'):
        complex_part(run, EoN, sim, tier, per, pid)


# ------------------------------------------------------------------ Gillespie_complex_contagion (C04) ----
CENTRY = 'Gillespie_complex_contagion'


def complex_line(CL, case, rows, hist=None):
    """the outputs of Gillespie_complex_contagion against wf_gtrajb / consistent_b with every status-to-status move
    allowed (Props/C04gen.v C04gen_complex_rows_well_formed, Props/C10gen.v C10gen_complex_summary_equals_arrays):
    the moves are given to the driver as spec edges a -> b over the status universe"""
    gc = case['gc']; ns = case['ns']
    U = sorted(set(range(ns)) | set(case['rs']))
    t = ['GENX', gc.tokens(), str(len(U) ** 2)]
    for a in U:
        for b in U: t += [str(a), str(b), '1 1']
    t.append('0')
    t += [str(s) for s in case['ic']]
    t += [str(len(case['rs']))] + [str(x) for x in case['rs']]
    t += [C.qtok(case['tmin']), R.opt_q(case['tmax']), '1' if set(range(ns)) <= set(case['rs']) else '0']
    t += ['1', str(len(rows))]
    for tm, cs in rows: t += [C.qtok(F(tm))] + [str(c) for c in cs]
    if hist is None: t.append('0')
    else:
        t += ['1', str(len(gc.order))]
        for i in range(len(gc.order)):
            h = hist[i]; t.append(str(len(h)))
            for tm, st in h: t += [C.qtok(F(tm)), str(st)]
    t += ['0', '0']
    return ' '.join(t)


def complex_full_ok(case, full, rows):
    """the hypotheses of C10gen_complex_summary_equals_arrays: return statuses distinct and covering, and no two
    events at the same instant, none at tmin (read off the plain arrays of the same draws)"""
    if not (set(range(case['ns'])) <= set(case['rs']) and len(set(case['rs'])) == len(case['rs'])): return False
    if not full or full.get('status') != 'OK' or any(isinstance(h, str) for h in full['hist'].values()): return False
    return strict_rows(case, rows)


def complex_part(run, EoN, sim, tier, per, pid='C04'):
    try:
        from . import complex_lib as CL
    except ImportError:
        return
    ok, log = C.build_driver(CL.COMP)
    if not ok:
        return
    rng = run.rng
    n = 300 if tier == 'quick' else 4000
    cases = []
    while len(cases) < n:
        c = CL.gen_case(rng, malformed=False)
        if c.get('covers') and all(s is not None for s in c['ic']): cases.append(c)
    outs = C.run_model([CL.model_line(c, 'W ' + R.ent_tokens(rng)) for c in cases], CL.COMP)
    lines = []; idx = []
    crashed = 0
    field, chk, thm = {'C04': ('traj', 'wf_gtrajb', 'C04gen_complex_rows_well_formed'), 'C10': ('cons', 'consistent_b', 'C10gen_complex_summary_equals_arrays')}[pid]
    for c, o in zip(cases, outs):
        m = R.parse_model_line(o)
        if m['status'] == 'DRIVERFAIL': continue
        impl = CL.run_impl(EoN, sim, c, m['draws'], full=False)
        if impl['status'] == 'EXC':
            crashed += 1
            if pid == 'C04':
                run.violation('C04/%s/returns' % CENTRY, 'on a well-formed input (influence set covering, plain mode) the model returns for every draw script (C15_every_run); the implementation raised %s' % impl.get('err'),
                              dict(CL.case_json(c, m['draws']), genx=True, checker_genx='returns', entry='generic:' + CENTRY))
            continue
        rows = impl.get('rows')
        if impl['status'] != 'OK' or not isinstance(rows, list) or not all(len(cs) == len(c['rs']) for _, cs in rows): continue
        hist = None
        if pid == 'C10':
            if not (set(range(c['ns'])) <= set(c['rs']) and len(set(c['rs'])) == len(c['rs'])): continue
            full = CL.run_impl(EoN, sim, c, m['draws'], full=True)
            if not complex_full_ok(c, full, rows): continue
            hist = full['hist']
        lines.append(complex_line(CL, c, rows, hist)); idx.append((c, m['draws'], rows, hist))
    judged = rejected = nontrivial = 0
    for (c, draws, rows, hist), o in zip(idx, C.run_model(lines, COMP)):
        v = parse_verdict(o)
        if 'fail' in v:
            run.violation('%s/genx/driver' % pid, 'checker driver failed: %r' % (v['fail'],), dict(CL.case_json(c, draws), genx=True), no_input=True); continue
        judged += 1; nontrivial += len(rows) >= 3
        if v.get(field) is False:
            rejected += 1
            run.violation('%s/%s/%s' % (pid, CENTRY, chk), 'the extracted checker %s (proved sound and accepted on every model run, Props/%sgen.v %s) rejects the implementation\'s output: arrays %r%s' % (
                          chk, pid, thm, rows[:8], '' if hist is None else ' node histories %r' % (dict(list(hist.items())[:4]),)),
                          dict(CL.case_json(c, draws), genx=True, checker_genx=chk, entry='generic:' + CENTRY))
    per['%s/extracted-checker' % CENTRY] = {'proved': True, 'props': 'Props/%sgen.v' % pid, 'checkers': [chk], 'cases': len(cases), 'judged': judged,
                                            'nontrivial_cases': nontrivial, 'rejected': rejected, 'impl_failed': crashed}


# ------------------------------------------------------------------ stand-alone ----
def run(run, tier):
    EoN = C.import_eon()
    import EoN.simulation as sim
    props = {'ok': True, 'theorems': [], 'axioms': {}, 'log': ''}
    per = {}
    for pid in ('C04', 'C09', 'C10'):
        xp = C.check_props(WHICH[pid])
        props['theorems'] += list(xp['theorems']); props['axioms'].update(xp['axioms'])
        if not xp['ok']:
            props['ok'] = False; props['log'] += ' | ' + xp['log'][-400:]
            run.violation('GENX/proof/%s' % WHICH[pid], 'Props/%s.v no longer checks: %s' % (WHICH[pid], xp['log'][-400:]), {'broken': 'coq/Props/%s.v' % WHICH[pid], 'log': xp['log']}, no_input=True)
    ok, log = C.build_driver(COMP)
    if not ok:
        run.violation('GENX/build', 'extracted checkers do not build: ' + log[-500:], {'log': log[-3000:]}, no_input=True)
        C.proof_coverage(run, props, 1, 0, 'build failed', [log[-300:]]); return
    quick = tier == 'quick'
    stats = {'ties_not_judged': 0, 'impl_failed': 0}
    items, sok, slog = collect(EoN, sim, run.rng, tier, 500 if quick else 6000, 250 if quick else 3000)
    returns_check(run, 'C04', items, stats)
    tot = nt = 0; samples = []
    for pid in ('C04', 'C09', 'C10'):
        j, n, r, s = apply_checkers(run, pid, items, stats)
        per[pid] = {'judged': j, 'rejected': r}; tot += j; nt = max(nt, n); samples = samples or s
    complex_part(run, EoN, sim, tier, per, 'C04')
    per['C04/' + CENTRY] = per.pop('%s/extracted-checker' % CENTRY, None)
    complex_part(run, EoN, sim, tier, per, 'C10')
    C.proof_coverage(run, props, tot, nt,
                     'random specifications (families %s) on random graphs of 1-6 nodes, directed and undirected, weight labels / rate functions, string / tuple / unorderable statuses, '
                     'return_statuses full / subset / repeated / unknown; the implementation run in both return modes on the same draws (scripted draws chosen by the extracted model; seeded runs of the real '
                     'random module); extracted wf_gtrajb on the arrays, gen_tx_okb on (node histories, transmissions(), merged log), gen_rows_okb and consistent_b on (plain arrays, full-data object). '
                     'Non-trivial = at least 2 events' % ', '.join(L.FAMILIES), samples, {'per_property': per, 'stats': stats})


def replay(rp):
    EoN = C.import_eon(); import EoN.simulation as sim
    j = rp['replay']
    if j.get('entry') == 'generic:' + CENTRY:
        from . import complex_lib as CL
        case = CL.case_from_json(j); draws = [F(x) for x in j.get('draws', [])]
        C.build_driver(COMP)
        impl = CL.run_impl(EoN, sim, case, draws, full=False)
        print('implementation:', impl['status'], impl.get('err', ''), impl.get('rows'))
        if impl['status'] == 'EXC': return 1
        if impl['status'] != 'OK' or not isinstance(impl.get('rows'), list): return 0
        full = CL.run_impl(EoN, sim, case, draws, full=True)
        hist = full['hist'] if complex_full_ok(case, full, impl['rows']) else None
        v = parse_verdict(C.run_model([complex_line(CL, case, impl['rows'], hist)], COMP)[0])
        print('extracted checkers on the arrays%s:' % ('' if hist is None else ' and node histories'), v)
        return 1 if (v.get('traj') is False or (hist is not None and v.get('cons') is False)) else 0
    case = L.case_from_json(j); case['entry'] = ENTRY
    how = j.get('how', {})
    C.build_driver(COMP)
    if 'seed' in how:
        with time_limit(120):
            plain = run_seeded(EoN, sim, case, how['seed'], False); full = run_seeded(EoN, sim, case, how['seed'], True) if L.covers(case) else None
    else:
        draws = [F(x) for x in how.get('draws', [])]
        plain = run_scripted(EoN, sim, case, draws, False); full = run_scripted(EoN, sim, case, draws, True) if L.covers(case) else None
    print('plain:', plain.get('status'), plain.get('err', ''), plain.get('rows'))
    if full: print('full :', full.get('status'), full.get('err', ''), 'hist', full.get('hist'), 'trans', full.get('trans'))
    bad = 0
    if j.get('checker_genx') == 'returns':
        bad = int(any(o is not None and o['status'] == 'EXC' for o in (plain, full)))
    ls, notes = judge(case, plain, full)
    for (tag, line), o in zip(ls, C.run_model([l for _, l in ls], COMP)):
        v = parse_verdict(o)
        print('extracted checkers on', tag, ':', v)
        for k, b in v.items():
            if b is False and not (k == 'cons' and not notes.get('cons_judged')): bad = 1
    return bad


if __name__ == '__main__':
    sys.exit(replay(json.load(open(sys.argv[1]))))
