"""C03: Gillespie_simple_contagion realises exactly the user-specified transitions.
Theorems: coq/Props/C03.v over the executable model coq/Model/Simple.v.  Tie: the
extracted model chooses draw scripts (random walks and every path of small cases), the
implementation in /repo is run on the same scripts under the scripted random source, and
the full trace (rate handed to expovariate, candidates handed to random.choice, accept
tests) and the outputs are compared.  Failing-input search: an L0 oracle in plain Python
(harness/simple_lib.oracle_spec, independent of the Coq model) replays the
implementation's own trace against the specification."""
import itertools, random
from fractions import Fraction as F
from . import common as C
from . import simrun as R
from . import sim_check as SC
from . import simple_lib as L

CLAIM_MORE = 'ALSO (coq/Props/C03x.v, exec level): for EVERY draw script a run is set-up + steps + stop rule with its exact call trace, never a Python-level error in plain mode or with covering return_statuses, fuel never exhausted by a script no longer than the fuel, every event one enabled transition of the specification, weights and step law at every loop head of every run.'

CLAIM = dict(
    text="Machine-checked theorems (coq/Props/C03.v) over an executable model of Gillespie_simple_contagion written as the code is "
         "(one _ListDict_ and one get_weight dictionary per spec edge in the cascade's order, set-up, selection cascade + choose_random, "
         "the incremental update of the potential transitions in the directed and the undirected branch, data/node_history/transmissions, "
         "the Simulation_Investigation constructor's failure modes): the bookkeeping invariant (every potential_transitions[tr] is exactly the "
         "set of nodes / ordered neighbour pairs enabled by the current statuses, with the right weights) holds initially (C03_simple_inv_initial) and after every event (C03_simple_inv_step); "
         "under it one jump selects (transition, actor) with probability rate*weight/total, nothing outside the enabled set has positive mass, "
         "the waiting-time rate is the total rate, the loop stops iff total = 0 or t >= tmax, counts track statuses, and EoNError is raised iff "
         "the specification is malformed.  Exec level (coq/Props/C03x.v): for EVERY draw script the scripted run of the model is set-up + a sequence of steps + the stop rule; "
         "it never ends in a Python-level error (plain mode, or return_statuses covering); every loop head satisfies the invariant; every waiting time is drawn with the total rate "
         "of the enabled transitions, the cascade is run against the rate shares and choose_random is offered exactly the enabled actors; every event is one enabled transition "
         "(status edge of H at the node / edge of J at an actual (neighbour, node) pair along the edge direction) with positive rate; the weights in use stay the specification's; "
         "the one-step law rate*weight/total holds at every loop head of every run; rows, histories and transmissions are projections of one chronological log; fuel never runs "
         "out on a script no longer than the fuel.  Tie: trace-level correspondence of the extracted model with /repo on random and exhaustively "
         "enumerated draw scripts over SIS, SIR, SIRS, SEIR, competing/cooperating diseases, vaccination and random 2-4 status specifications, "
         "directed and undirected graphs, weight labels and rate functions, string/tuple/unorderable statuses, both return modes.",
    design='DESIGN.md section 4, C03; Appendix A.3',
    technique='Coq proof (bookkeeping invariant by refinement of _ListDict_, one-step law) + extracted-model/implementation trace correspondence + L0 trace-replay oracle',
    note="random.random/choice/expovariate are read as uniform/uniform/exponential (DESIGN 2.3); the law of choose_random's rejection loop is C16's theorem and is "
         "idealised as weight/total in `law`.  The cascade order is the code's (sorted spec edges, list order when the statuses cannot be sorted).  Statuses that are "
         "themselves pairs of other statuses (so that a spontaneous edge and an induced edge are the same Python tuple) and contact graphs with self-loops are outside "
         "the modelled domain.  Exact arithmetic: the roundoff guard (total_weight < 1e-7 -> update_total_weight) is modelled and proved to be a no-op on the abstraction.")

PID = 'C03'


def small_cases(rng, nmax, per_graph, kinds, tier):
    """every labelled graph on <= nmax nodes (directed and undirected; sampled above 3 nodes in
    the quick tier), each with a few small specifications"""
    out = []
    for n in range(1, nmax + 1):
        for directed in (False, True):
            graphs = list(R.all_graphs(n, directed))
            if len(graphs) > 64:
                graphs = rng.sample(graphs, 64 if tier == 'quick' else 400)
            for edges in graphs:
                for _ in range(per_graph):
                    labels = R.make_labels(rng, n)
                    gc = R.graph_from_edges(n, edges, labels, directed=directed)
                    out.append(L.make_case(rng, gc, rng.choice(kinds), tmax_steps=3))
    return out


def run(run, tier):
    EoN = C.import_eon()
    import EoN.simulation as sim
    rng = run.rng
    props = C.check_props(PID)
    ok, log = C.build_driver(L.COMP)
    if not ok:
        run.violation('C03/build', 'extracted model does not build: ' + log[-500:], {'log': log[-3000:]}, no_input=True)
        C.proof_coverage(run, props, 1, 0, 'build failed', [log[-300:]]); return
    quick = tier == 'quick'
    res = SC.Result()
    defects = []

    def orc(case, impl, m):
        for suffix, what in L.oracle_fulldata(case, impl, m):
            defects.append((suffix, what, L.case_json(case, m.get('draws'))))
        return L.oracle_spec(case, impl, m)

    # 0. corpus of past failures
    corpus = [L.case_from_json(j) for j in C.load_corpus(PID)]
    if corpus:
        SC.run_cases(L, EoN, sim, corpus, ['D %d %s' % (len(j['draws']), R.qtoks(j['draws'])) for j in C.load_corpus(PID)], oracle=orc, nontrivial=L.nontrivial, res=res, label='corpus')
    # 1. random specifications, random walks of the sampler program
    nrand = 8000 if quick else 100000
    cases = []; modes = []
    for i in range(nrand):
        r = rng.random()
        cases.append(L.gen_case(rng, nmax=6 if i % 5 else 8, malformed=r < 0.04, partial=0.04 <= r < 0.07))
        modes.append('W ' + R.ent_tokens(rng))
    SC.run_cases(L, EoN, sim, cases, modes, oracle=orc, nontrivial=L.nontrivial, res=res, label='random')
    # 2. every path of small cases (model-guided exhaustive exploration)
    delays = [F(1, 4), F(3, 2)]
    sm = small_cases(rng, 3 if quick else 4, 3 if quick else 4, ['SIS', 'SIR', 'SIRS', 'SEIR', 'vaccination', 'random', 'random', 'odd'], tier)
    amode = 'A %d %d %d %s' % (10 if quick else 13, 80 if quick else 220, len(delays), R.qtoks(delays))
    SC.run_cases(L, EoN, sim, sm, [amode] * len(sm), oracle=orc, nontrivial=L.nontrivial, res=res, label='exhaustive')
    # 3. the legacy alias forwards to the same function (sim_kwargs must be a mapping there)
    leg = []
    for i in range(40 if quick else 400):
        c = L.gen_case(rng, nmax=5); c['entry'] = 'Gillespie_Arbitrary'; c['kwargs'] = False; c['alias_sim_kwargs'] = i % 4 != 0; leg.append(c)
    SC.run_cases(L, EoN, sim, leg, ['W ' + R.ent_tokens(rng) for _ in leg], oracle=orc, nontrivial=L.nontrivial, res=res, label='legacy_alias')
    # called with its default sim_kwargs=None the alias dies in `**sim_kwargs` before simulating anything: a
    # forwarding defect of the wrapper (C05's forwarding theorem), recorded here and not judged under C03
    is_default_alias = lambda rp: rp.get('entry') == 'Gillespie_Arbitrary' and not rp.get('alias_sim_kwargs')
    alias_err = [x for x in res.mism if is_default_alias(x[2])]
    res.mism = [x for x in res.mism if not is_default_alias(x[2])]
    res.oracle_bad = [x for x in res.oracle_bad if not is_default_alias(x[3])]
    SC.report(run, PID, L.ENTRY, res, 'Model/Simple.v', 'Props/C03.v')
    C.extra_props(run, 'C03', props, ['C03x'])
    # the jump law inside a weighted candidate set is C16's: a change to _ListDict_ that biases the choice is a failing input here too
    from . import c16 as _c16
    import EoN.simulation as _sim
    _c16.selection_law_part(run, 'C03', _sim, run.rng, 300 if tier == 'quick' else 4000)
    if not props['ok']:
        run.violation('C03/proof', 'Props/C03.v no longer checks: %s' % props['log'][-400:], {'broken': 'coq/Props/C03.v', 'log': props['log']}, no_input=True)
    shapes = {}
    for c in cases + sm:
        k = '%s/%s/%s/%s' % (c['kind'], 'directed' if c['gc'].G.is_directed() else 'undirected', c['form'], c['shape'])
        shapes[k] = shapes.get(k, 0) + 1
    dist = dict(res.stats)
    dist['by_family'] = {k: sum(v for s, v in shapes.items() if s.startswith(k + '/')) for k in L.FAMILIES}
    dist['directed'] = sum(v for s, v in shapes.items() if '/directed/' in s)
    dist['undirected'] = sum(v for s, v in shapes.items() if '/undirected/' in s)
    dist['status_forms'] = {f: sum(v for s, v in shapes.items() if '/%s/' % f in s) for f in ('str', 'tuple', 'opaque')}
    dist['weighted_transitions'] = sum(1 for c in cases + sm for t in c['spont'] + c['induced'] if t['w'])
    dist['full_data'] = sum(1 for c in cases + sm if c['full'])
    dist['shapes'] = {k: sum(v for s, v in shapes.items() if s.endswith('/' + k)) for k in sorted({s.split('/')[-1] for s in shapes})}
    C.proof_coverage(run, props, res.n, min(len(res.distinct), res.nontrivial),
                     'random specifications (families %s; 4%% malformed, 3%% with a weight label missing on one node/edge) on random graphs of 1-8 nodes with permuted/str/tuple/mixed node labels, '
                     'directed and undirected, weight labels / rate functions (dyadic tables, sometimes 2^-30 to reach the roundoff guard), string / tuple / unorderable statuses, return_statuses '
                     'full / subset / repeated / unknown, both return modes; draw scripts chosen by walking the extracted sampler program; plus EVERY path (cascade cell x candidate x 2 delays, depth-bounded) '
                     'of small specifications on every labelled graph of <=%d nodes (sampled above 64 graphs per size%s). Compared: every call to the random source with its arguments, rows, '
                     'histories, transmissions, exception class. Non-trivial = at least 2 events' % (', '.join(L.FAMILIES), 3 if quick else 4, ' in the quick tier' if quick else ''),
                     res.samples, {'distribution': dist, 'mismatches': len(res.mism), 'oracle_failures': len(res.oracle_bad),
                                   'observed_defects_outside_C03': {'full-data/return_statuses-subset': len(defects), 'example': defects[0][1] if defects else None,
                                                                     'legacy_alias_Gillespie_Arbitrary': alias_err[0][1] if alias_err else None},
                                   'exhaustive_part': 'all draw paths (bounded depth) on all labelled graphs of <=%d nodes' % (3 if quick else 4)})
    run.assumptions += ['random.random uniform on [0,1), random.choice uniform, random.expovariate(r) exponential with rate r, draws independent (DESIGN 2.3)',
                        'the rejection loop of choose_random selects proportionally to weight (Props/C16.v) - idealised in `law`',
                        'the cascade walks the transitions in the order sorted(spontaneous)+sorted(induced) (list order when unsortable)']


def replay(rp):
    if rp['replay'].get('listdict'):
        from . import c16
        return c16.replay(rp)
    EoN = C.import_eon()
    import EoN.simulation as sim
    r = rp['replay']
    case = L.case_from_json(r)
    draws = [F(x) for x in r.get('draws', [])]
    C.build_driver(L.COMP)
    mo = C.run_model([L.model_line(case, 'D %d %s' % (len(draws), R.qtoks(draws)))], L.COMP)[0]
    m = R.parse_model_line(mo)
    impl = L.run_impl(EoN, sim, case, draws)
    print('case:', {k: r[k] for k in ('kind', 'form', 'spont', 'induced', 'ic', 'rstat', 'tmin', 'tmax', 'full')})
    print('implementation:', impl['status'], impl.get('err', ''), 'calls:', impl['log'][:12], 'rows:', impl.get('rows'))
    bad = L.oracle_spec(case, impl, m)
    d = L.compare(case, m, impl)
    print('specification oracle:', bad or 'holds')
    print('correspondence with the model:', d or 'agrees')
    return 1 if (bad or d) else 0
