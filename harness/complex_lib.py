"""Gillespie_complex_contagion: case generation (user models as parametric families or as
arbitrary tables), model lines for the `complex` driver, running the implementation on a
draw script with user callbacks that log their arguments, comparison (trace + rows +
histories + callback log), and an L0 oracle that is independent of the Coq model."""
import itertools
from collections import defaultdict
from fractions import Fraction as F
from . import common as C
from . import simrun as R

COMP = 'complex'
FUEL = 400
STATUS_LABELS = (['S', 'I', 'R', 'E'], ['susc', 'inf', 'rec', 'exp'], [('s', 0), ('i', 1), ('r', 2), ('e', 3)],
                 [10, 'b', ('c',), 13])

ROWKEYS = ('watch', 'thr', 'base', 'slope', 'low', 'cwatch', 'cthr', 'ca', 'cb')


def srow(watch=0, thr=0, base=0, slope=0, low=0, cwatch=0, cthr=0, ca=0, cb=0):
    return dict(watch=watch, thr=F(thr), base=F(base), slope=F(slope), low=F(low), cwatch=cwatch, cthr=F(cthr), ca=ca, cb=cb)


def count_dependent(r):
    return not (r['slope'] == 0 and (r['thr'] <= 0 or r['base'] == r['low']))


# ------------------------------------------------------------- model families ----
def family(rng, kind):
    """-> (rows, nstatus, src, infl, filt).  Status codes: 0 = S, 1 = I, 2 = R, 3 = E."""
    dy = lambda: R.dyadic(rng, zero_ok=False)
    src = 0; infl = rng.choice([0, 0, 3]); filt = []
    if kind == 'threshold':      # S -> I at rate r once at least k neighbours are I (absorbing)
        rows = [srow(watch=1, thr=rng.choice([1, 2, 2, 3]), base=dy(), low=0, ca=1, cb=1)]
        ns = 2
    elif kind == 'threshold_rec':  # the same with recovery I -> R, or I -> S
        back = rng.choice([2, 0])
        rows = [srow(watch=1, thr=rng.choice([1, 2]), base=dy(), slope=rng.choice([0, 0, dy()]), low=rng.choice([0, 0, F(1, 4)]), ca=1, cb=1),
                srow(base=dy(), ca=back, cb=back)]
        ns = 3 if back == 2 else 2
    elif kind == 'sis':
        rows = [srow(watch=1, slope=dy(), ca=1, cb=1), srow(base=dy(), ca=0, cb=0)]
        ns = 2
    elif kind == 'sir':          # the docstring example: influence set = susceptible neighbours
        rows = [srow(watch=1, slope=dy(), ca=1, cb=1), srow(base=dy(), ca=2, cb=2)]
        ns = 3
        infl = rng.choice([0, 1, 1, 3]); filt = [0] if rng.random() < .7 else [0, 2]
    elif kind == 'cascade':      # S -> E (threshold on I neighbours) -> I -> R ; the chooser of E looks at the neighbours too
        rows = [srow(watch=1, thr=rng.choice([1, 2]), base=dy(), ca=3, cb=3),
                srow(base=dy(), ca=2, cb=2), srow(),
                srow(base=dy(), cwatch=1, cthr=rng.choice([1, 2]), ca=1, cb=rng.choice([1, 0]))]
        ns = 4
        if rng.random() < .4: infl = 1; filt = [0]
    elif kind == 'longrange':    # rates depend on the number of I nodes anywhere: influence set = all nodes
        rows = [srow(watch=1, thr=rng.choice([0, 1, 2]), slope=dy(), base=rng.choice([0, F(1, 2)]), ca=1, cb=1),
                srow(watch=rng.choice([0, 1]), base=dy(), slope=rng.choice([0, F(1, 4)]), ca=rng.choice([0, 2]), cb=2)]
        ns = 3; src = 1; infl = 2
    else:                        # random rows over 2-4 statuses
        ns = rng.randint(2, 4)
        rows = []
        for s in range(rng.randint(1, ns)):
            rows.append(srow(watch=rng.randrange(ns), thr=rng.choice([0, 0, 1, 2, F(3, 2)]), base=R.dyadic(rng), slope=rng.choice([0, 0, dy()]),
                             low=rng.choice([0, 0, dy()]), cwatch=rng.randrange(ns), cthr=rng.choice([0, 1, 2]),
                             ca=rng.randrange(ns), cb=rng.randrange(ns)))
        src = rng.choice([0, 0, 0, 1])
        infl = 2 if src == 1 else rng.choice([0, 0, 1, 2, 3])
        if infl == 1:
            filt = [s for s, r in enumerate(rows) if count_dependent(r)]
            filt += [s for s in range(ns) if s not in filt and rng.random() < .3]
    return rows, ns, src, infl, filt


def family_covers(case):
    """sufficient condition for `influence_covers` (the property's hypothesis)"""
    rows = case['rows']; dep = [s for s, r in enumerate(rows) if count_dependent(r)]
    if not dep: return True
    if case['src'] == 1: return case['infl'] == 2
    if case['infl'] in (0, 2, 3): return True
    if case['infl'] == 1: return set(dep) <= set(case['filt'])
    return False


FAMILIES = ('threshold', 'threshold_rec', 'sis', 'sir', 'cascade', 'longrange', 'random')


def progressive(case):
    """every firing strictly increases a potential, so the run ends without tmax"""
    if case['mk'] == 'T': return case.get('progressive', False)
    order = {0: 0, 3: 1, 1: 2, 2: 3}          # S < E < I < R
    for s, r in enumerate(case['rows']):
        if r['base'] == 0 and r['slope'] == 0 and r['low'] == 0: continue
        if order.get(r['ca'], -1) <= order.get(s, 9) or order.get(r['cb'], -1) <= order.get(s, 9): return False
    return True


def random_tables(rng, n, k, progressive_=False, cover='exact'):
    """arbitrary user functions as tables over the k^n status configurations; the influence
    table is the minimal cover of the rate table (configuration by configuration), plus extras"""
    ncfg = k ** n
    dig = lambda c, i: (c // k ** i) % k
    setd = lambda c, i, s: c + (s - dig(c, i)) * k ** i
    vals = [F(0), F(0), F(1, 2), F(1), F(3, 2), F(2), F(1, 4), F(3)]
    # rates depend on the own status and on a random subset of the other nodes (sparse dependencies)
    deps = [[v for v in range(n) if v != u and rng.random() < .5] for u in range(n)]
    rt = [[None] * n for _ in range(ncfg)]; ct = [[0] * n for _ in range(ncfg)]
    cache = {}
    for c in range(ncfg):
        for u in range(n):
            key = (u, dig(c, u)) + tuple(dig(c, v) for v in deps[u])
            if key not in cache:
                r, ch = rng.choice(vals), rng.randrange(k)
                if progressive_:
                    if dig(c, u) == k - 1: r = F(0); ch = k - 1
                    else: ch = rng.randint(dig(c, u) + 1, k - 1)
                cache[key] = (r, ch)
            rt[c][u], ct[c][u] = cache[key]
    it = [[None] * n for _ in range(ncfg)]
    covers = True
    for c in range(ncfg):
        for v in range(n):
            need = [u for u in range(n) if u != v and any(rt[setd(c, v, s)][u] != rt[c][u] for s in range(k))]
            if cover == 'all': need = list(range(n))
            elif cover == 'drop' and need and rng.random() < .5:
                need = need[1:]; covers = False
            extra = [u for u in range(n) if u not in need and rng.random() < .2]
            l = need + extra; rng.shuffle(l)
            it[c][v] = l
    return rt, ct, it, covers


# ------------------------------------------------------------------ cases ----
def gen_case(rng, kind=None, nmax=8, malformed=False):
    kind = kind or rng.choice(FAMILIES + ('table', 'table'))
    directed = rng.random() < .3
    if kind == 'table':
        gc = R.gen_graph(rng, nmax=min(nmax, 4), directed=directed)
    else:
        gc = R.gen_graph(rng, nmax=nmax, directed=directed, ewl=rng.choice([None, None, 'tw']), nwl=rng.choice([None, None, 'sus']), zero_w=rng.random() < .3)
    return finish_case(rng, gc, kind, malformed)


def finish_case(rng, gc, kind, malformed=False, ic=None, tmax='auto', full=None):
    n = len(gc.order)
    case = {'gc': gc, 'fam': kind, 'labels': list(rng.choice(STATUS_LABELS)), 'params_none': rng.random() < .3}
    if kind == 'table':
        k = rng.choice([2, 2, 3]) if n <= 3 else 2
        prog = rng.random() < .4
        rt, ct, it, cov = random_tables(rng, n, k, prog, rng.choice(['exact', 'exact', 'exact', 'all', 'drop']))
        case.update(mk='T', k=k, rt=rt, ct=ct, it=it, progressive=prog, covers=cov, ns=k)
    else:
        rows, ns, src, infl, filt = family(rng, kind)
        if rng.random() < .06: infl = 4                               # an influence set that covers nothing
        case.update(mk='F', rows=rows, ns=ns, src=src, infl=infl, filt=filt)
        case['covers'] = family_covers(case)
    case['infl_form'] = rng.choice(['list', 'set', 'tuple', 'iter', 'dictkeys'])
    ns = case['ns']
    if ic is None:
        p_i = rng.choice([.2, .4, .6])
        ic = [(1 if rng.random() < p_i else rng.randrange(ns) if rng.random() < .3 else 0) for _ in range(n)]
    case['ic'] = list(ic)
    case['ic_form'] = rng.choice(['dict', 'defaultdict'])
    if malformed:
        case['ic'][rng.randrange(n)] = None; case['ic_form'] = 'dict'  # IC lacks a node: KeyError
    rs = list(range(ns)); rng.shuffle(rs)
    r = rng.random()
    if r < .25: rs = rs[:rng.randint(1, ns)]                          # some statuses are not reported
    elif r < .35: rs = rs + [ns]                                      # a status no node ever has
    case['rs'] = rs
    case['rs_form'] = rng.choice(['list', 'tuple'])
    case['tmin'] = F(rng.choice([0, 0, 5, -3]), rng.choice([1, 2]))
    if tmax == 'auto':
        # denominators 64: never equal to a sum of scripted delays (denominators <= 32), so no tie with tmax
        tmax = case['tmin'] + F(rng.randint(1, 6) * 32 + 1, 64)
        if progressive(case) and rng.random() < .5: tmax = None
        if rng.random() < .04: tmax = case['tmin'] - F(1, 64)         # tmax before tmin: the first delay is still drawn
    case['tmax'] = tmax
    case['full'] = (rng.random() < .25) if full is None else full
    if case['full'] and not malformed and not set(range(ns)) <= set(rs) and rng.random() < .8:
        # the full-data object counts return_statuses only and its constructor raises KeyError /
        # IndexError when a node takes another status (modelled, Model/Complex.v full_check;
        # the docstring says return_full_data 'currently needs to be False'): mostly avoided
        case['rs'] = rs + [s for s in range(ns) if s not in rs]
    return case


def model_tokens(case):
    if case['mk'] == 'F':
        t = ['F', str(len(case['rows']))]
        for r in case['rows']:
            t += [str(r['watch']), C.qtok(r['thr']), C.qtok(r['base']), C.qtok(r['slope']), C.qtok(r['low']),
                  str(r['cwatch']), C.qtok(r['cthr']), str(r['ca']), str(r['cb'])]
        t += [str(case['src']), str(case['infl']), str(len(case['filt']))] + [str(x) for x in case['filt']]
        return ' '.join(t)
    t = ['T', str(case['k'])]
    for c in range(len(case['rt'])):
        t += [C.qtok(x) for x in case['rt'][c]] + [str(x) for x in case['ct'][c]]
        for l in case['it'][c]:
            t += [str(len(l))] + [str(x) for x in l]
    return ' '.join(t)


def model_line(case, mode):
    gc = case['gc']
    ic = ' '.join('0' if s is None else '1 %d' % s for s in case['ic'])
    return ' '.join(['CPX', gc.tokens(), model_tokens(case), str(len(case['rs']))] + [str(x) for x in case['rs']] +
                    [C.qtok(case['tmin']), R.opt_q(case['tmax']), '1' if case['full'] else '0', ic, str(FUEL), mode])


# ------------------------------------------------- the user's three functions ----
def label_of(case, code):
    lab = case['labels']
    return lab[code] if code < len(lab) else ('extra', code)


def user_functions(case):
    """(rate_function, transition_choice, get_influence_set) as a user would write them:
    closures over the case, signature (G, node, status, parameters)"""
    gc = case['gc']; code = {label_of(case, c): c for c in range(max(case['ns'], 4) + 2)}
    L = lambda c: label_of(case, c)
    if case['mk'] == 'F':
        rows = case['rows']; src = case['src']; ewl = gc.ewl; nwl = gc.nwl

        def count(G, u, status, watch):
            w = L(watch)
            if src == 0:
                srcs = G.predecessors(u) if G.is_directed() else G.neighbors(u)
                return sum((G.adj[v][u][ewl] if ewl else 1) for v in srcs if status[v] == w)
            return sum(1 for v in G.nodes() if status[v] == w)

        def rate(G, u, status, parameters):
            s = code[status[u]]
            if s >= len(rows): return 0
            r = rows[s]; c = count(G, u, status, r['watch'])
            m = G.nodes[u][nwl] if nwl else 1
            return m * ((float(r['base']) + float(r['slope']) * c) if float(r['thr']) <= c else float(r['low']))

        def choice(G, u, status, parameters):
            s = code[status[u]]
            if s >= len(rows): return status[u]
            r = rows[s]
            return L(r['ca']) if float(r['cthr']) <= count(G, u, status, r['cwatch']) else L(r['cb'])

        def infl(G, u, status, parameters):
            k = case['infl']
            if k == 0: return list(G.neighbors(u))
            if k == 1: return [v for v in G.neighbors(u) if code[status[v]] in case['filt']]
            if k == 2: return list(G.nodes())
            if k == 3: return list(G.neighbors(u)) + [u]
            return []
    else:
        k = case['k']; order = gc.order; im = gc.idmap
        cfg = lambda status: sum(code[status[x]] * k ** i for i, x in enumerate(order))
        rate = lambda G, u, status, parameters: float(case['rt'][cfg(status)][im[u]])
        choice = lambda G, u, status, parameters: L(case['ct'][cfg(status)][im[u]])
        infl = lambda G, u, status, parameters: [order[i] for i in case['it'][cfg(status)][im[u]]]
    form = case['infl_form']; istore = {}

    def infl_shaped(G, u, status, parameters):
        l = infl(G, u, status, parameters)
        if form in ('list', 'set'):
            # a user who precomputes the influence sets hands back the SAME stored container whenever the answer is the same:
            # an implementation that edits what it is given (adds the node itself, discards as it goes) corrupts the next answer
            key = (repr(u), tuple(repr(x) for x in l))
            if key not in istore: istore[key] = set(l) if form == 'set' else list(l)
            return istore[key]
        if form == 'tuple': return tuple(l)
        if form == 'iter': return (x for x in l)
        if form == 'dictkeys': return {x: 1 for x in l}.keys()
        return l
    return rate, choice, infl_shaped, code


def expected_parameters(case):
    return None if case['params_none'] else ('par', 1.5)


def logged(case, calls):
    rate, choice, infl, code = user_functions(case)
    gc = case['gc']; order = gc.order; im = gc.idmap
    par = () if case['params_none'] else expected_parameters(case)

    def wrap(kind, f):
        def g(G, u, status, *rest):
            try:
                snapshot = tuple(code.get(status[x], -1) for x in order)
            except Exception as e:
                snapshot = ('unreadable', type(e).__name__)
            calls.append((kind, im.get(u, -1), snapshot))
            if G is not gc.G: calls.append(('X', 'G is not the graph that was passed'))
            if len(rest) != 1 or rest[0] != par: calls.append(('X', 'parameters %r instead of %r' % (rest, par)))
            if not isinstance(status, dict) or set(status.keys()) != set(order): calls.append(('X', 'status is not a dict over the nodes of G'))
            return f(G, u, status, rest[0] if rest else None)
        return g
    return wrap('R', rate), wrap('C', choice), wrap('I', infl)


def make_ic(case):
    lab = lambda c: label_of(case, c)
    gc = case['gc']
    if case['ic_form'] == 'defaultdict':
        # the most frequent status is the default, the other nodes are listed
        cnt = defaultdict(int)
        for s in case['ic']: cnt[s] += 1
        dflt = max(cnt, key=lambda s: (cnt[s], -s))
        d = defaultdict(lambda: lab(dflt))
        for u, s in zip(gc.order, case['ic']):
            if s != dflt: d[u] = lab(s)
        return d
    d = {u: lab(s) for u, s in zip(gc.order, case['ic']) if s is not None}
    if len(gc.order) % 2 == 0 and None not in case['ic']:
        # an IC written for a larger population: entries for nodes that are not in G (ignored: only G's nodes are simulated and counted)
        for j_, s in enumerate(case['ic'][:2]):
            d[('not-in-G', j_)] = lab(s)
    return d


def call_impl(EoN, case, fns, full=None):
    gc = case['gc']
    rsl = [label_of(case, c) for c in case['rs']]
    kw = dict(tmin=float(case['tmin']), tmax=float('inf') if case['tmax'] is None else float(case['tmax']),
              return_full_data=case['full'] if full is None else full)
    if not case['params_none']: kw['parameters'] = expected_parameters(case)
    return EoN.Gillespie_complex_contagion(gc.G, fns[0], fns[1], fns[2], make_ic(case),
                                           tuple(rsl) if case['rs_form'] == 'tuple' else rsl, **kw)


def run_impl(EoN, sim, case, draws, full=None):
    gc = case['gc']
    s = R.Scripted(draws, gc.idmap)
    calls = []
    fns = logged(case, calls)
    st, val = R.run_impl(lambda: call_impl(EoN, case, fns, full), s, sim)
    out = {'status': st, 'log': s.log, 'used': s.i, 'calls': calls}
    if st == 'EXC': out['err'] = val
    if st == 'OK':
        isfull = case['full'] if full is None else full
        if isfull:
            inv = val
            code = {label_of(case, c): c for c in range(max(case['ns'], 4) + 2)}
            out['hist'], out['trans'] = R.canon_full(inv, gc, code)
            try:
                t, D = inv.summary()
                out['rows'] = R.canon_arrays([t] + [D[label_of(case, c)] for c in case['rs']])
            except Exception as e:
                out['rows'] = 'EXC ' + type(e).__name__
            out['inv'] = inv
        else:
            out['rows'] = R.canon_arrays(val)
    return out


# -------------------------------------------------------------- comparison ----
def parse_calls(m):
    res = []
    for tok in (m.get('extra') or {}).get('CALLS', []):
        kind, u, sn = tok.split(':')
        res.append((kind, int(u), tuple(int(x) for x in sn.split(',') if x != '')))
    return res


def canon_calls(calls):
    """the order in which the influence set is iterated is the user's container order (a
    set's is hash order): the rate calls that follow a get_influence_set call are sorted"""
    out = []; i = 0
    while i < len(calls):
        out.append(calls[i])
        if calls[i][0] == 'I':
            j = i + 1
            while j < len(calls) and calls[j][0] == 'R': j += 1
            out += sorted(calls[i + 1:j]); i = j
        else:
            i += 1
    return out


def compare_calls(impl_calls, model_calls, complete):
    a = canon_calls(impl_calls); b = canon_calls(model_calls)
    for x in a:
        if x[0] == 'X': return 'user function called with unexpected arguments: %s' % x[1]
    for k, (x, y) in enumerate(zip(a, b)):
        if x != y:
            return 'user-function call %d: implementation %r, model %r' % (k, x, y)
    if complete and len(a) != len(b):
        return 'number of user-function calls: implementation %d, model %d' % (len(a), len(b))
    return None


def compare(case, m, impl):
    """None when model and implementation agree on trace, outputs and callback arguments"""
    if m['status'] == 'DRIVERFAIL':
        return 'model driver failure: %r' % (m.get('raw'),)
    d = R.compare_trace(impl['log'], m['trace'])
    if d: return d
    if m['status'] == 'ERR':
        if m['err'] in ('OutOfDraws', 'OutOfFuel'):
            return None if impl['status'] in ('OUT', 'OK') else 'model %s, implementation raised %s' % (m['err'], impl.get('err'))
        if impl['status'] != 'EXC' or R.ERRMAP.get(impl['err'], impl['err']) != m['err']:
            return 'model raises %s, implementation %s %s' % (m['err'], impl['status'], impl.get('err', ''))
        return None
    if impl['status'] != 'OK':
        return 'model returns, implementation %s %s' % (impl['status'], impl.get('err', ''))
    d = compare_calls(impl['calls'], parse_calls(m), True)
    if d: return d
    if 'hist' in m:
        if 'hist' not in impl: return 'model has full data, implementation has not'
        return R.hist_equal(impl['hist'], m['hist'])
    if isinstance(impl['rows'], str):
        return 'implementation arrays: ' + impl['rows']
    return R.rows_equal(impl['rows'], m['rows'])


def case_json(case, draws=None):
    j = {k: case[k] for k in ('fam', 'mk', 'ns', 'labels', 'params_none', 'infl_form', 'ic', 'ic_form', 'rs', 'rs_form', 'full', 'covers')}
    j['labels'] = [repr(x) for x in case['labels']]
    j['graph'] = case['gc'].to_json()
    j['tmin'] = str(case['tmin']); j['tmax'] = None if case['tmax'] is None else str(case['tmax'])
    if case['mk'] == 'F':
        j['rows'] = [{k: (str(v) if isinstance(v, F) else v) for k, v in r.items()} for r in case['rows']]
        j.update(src=case['src'], infl=case['infl'], filt=case['filt'])
    else:
        j.update(k=case['k'], rt=[[str(x) for x in r] for r in case['rt']], ct=case['ct'], it=case['it'], progressive=case.get('progressive', False))
    if draws is not None: j['draws'] = [str(d) for d in draws]
    return j


def case_from_json(j):
    case = {k: j[k] for k in ('fam', 'mk', 'ns', 'params_none', 'infl_form', 'ic', 'ic_form', 'rs', 'rs_form', 'full', 'covers')}
    case['labels'] = [eval(x) for x in j['labels']]
    case['gc'] = R.GraphCase.from_json(j['graph'])
    case['tmin'] = F(j['tmin']); case['tmax'] = None if j['tmax'] is None else F(j['tmax'])
    if j['mk'] == 'F':
        case['rows'] = [{k: (F(v) if k in ('thr', 'base', 'slope', 'low', 'cthr') else v) for k, v in r.items()} for r in j['rows']]
        case.update(src=j['src'], infl=j['infl'], filt=j['filt'])
    else:
        case.update(k=j['k'], rt=[[F(x) for x in r] for r in j['rt']], ct=j['ct'], it=j['it'], progressive=j.get('progressive', False))
    return case


# ---------------------------------------------------------------- L0 oracle ----
def oracle_rates(case, impl, m=None):
    """C15, independent of the Coq model: replay the implementation's OWN trace.  In every
    state the run visits, the user's rate function is evaluated from scratch on the current
    statuses of ALL nodes; the rate handed to expovariate must be their sum; the candidates
    handed to random.choice must contain every node with a positive rate (and only nodes of
    G); an accepted node must have a positive rate and a rejected one rate zero; the node's
    new status must be the chooser's answer; the run must stop exactly when the sum is zero
    or t >= tmax; the rows must count the replayed statuses; and every user function must
    have been handed the statuses current at the moment of the call.
    Only judged inside the property's domain (an influence set that covers)."""
    bad = []
    if impl['status'] == 'OUT' or not case.get('covers', False) or None in case['ic']:
        return bad
    gc = case['gc']; G = gc.G; order = gc.order; im = gc.idmap
    rate, choice, infl, code = user_functions(case)
    par = () if case['params_none'] else expected_parameters(case)
    draws = [F(x) for x in (m['draws'] if m else [])]
    log = impl['log']
    lab = lambda c: label_of(case, c)
    st = {u: lab(s) for u, s in zip(order, case['ic'])}
    snap = lambda: tuple(code[st[x]] for x in order)
    rates = lambda: {u: F(rate(G, u, st, par)) for u in order}
    counts = lambda: [sum(1 for u in order if st[u] == lab(c)) for c in case['rs']]
    calls = [c for c in impl['calls'] if c[0] != 'X']
    for c in impl['calls']:
        if c[0] == 'X':
            bad.append(('callback-args', 'a user function was called with unexpected arguments: %s' % c[1])); return bad
    # initial calls: one rate evaluation per node on the initial statuses
    cpos = 0
    init = calls[:len(order)]
    if sorted(init) != sorted(('R', im[u], snap()) for u in order):
        bad.append(('callback-args/initial', 'the initial rates were not computed once per node on the initial statuses: %r' % (init[:4],))); return bad
    cpos = len(order)
    exp_rows = [(case['tmin'], counts())]
    t = case['tmin']; tmax = case['tmax']
    pos = 0; di = 0; steps = 0

    def nxt():
        nonlocal pos, di
        e = log[pos] if pos < len(log) else None
        if e is not None:
            pos += 1
            if not (e[0] == 'E' and e[1] == 0.0) and not (e[0] == 'P' and e[1] == []): di += 1
        return e
    finished = False
    while True:
        rt = rates()
        if any(r < 0 for r in rt.values()): return []          # outside the domain
        tot = sum(rt.values())
        if tot == 0:
            e = nxt()
            if e is not None:
                bad.append(('stop/all-rates-zero', 'after %d events every rate is zero but the run went on and asked the random source for %r' % (steps, e)))
            finished = True; break
        e = nxt()
        if e is None:
            if impl['status'] == 'OK':
                bad.append(('stop/stops-early', 'after %d events the run ended although the rates sum to %s and t = %s < tmax' % (steps, tot, t)))
            break
        if e[0] != 'E' or not C.close(e[1], float(tot)):
            bad.append(('state/total-rate', 'after %d events the waiting time was drawn with %r; the rates of the current statuses sum to %s (%s)' % (
                steps, e, tot, ', '.join('%r:%s' % (u, r) for u, r in rt.items() if r))))
            break
        if di > len(draws): break
        t = t + draws[di - 1]
        if tmax is not None and t == tmax: return bad            # a tie of a random draw with tmax: never judged
        if tmax is not None and t > tmax:
            e = nxt()
            if e is not None:
                bad.append(('stop/tmax', 'after %d events t = %s >= tmax = %s but the run went on with %r' % (steps, t, tmax, e)))
            finished = True; break
        # selection: rounds of (choice, accept test)
        chosen = None
        while True:
            e = nxt()
            if e is None:
                if impl['status'] == 'OK':
                    bad.append(('stop/stops-early', 'after %d events the run ended at t = %s < tmax although the rates sum to %s' % (steps, t, tot)))
                break
            if e[0] != 'P':
                bad.append(('state/choice', 'after %d events at t = %s < tmax with total rate %s: expected choose_random, got %r' % (steps, t, tot, e))); break
            cands = e[1]
            must = [(im[u],) for u in order if rt[u] > 0]
            if not (set(must) <= set(cands) <= set((i,) for i in range(len(order)))) or len(set(cands)) != len(cands):
                bad.append(('state/candidates', 'after %d events the candidates %r were offered; the nodes with a positive rate are %r' % (steps, cands, must))); break
            if di > len(draws) or int(draws[di - 1]) >= len(cands): break       # the script was not made for this state
            pick = order[sorted(cands)[int(draws[di - 1])][0]]
            e2 = nxt()
            if e2 is None: break
            if e2[0] != 'A':
                bad.append(('state/accept', 'expected the accept test of choose_random, got %r' % (e2,))); break
            nx_ = log[pos] if pos < len(log) else None
            rejected = nx_ is not None and nx_[0] == 'P'
            if nx_ is None and impl['status'] != 'OK': break
            if rejected and rt[pick] > 0:
                bad.append(('state/weight', 'after %d events node %r with rate %s was rejected by an accept test that accepts every positive weight: its stored weight is not its rate' % (steps, pick, rt[pick]))); break
            if not rejected:
                if rt[pick] == 0:
                    bad.append(('state/weight', 'after %d events node %r was selected although its rate on the current statuses is 0' % (steps, pick)))
                chosen = pick
                break
        if bad or chosen is None:
            break
        before = snap()
        new = choice(G, chosen, st, par)
        st[chosen] = new
        after = snap()
        steps += 1
        exp_rows.append((t, counts()))
        # user-function calls of this event
        seg = []
        while cpos < len(calls) and not (seg and calls[cpos][0] == 'C'):
            seg.append(calls[cpos]); cpos += 1
        if seg:
            need = set(im[v] for v in infl(G, chosen, st, par)) | {im[chosen]}
            ok = (seg[0] == ('C', im[chosen], before) and all(c[2] == after for c in seg[1:]) and
                  ('I', im[chosen], after) in seg and need <= set(c[1] for c in seg[1:] if c[0] == 'R'))
            if not ok:
                bad.append(('callback-args', 'event %d (node %r, statuses %r -> %r): the user functions were called as %r' % (steps, chosen, before, after, seg[:6])))
                break
    if not bad and impl['status'] == 'OK' and finished and not isinstance(impl.get('rows'), str) and not case['full']:
        d = R.rows_equal(impl['rows'], exp_rows)
        if d: bad.append(('rows', 'returned arrays do not count the replayed statuses: ' + d))
    elif not bad and impl['status'] == 'EXC' and not (case['full'] and not set(range(case['ns'])) <= set(case['rs'])):
        bad.append(('crash', 'raised %s on a valid input' % impl['err']))
    return bad


# ------------------------------------------------- exhaustive small graphs ----
def small_cases(rng, nmax, directed=False, kinds=('threshold', 'sis', 'sir', 'cascade', 'longrange', 'table')):
    """every labelled graph on <= nmax nodes x every initial S/I assignment x the families"""
    cases = []
    for n in range(1, nmax + 1):
        for edges in R.all_graphs(n, directed):
            for kind in kinds:
                for ic in itertools.product([0, 1], repeat=n):
                    if kind == 'threshold' and sum(ic) == 0: continue
                    labels = R.make_labels(rng, n)
                    gc = R.graph_from_edges(n, edges, labels, directed)
                    case = finish_case(rng, gc, kind, ic=list(ic), tmax=None, full=False)
                    case['tmax'] = case['tmin'] + F(9, 4) - F(1, 64)
                    cases.append(case)
    return cases
