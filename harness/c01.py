"""C01: Gillespie_SIR and fast_SIR sample the exact network SIR Markov chain.
Theorems: coq/Props/C01.v.  Tie: extracted model (Model/Gillespie.v) vs the
implementation on model-chosen draw scripts (trace + outputs), exhaustive on small
graphs.  Failing-input search: an L0 oracle replays the implementation's own trace
against the chain's generator (rates, branch odds, candidate sets)."""
from . import common as C
from . import gil_lib as GL
from . import sim_check as SC

CLAIM_MORE = "ALSO (coq/Props/C01x.v): with tmax = inf the set fast_nonMarkov_SIR / fast_SIR ever infects is the out-component of the initial nodes in {u->v : delay <= duration}; the single-edge law tau/(tau+gamma) for both the percolation race and Gillespie's first jump, symbolically; on six small graphs the jump-chain final-size law equals the race-percolation final-size law as exact rationals (finite evaluations, labelled as such)."

CLAIM = dict(
    text="Machine-checked theorems (coq/Props/C01.v, closed under the global context) over an executable model of Gillespie_SIR written as the code is "
         "(two _ListDict_ candidate structures, weighted and unweighted paths, both return modes): the initial condition establishes and EVERY event "
         "preserves the agreement 'infecteds = I nodes with recovery weights, IS_links = ordered I-S edges with transmission weights' (so it holds in "
         "every reachable state of every graph), the waiting time is drawn with the chain's total rate, the jump distribution is exactly "
         "gamma*w_u/total for each recovery and tau*w_uv/total for each transmission with total mass 1 (nothing else happens), no run crashes. "
         "Weighted selection inside a candidate set is C16's rejection-loop law. Tie: the extracted model chooses draw scripts (every path on all graphs "
         "<=3/4 nodes, random walks on larger ones) and the implementation must make the same calls to random with the same arguments and return the same arrays/full data.",
    design='DESIGN.md section 4, C01',
    technique='Coq proof (bookkeeping invariant by induction over events, closed-form jump law) + extracted-model/implementation trace correspondence',
    note="fast_SIR half: the event-driven model and its theorems are delivered by Props/C11.v (first-passage percolation for every delay assignment); "
         "the step from independent exponential clocks to the CTMC law (competing exponentials, Kiss-Miller-Simon 6.3) is cited, not formalised. "
         "Assumed: random.random uniform on [0,1), random.choice uniform, random.expovariate(r) exponential with rate r, draws independent (DESIGN 2.3). "
         "The master-equation clause follows from the jump chain + holding rates by the standard construction of a CTMC (cited).")


def run(run, tier):
    EoN = C.import_eon()
    import EoN.simulation as sim
    props = C.check_props('C01')
    C.extra_props(run, 'C01', props, ['C01x'])
    ok, log = C.build_driver(GL.COMP)
    if not ok:
        run.violation('C01/build', 'extracted model does not build: ' + log[-500:], {'log': log[-3000:]}, no_input=True)
        C.proof_coverage(run, props, 1, 0, 'build failed', [log[-300:]]); return
    res = GL.standard_run(run, EoN, sim, 'SIR', tier)
    SC.report(run, 'C01', 'Gillespie_SIR', res, 'Model/Gillespie.v', 'Props/C01.v')
    extra = {'distribution': res.stats, 'mismatches': len(res.mism), 'oracle_failures': len(res.oracle_bad)}
    # fast_SIR half: the event-driven model (Model/EventSIR.v, theorems Props/C11.v) under the scripted source,
    # every expovariate rate / binomial(n,p) / sample(pop,k) compared, Dijkstra oracle on the implementation's own draws
    try:
        from . import esir_lib as EL
        okf, logf = C.build_driver(EL.COMP)
        if okf:
            resf = SC.Result()
            n = 1200 if tier == 'quick' else 20000
            casesf = [EL.gen_case(run.rng, kind='FSIR', nmax=8 if i % 3 else 12, malformed=(i % 40 == 0)) for i in range(n)]
            SC.run_cases(EL, EoN, sim, casesf, ['W ' + GL.R.ent_tokens(run.rng) for _ in casesf], EL.oracle,
                         lambda case, m, impl: m['status'] == 'OK' and len(m.get('rows', [])) >= 3, resf, 'fast_SIR')
            SC.report(run, 'C01', 'fast_SIR', resf, 'Model/EventSIR.v', 'Props/C11.v')
            extra['fast_SIR'] = {'cases': resf.n, 'mismatches': len(resf.mism), 'oracle_failures': len(resf.oracle_bad), 'distribution': resf.stats,
                                 'theorems': 'Props/C11.v: fast_nonmarkov_is_esir_det, esir_first_passage (first-passage percolation for the delays it drew); CTMC lift cited'}
            res.n += resf.n; res.nontrivial += resf.nontrivial; res.distinct |= resf.distinct
        else:
            run.violation('C01/fast_SIR/build', 'extracted event-driven model does not build: ' + logf[-400:], {'log': logf[-2000:]}, no_input=True)
    except ImportError:
        extra['fast_SIR'] = 'event-driven component not built yet'
    # the jump law inside a weighted candidate set is C16's: a change to _ListDict_ that biases the choice is a failing input here too
    from . import c16 as _c16
    import EoN.simulation as _sim
    _c16.selection_law_part(run, 'C01', _sim, run.rng, 300 if tier == 'quick' else 4000)
    if not props['ok']:
        run.violation('C01/proof', 'Props/C01.v no longer checks: %s' % props['log'][-400:], {'broken': 'coq/Props/C01.v', 'log': props['log']}, no_input=True)
    C.proof_coverage(run, props, res.n, min(len(res.distinct), res.nontrivial),
                     'draw scripts chosen by the extracted model: every path (both sides of each recovery/transmission draw at p -/+ 2^-30, every candidate) on every '
                     'labelled graph <=3 (quick) / <=4 (thorough) nodes x {unweighted, edge, node, both weights} x initial sets, plus random walks on random graphs <=12 '
                     'nodes with permuted-int/str/tuple labels, dyadic rates and weights incl. 0, tmin != 0, finite/infinite tmax, initial recovered nodes, rho, both return '
                     'modes (4% malformed: rho together with initial_infecteds). Non-trivial = at least 2 events; distinct = distinct (case, script).',
                     res.samples, extra)
    run.assumptions += ['random.random uniform on [0,1), random.choice uniform, expovariate exponential, draws independent (DESIGN 2.3)']


def replay(rp):
    if rp['replay'].get('listdict'):
        from . import c16
        return c16.replay(rp)
    return GL.replay(rp)
