"""Shared plumbing of the checks: build of the Coq development and the extracted
driver, compilation of Props/Cxx.v (theorem list + Print Assumptions), running
the extracted model, evidence, replays, known findings, VIOLATION lines."""
import os, sys, json, re, subprocess, time, hashlib, random

VERIF = os.path.dirname(os.path.dirname(os.path.abspath(__file__)))
REPO = os.environ.get('EON_REPO', '/repo')
COQ = os.path.join(VERIF, 'coq')
OCAML = os.path.join(VERIF, 'ocaml')
DRIVER = os.path.join(OCAML, 'driver')
EVID = os.path.join(VERIF, 'evidence')
REPLAYS = os.path.join(VERIF, 'replays')
KNOWN = os.path.join(VERIF, 'known_findings.json')
NPROC = int(os.environ.get('VERIF_JOBS', '8'))

os.environ.setdefault('PYTHONHASHSEED', '0')
os.environ['EON_VERIF'] = '1'


def import_eon():
    """Import EoN from the working tree of /repo, never from an installed copy."""
    if sys.path[0] != REPO:
        sys.path.insert(0, REPO)
    import warnings
    warnings.filterwarnings('ignore')
    import EoN
    assert os.path.abspath(EoN.__file__).startswith(os.path.abspath(REPO) + os.sep), \
        'EoN imported from %s, not from %s' % (EoN.__file__, REPO)
    if os.environ.get('EON_ARG_AUDIT') and not getattr(EoN, '_arg_audit_on', False):
        _arg_audit(EoN)
    return EoN


def _arg_audit(EoN):
    """tools/argaudit.sh: record, for every public function of EoN, which parameters the CHECKS pass (by type and
    truthiness); off unless EON_ARG_AUDIT=<file> is set.  Wraps module attributes only; calls made from inside the
    library are not counted."""
    import atexit, functools, inspect, importlib
    EoN._arg_audit_on = True
    rec = {}
    libdir = os.path.dirname(os.path.abspath(EoN.__file__))
    def wrap(mod, name, f):
        try: sig = inspect.signature(f)
        except Exception: return
        @functools.wraps(f)
        def g(*a, **k):
            try:
                if not os.path.abspath(sys._getframe(1).f_code.co_filename).startswith(libdir):
                    d = rec.setdefault(name, {'__params__': list(sig.parameters)})
                    for pn, v in sig.bind_partial(*a, **k).arguments.items():
                        t = type(v).__name__
                        try: falsy = (not callable(v)) and (not hasattr(v, 'shape')) and (not hasattr(v, 'nodes')) and (not v)
                        except Exception: falsy = False
                        tag = t + (':falsy' if falsy and v is not None else '')
                        dd = d.setdefault(pn, {}); dd[tag] = dd.get(tag, 0) + 1
            except Exception:
                pass
            return f(*a, **k)
        setattr(mod, name, g)
    mods = [EoN] + [importlib.import_module('EoN.' + m) for m in ('simulation', 'analytic', 'auxiliary')]
    seen = {}
    for mod in mods:
        for name, f in list(vars(mod).items()):
            if inspect.isfunction(f) and getattr(f, '__module__', '').startswith('EoN') and not name.startswith('__'):
                if id(f) not in seen:
                    wrap(mod, name, f); seen[id(f)] = getattr(mod, name)
                else:
                    setattr(mod, name, seen[id(f)])
    def dump():
        with open(os.environ['EON_ARG_AUDIT'], 'a') as fh:
            fh.write(json.dumps(rec) + '\n')
    atexit.register(dump)


def sh(cmd, cwd=None, timeout=1800, env=None):
    t0 = time.time()
    try:
        p = subprocess.run(cmd, cwd=cwd, shell=isinstance(cmd, str), capture_output=True,
                           text=True, timeout=timeout, env=env)
        return p.returncode, p.stdout + p.stderr, time.time() - t0
    except subprocess.TimeoutExpired as e:
        return 124, 'TIMEOUT after %ss: %s' % (timeout, cmd), time.time() - t0


# ---------------------------------------------------------------- build ----
GEN = os.path.join(OCAML, 'gen')
LOCK = os.path.join(COQ, '.build.lock')


def ensure_makefile():
    """_CoqProject lists every .v file under coq/ (sorted; WIP files that do not
    compile are harmless because checks build named targets only)."""
    vs = []
    for root, dirs, files in os.walk(COQ):
        dirs.sort()
        for f in sorted(files):
            if f.endswith('.v') and not f.startswith('.'):
                vs.append(os.path.relpath(os.path.join(root, f), COQ))
    body = '-Q . EoNV\n-arg -w -arg -notation-overridden,-deprecated-hint-without-locality,-deprecated-instance-without-locality,-ambiguous-paths\n' + '\n'.join(sorted(vs)) + '\n'
    cp = os.path.join(COQ, '_CoqProject')
    old = open(cp).read() if os.path.exists(cp) else ''
    mk = os.path.join(COQ, 'Makefile')
    if old != body or not os.path.exists(mk):
        open(cp, 'w').write(body)
        rc, out, _ = sh('coq_makefile -f _CoqProject -o Makefile', cwd=COQ, timeout=120)
        if rc != 0:
            raise RuntimeError('coq_makefile failed: ' + out)


def coq_make(targets=None, timeout=3000, keep_going=False):
    """Full .vo build (never -vos) of the given targets (default: everything),
    serialised by a file lock so that concurrent checks do not race on .vo files."""
    os.makedirs(GEN, exist_ok=True)
    import fcntl
    with open(LOCK, 'w') as lk:
        fcntl.flock(lk, fcntl.LOCK_EX)
        ensure_makefile()
        cmd = 'timeout %d make %s -j%d %s' % (timeout, '-k' if keep_going else '', NPROC, ' '.join(targets or []))
        rc, out, dt = sh(cmd, cwd=COQ, timeout=timeout + 30)
    return rc == 0, out, dt


def xfile(comp):
    return 'Extract/X%s.v' % (comp[0].upper() + comp[1:])


def driver_path(comp):
    return os.path.join(GEN, '%s_driver' % comp)


def build_driver(comp='base', force=False):
    """Re-extract component `comp` (coq/Extract/X<Comp>.vo is a make target whose
    side effect is ocaml/gen/<comp>_model.ml), paste the glue named in the header
    of ocaml/<comp>_driver.ml and compile when anything is newer."""
    xv = xfile(comp)
    ok, out, dt = coq_make([xv + 'o'])
    if not ok:
        return False, out
    ml = os.path.join(GEN, '%s_model.ml' % comp)
    if not os.path.exists(ml):
        sh('rm -f %so %s' % (xv, xv.replace('.v', '.glob')), cwd=COQ)
        ok, out, dt = coq_make([xv + 'o'])
        if not ok or not os.path.exists(ml):
            return False, out + '\nextraction produced no ' + ml
    drv = os.path.join(OCAML, '%s_driver.ml' % comp)
    head = open(drv).readline()
    m = re.search(r'GLUE:\s*([a-z ]+)', head)
    parts = (m.group(1).split() if m else ['base', 'err', 'main'])
    gfiles = [os.path.join(OCAML, 'glue.ml' if g == 'base' else 'glue_%s.ml' % g) for g in parts]
    exe = driver_path(comp)
    srcs = [ml, drv] + gfiles
    if force or not os.path.exists(exe) or any(os.path.getmtime(x) > os.path.getmtime(exe) for x in srcs):
        main_g = [g for g in gfiles if g.endswith('glue_main.ml')]
        pre = [g for g in gfiles if not g.endswith('glue_main.ml')]
        txt = 'module ZZ = Z\nmodule QQ = Q\nopen %s_model\n' % (comp[0].upper() + comp[1:])
        for g in pre + main_g:
            txt += open(g).read() + '\n'
        txt += open(drv).read()
        mainml = os.path.join(GEN, '%s_main.ml' % comp)
        open(mainml, 'w').write(txt)
        c = 'timeout 900 ocamlfind ocamlopt -package zarith -linkpkg -w -a %s_model.mli %s_model.ml %s_main.ml -o %s_driver' % (comp, comp, comp, comp)
        rc, o, _ = sh(c, cwd=GEN, timeout=1000)
        if rc != 0:
            return False, o
    return True, ''


def run_model(lines, comp='base', timeout=1800, shards=None):
    """Feed case lines to the extracted model; returns one output line per case."""
    if not lines:
        return []
    exe = driver_path(comp)
    shards = shards or min(NPROC, max(1, len(lines) // 100))
    chunks = [lines[i::shards] for i in range(shards)]
    procs = []
    for ch in chunks:
        p = subprocess.Popen(['bash', '-c', 'ulimit -s unlimited 2>/dev/null; exec %s' % exe],
                             stdin=subprocess.PIPE, stdout=subprocess.PIPE, stderr=subprocess.PIPE, text=True)
        procs.append((p, ch))
    import threading
    results = [None] * shards

    def work(i, p, ch):
        try:
            o, e = p.communicate('\n'.join(ch) + '\n', timeout=timeout)
        except subprocess.TimeoutExpired:
            p.kill(); o = ''
        results[i] = o.split('\n')[:len(ch)] if o else []
    ths = [threading.Thread(target=work, args=(i, p, ch)) for i, (p, ch) in enumerate(procs)]
    [t.start() for t in ths]; [t.join() for t in ths]
    outs = [None] * len(lines)
    for i in range(shards):
        r = results[i] or []
        for j, idx in enumerate(range(i, len(lines), shards)):
            outs[idx] = r[j] if j < len(r) else 'DRIVERFAIL no output'
    return outs


def components():
    return sorted(f[:-len('_driver.ml')] for f in os.listdir(OCAML) if f.endswith('_driver.ml'))


def claimed():
    try:
        return [c['property_id'] for c in json.load(open(os.path.join(VERIF, 'MANIFEST.json')))['checks']]
    except Exception:
        return []


def regen_all():
    """Regenerate every translator output (coq/Gen/*.v) from the working tree of REPO: the generated
    theories are part of the development and must describe what the source says NOW."""
    py = '/venv/bin/python'
    T = os.path.join(VERIF, 'translate'); G = os.path.join(COQ, 'Gen')
    os.makedirs(G, exist_ok=True)
    jobs = [('effects2v', '%s %s --repo %s -o %s --json %s' % (py, os.path.join(T, 'effects2v.py'), REPO, os.path.join(G, 'Effects.v'), os.path.join(G, 'effects_table.json'))),
            ('hashiter2v', '%s %s --repo %s -o %s' % (py, os.path.join(T, 'hashiter2v.py'), REPO, os.path.join(G, 'HashIter.v'))),
            ('rhs2v', '%s %s --repo %s' % (py, os.path.join(T, 'rhs2v.py'), REPO)),
            ('rhs2d2v', '%s %s --repo %s' % (py, os.path.join(T, 'rhs2d2v.py'), REPO))]
    for name, cmd in jobs:
        if not os.path.exists(os.path.join(T, name + '.py')):
            continue
        rc, out, dt = sh('timeout 300 ' + cmd, timeout=330, env=dict(os.environ, EON_REPO=REPO))
        print('translator %s: %s (%.0fs) %s' % (name, 'ok' if rc == 0 else 'REFUSED rc=%d' % rc, dt, out.strip()[-200:] if rc else ''))
    try:
        from . import calls_lib
        r = calls_lib.run_translator()
        print('translator calls2v:', str(r)[:200])
    except Exception as e:
        print('translator calls2v: %s' % e)


def setup():
    """MANIFEST.setup_cmd: build the whole Coq development (keep going over
    work-in-progress files that no claimed check uses), every extracted driver,
    and insist that the theorem file of every claimed property was built."""
    regen_all()
    ok, out, dt = coq_make(keep_going=True, timeout=5400)
    print(out[-3000:])
    print('coq build: %s in %.0fs' % ('ok' if ok else 'some files failed', dt))
    bad = []
    for pid in claimed():
        if not os.path.exists(os.path.join(COQ, 'Props', pid + '.vo')):
            bad.append('Props/%s.vo missing' % pid)
    for comp in components():
        ok2, o = build_driver(comp, force=True)
        if not ok2:
            print(o[-2000:]); bad.append('driver %s failed' % comp)
    print('SETUP %s' % ('ok' if not bad else 'FAILED: ' + '; '.join(bad)))
    return 0 if not bad else 1


# ------------------------------------------------------------- theorems ----
STDLIB_AXIOMS_OK = (
    'ClassicalDedekindReals.sig_not_dec', 'ClassicalDedekindReals.sig_forall_dec',
    'FunctionalExtensionality.functional_extensionality_dep', 'Classical_Prop.classic',
    'ProofIrrelevance.proof_irrelevance', 'Eqdep.Eq_rect_eq.eq_rect_eq', 'JMeq.JMeq_eq',
    'ClassicalEpsilon.constructive_indefinite_description', 'PropExtensionality.propositional_extensionality',
)

FORBIDDEN = re.compile(r'\b(Admitted|admit|Axiom|Axioms|Parameter|Parameters|Conjecture|Hypothesis|Variable)\b|Unset\s+Guard|bypass_check|type-in-type|impredicative-set|Admit Obligations|Unset\s+Positivity|Unset\s+Universe')


def forbidden_scan():
    """Source scan of the whole development for declared axioms / admitted proofs /
    disabled kernel checks.  Variable/Hypothesis are allowed only inside sections."""
    bad = []
    for root, _, files in os.walk(COQ):
        for f in files:
            if not f.endswith('.v'):
                continue
            path = os.path.join(root, f)
            depth = 0
            txt = re.sub(r'\(\*.*?\*\)', '', open(path).read(), flags=re.S)
            for ln, line in enumerate(txt.split('\n'), 1):
                if re.match(r'\s*Section\b', line): depth += 1
                if re.match(r'\s*End\b', line) and depth > 0: depth -= 1
                m = FORBIDDEN.search(line)
                if m:
                    w = m.group(0)
                    if w in ('Hypothesis', 'Variable') and depth > 0:
                        continue
                    if w == 'admit' and 'admit' not in re.findall(r'\badmit\b', line):
                        continue
                    bad.append('%s:%d: %s' % (os.path.relpath(path, COQ), ln, line.strip()))
    return bad


def check_props(pid, extra_targets=()):
    """Build the cone of Props/<pid>.v, then recompile Props/<pid>.v itself so that
    the theorem list and the Print Assumptions output are fresh.  Returns dict."""
    vfile = 'Props/%s.v' % pid
    res = {'file': vfile, 'ok': False, 'theorems': [], 'axioms': {}, 'log': '', 'failed_at': None}
    ok, out, dt = coq_make(['Props/%s.vo' % pid] + list(extra_targets))
    res['make_s'] = round(dt, 1)
    if not ok:
        res['log'] = out[-4000:]
        m = re.findall(r'File "\./([^"]+)", line (\d+)', out)
        res['failed_at'] = m[-1] if m else None
        return res
    rc, out, dt = sh('timeout 900 coqc -Q . EoNV %s' % vfile, cwd=COQ, timeout=930)
    res['coqc_s'] = round(dt, 1)
    if rc != 0:
        res['log'] = out[-4000:]
        m = re.findall(r'File "\./([^"]+)", line (\d+)', out)
        res['failed_at'] = m[-1] if m else None
        return res
    src = re.sub(r'\(\*.*?\*\)', '', open(os.path.join(COQ, vfile)).read(), flags=re.S)
    thms = re.findall(r'^\s*(?:Theorem|Example|Lemma|Corollary)\s+([A-Za-z0-9_\']+)', src, flags=re.M)
    res['theorems'] = thms
    # Print Assumptions blocks appear in order of the commands in the file
    blocks = re.split(r'(?=Closed under the global context|Axioms:)', out)
    pa = re.findall(r'Print Assumptions\s+([A-Za-z0-9_\']+)', src)
    blocks = [b for b in blocks if b.startswith('Closed under') or b.startswith('Axioms:')]
    axioms = {}
    for name, b in zip(pa, blocks):
        if b.startswith('Closed'):
            axioms[name] = []
        else:
            axioms[name] = sorted(set(re.findall(r'^([A-Za-z0-9_\.\']+)\s*:', b, flags=re.M)))
    res['axioms'] = axioms
    res['print_assumptions_missing'] = [t for t in thms if t not in axioms]
    alien = sorted({a for l in axioms.values() for a in l if a not in STDLIB_AXIOMS_OK})
    res['alien_axioms'] = alien
    res['ok'] = (len(blocks) == len(pa)) and not alien
    if not res['ok']:
        res['log'] = 'axioms outside the standard library list: %s' % alien
    return res


# ------------------------------------------------------------- evidence ----
def known_findings():
    try:
        return json.load(open(KNOWN))
    except FileNotFoundError:
        return {'findings': [], 'fixed': []}


class Run:
    """One check run for one property: collects violations, coverage, timing."""
    def __init__(self, pid, tier, seed):
        self.pid, self.tier, self.seed = pid, tier, seed
        self.t0 = time.time()
        self.violations = []          # (key, description, replay_obj, no_input)
        self.coverage = {}
        self.assumptions = []
        self.known_hits = []
        self.rng = random.Random((seed, pid).__repr__())

    def violation(self, key, what, replay, no_input=False):
        """key: stable identifier of the failing site/input shape, used for the
        known-findings match (entry point + input shape)."""
        kf = known_findings()
        for f in kf.get('findings', []):
            if f['property'] == self.pid and f['key'] == key:
                if key not in [k for k, _ in self.known_hits]:
                    self.known_hits.append((key, f.get('what', what)))
                return
        self.violations.append((key, what, replay, no_input))

    def finish(self, level='proof'):
        os.makedirs(EVID, exist_ok=True); os.makedirs(REPLAYS, exist_ok=True)
        for key, what in self.known_hits:
            print('KNOWN-FINDING: property=%s %s' % (self.pid, what))
        seen = set(); lines = []
        for key, what, replay, no_input in self.violations:
            if key in seen:
                continue
            seen.add(key)
            h = hashlib.sha1(key.encode()).hexdigest()[:10]
            path = os.path.join(REPLAYS, '%s_%s.json' % (self.pid, h))
            json.dump({'property': self.pid, 'key': key, 'what': what, 'tier': self.tier, 'seed': self.seed,
                       'no_failing_input_found': bool(no_input), 'replay': replay}, open(path, 'w'), indent=1, default=str)
            lines.append('VIOLATION property=%s replay=%s%s' % (self.pid, path, ' no-failing-input-found' if no_input else ''))
            print('  what: %s' % what)
        ev = {'property_id': self.pid, 'tier': self.tier, 'seed': int(self.seed), 'level': level,
              'coverage': self.coverage, 'assumptions': self.assumptions,
              'wall_s': round(time.time() - self.t0, 2), 'violations': len(seen),
              'known_findings_hit': [k for k, _ in self.known_hits]}
        json.dump(ev, open(os.path.join(EVID, '%s.json' % self.pid), 'w'), indent=1, default=str)
        for l in lines:
            print(l)
        sys.stdout.flush()
        return 1 if lines else 0


TRUSTED_BASE_COMMON = [
    'Coq 8.16.1 kernel (coqc; vm_compute used, native_compute not used); coqchk -o re-check of every Props file run separately (tools/coqchk_all.sh, report in coqchk_report.txt: no axioms)',
    'extraction: ExtrOcamlBasic only (Extract Inductive bool, option, unit, list, prod, sumbool, sumor -> OCaml); nat/positive/N/Z/Q stay Coq datatypes; OCaml 4.13 + zarith used only for parsing/printing numbers in ocaml/driver.ml',
    'harness (Python): input generators, scripted random source, label->N mapping, canonicalisation and comparison',
    'Python/numpy/networkx semantics of the constructs the hand-written model mirrors (modelled, tied by the correspondence check, not verified)',
    'exact rational arithmetic in the theorems; IEEE-754 rounding of the implementation is bounded only empirically (dyadic inputs, tolerance 1e-9)',
]


def proof_coverage(run, props, n_eval, n_distinct, rule, samples, extra=None):
    thms = props.get('theorems', [])
    axs = sorted({a for l in props.get('axioms', {}).values() for a in l})
    run.coverage.update({
        'obligations': len(thms),
        'discharged': len(thms) if props.get('ok') else 0,
        'checker_cmd': 'make -C coq Props/%s.vo && coqc -Q coq EoNV coq/Props/%s.v' % (run.pid, run.pid),
        'trusted_base': TRUSTED_BASE_COMMON + ['axioms reported by Print Assumptions: %s' % (', '.join(axs) if axs else 'none (closed under the global context)')],
        'theorems': thms,
        'print_assumptions': props.get('axioms', {}),
        'evaluations': int(n_eval), 'distinct_nontrivial': int(n_distinct), 'rule': rule,
        'samples': samples[:5],
    })
    if extra:
        run.coverage.update(extra)


def load_corpus(pid):
    """minimised past failures, run first (committed under /verif/corpus)"""
    p = os.path.join(VERIF, 'corpus', pid + '.json')
    try:
        return json.load(open(p))
    except FileNotFoundError:
        return []


def frac(x):
    from fractions import Fraction
    return Fraction(x)


def qtok(x):
    from fractions import Fraction
    f = Fraction(x)
    return '%d %d' % (f.numerator, f.denominator)


def close(a, b, tol=1e-9):
    if a == b:
        return True
    try:
        return abs(a - b) <= tol * max(1.0, abs(a), abs(b))
    except Exception:
        return False


def extra_props(run, pid, props, names):
    """further theorem files that belong to property pid (e.g. Props/C04esis.v): rebuilt and re-checked on every
    run; their theorems join the obligations of pid; a file that no longer checks is a violation without failing input"""
    for name in names:
        xp = check_props(name)
        props['theorems'] = list(props['theorems']) + list(xp['theorems'])
        props['axioms'] = dict(props['axioms'], **xp['axioms'])
        if not xp['ok']:
            props['ok'] = False
            props['log'] = (props.get('log') or '') + ' | ' + xp['log'][-400:]
            run.violation('%s/proof/%s' % (pid, name), 'Props/%s.v no longer checks: %s' % (name, xp['log'][-400:]),
                          {'broken': 'coq/Props/%s.v' % name, 'log': xp['log']}, no_input=True)
