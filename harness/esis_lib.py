"""fast_SIS / fast_nonMarkov_SIS (component `esis`, coq/Model/EventSIS.v): case generation,
model lines for the driver, running the implementation on a draw script / on deterministic
rule tables, comparison (trace + outputs) and two oracles that are independent of the Coq
model: `ref_sis` (plain agenda semantics of C13) and `oracle_clock` (trace oracle for
fast_SIS: generator-enabledness of every event, rate of every clock, no skipped attempt)."""
import heapq, itertools, math
from fractions import Fraction as F
from . import common as C
from . import simrun as R

COMP = 'esis'
CODE = {'S': 0, 'I': 1}
FUEL = 700
KINDS = ('fast_SIS', 'fast_nonMarkov_SIS')


# ------------------------------------------------------------------ cases ----
def _odd(rng, lo, hi, bits):
    """a dyadic with `bits` fractional bits and odd numerator in (lo, hi)"""
    den = 1 << bits
    a = int(lo * den) + 1; b = int(hi * den) - 1
    x = rng.randint(a, b) | 1
    return F(x, den)


def gen_tables(rng, gc, nord=3, bits=12, maxlist=3, scale=1):
    """durations and ascending delay lists per (node, infection ordinal); distinct dyadic values"""
    used = set()
    def fresh(lo, hi):
        for _ in range(50):
            x = _odd(rng, lo, hi, bits) * scale
            if x not in used:
                used.add(x); return x
        return x
    durs = {}; dels = {}
    for u in gc.order:
        durs[u] = [fresh(F(1, 8), F(2)) for _ in range(rng.randint(1, nord))]
        for v in gc.G.neighbors(u):
            ls = []
            for _ in range(rng.randint(1, nord)):
                k = rng.choice([0, 1, 1, 2, 2, maxlist])
                ls.append(sorted(fresh(F(1, 16), F(5, 2)) for _ in range(k)))
            dels[(u, v)] = ls
    return durs, dels


def gen_case(rng, kind='fast_SIS', nmax=7, malformed=False):
    if kind == 'fast_SIS':
        ewl = rng.choice([None, None, 'tw']); nwl = rng.choice([None, None, 'rw'])
    else:
        ewl = nwl = None
    gc = R.gen_graph(rng, nmax=nmax, ewl=ewl, nwl=nwl)
    n = len(gc.order)
    tmin = F(rng.choice([0, 0, 5, -3]), rng.choice([1, 2]))
    case = {'kind': kind, 'gc': gc, 'full': rng.random() < 0.5, 'tmin': tmin, 'rho': None, 'i0_form': 'list',
            'tmax': tmin + F(rng.randint(1, 12), 4) if kind == 'fast_SIS' else tmin + F(rng.randint(2, 24), 4)}
    r = rng.random()
    if malformed and r < 0.5:
        case['i0'] = [gc.order[0]]; case['rho'] = F(1, 4)            # both given: EoNError
    elif r < 0.1:
        case['i0'] = None; case['rho'] = rng.choice([None, F(1, 4), F(1, 2), F(3, 8), F(1)])
    else:
        k = rng.randint(1, min(3, n)) if rng.random() < 0.95 else 0
        sel = rng.sample(gc.order, k)
        case['i0'] = sel
        case['i0_form'] = rng.choice(['list', 'tuple', 'set', 'single'] if k == 1 else ['list', 'tuple', 'set', 'dictkeys'])
        if case['i0_form'] == 'set':
            case['i0_set'] = set(sel); case['i0'] = list(case['i0_set'])   # the iteration order the code will see
    if kind == 'fast_SIS':
        case['tau'] = R.dyadic(rng); case['gamma'] = R.dyadic(rng)
    else:
        case['durs'], case['dels'] = gen_tables(rng, gc)
        case['api'] = rng.choice(['separate', 'separate', 'joint'])
    return case


def table_tokens(case):
    gc = case['gc']; t = []
    for u in gc.order:
        d = case['durs'][u]; t.append('%d %s' % (len(d), R.qtoks(d)))
    for u in gc.order:
        for v in gc.G.neighbors(u):
            ls = case['dels'][(u, v)]
            t.append(str(len(ls)))
            for l in ls: t.append('%d %s' % (len(l), R.qtoks(l)))
    return ' '.join(x for x in t if x != '')


def _nl(case, l):
    im = case['gc'].idmap
    return '0' if l is None else '1 %d %s' % (len(l), ' '.join(str(im[u]) for u in l))


def model_line(case, mode):
    gc = case['gc']
    common = [_nl(case, case['i0']), R.opt_q(case['rho']), C.qtok(case['tmin']), '1' if case['full'] else '0', str(FUEL)]
    if case['kind'] == 'fast_SIS':
        return ' '.join(['FS', gc.tokens(), C.qtok(case['tau']), C.qtok(case['gamma']), R.opt_q(case['tmax'])] + common + [mode])
    return ' '.join(['NM', gc.tokens(), R.opt_q(case['tmax'])] + common + [table_tokens(case), mode])


def ref_line(case, i0=None):
    """the Coq L0 reference [ref_sis] on the same tables (i0 must be known)"""
    gc = case['gc']; i0 = case['i0'] if i0 is None else i0
    return ' '.join(['NMREF', gc.tokens(), R.opt_q(case['tmax']), _nl(case, i0)[2:], C.qtok(case['tmin']),
                     '1' if case['full'] else '0', str(FUEL), table_tokens(case)])


def shape_i0(case):
    i0 = case['i0']
    if i0 is None: return None
    f = case['i0_form']
    if f == 'single': return i0[0]
    if f == 'tuple': return tuple(i0)
    if f == 'set':
        obj = case.get('i0_set')
        if obj is None:
            obj = set(i0)
            if list(obj) != list(i0): return list(i0)              # replay: keep the recorded order
        return obj
    if f == 'dictkeys': return {u: 1 for u in i0}.keys()
    return list(i0)


def make_rules(case):
    """deterministic closures over the tables; the infection ordinal of a node is the
    number of earlier calls of the duration function for it"""
    durs, dels = case['durs'], case['dels']
    calls = {}; cur = {}
    def rec_fn(u):
        k = calls.get(u, 0); calls[u] = k + 1; cur[u] = k
        d = durs[u]
        return float(d[k % len(d)])
    # two cases in three hand back the SAME stored list object whenever the same table row is consulted again (the ordinary way
    # to write a table-driven rule): an implementation that consumes the user's lists in place then sees a shortened row at the
    # node's next infection with that ordinal and leaves the reference semantics (seeded change C13j)
    import zlib
    shared = zlib.crc32(repr(sorted(dels.items(), key=repr)).encode()) % 3 != 0
    store = {}
    def trans_fn(u, v, rec_delay):
        ls = dels[(u, v)]
        if not ls: return []
        k = cur[u] % len(ls)
        if not shared: return [float(x) for x in ls[k]]
        if (u, v, k) not in store: store[(u, v, k)] = [float(x) for x in ls[k]]
        return store[(u, v, k)]
    dstore = {}
    def joint(u, nbrs):
        rd = rec_fn(u)
        d = {v: trans_fn(u, v, rd) for v in nbrs}
        if not shared: return d, rd
        key = (u, tuple((repr(v), id(d[v])) for v in d))      # the same rows again -> the same dict object again
        return dstore.setdefault(key, d), rd
    return rec_fn, trans_fn, joint


def call_impl(EoN, case, full=None):
    gc = case['gc']
    kw = dict(initial_infecteds=shape_i0(case), rho=None if case['rho'] is None else float(case['rho']),
              tmin=float(case['tmin']), tmax=float('inf') if case['tmax'] is None else float(case['tmax']),
              return_full_data=case['full'] if full is None else full)
    if case['kind'] == 'fast_SIS':
        return EoN.fast_SIS(gc.G, float(case['tau']), float(case['gamma']), transmission_weight=gc.ewl, recovery_weight=gc.nwl, **kw)
    rec_fn, trans_fn, joint = make_rules(case)
    if case.get('api') == 'joint':
        return EoN.fast_nonMarkov_SIS(gc.G, trans_and_rec_time_fxn=joint, **kw)
    return EoN.fast_nonMarkov_SIS(gc.G, trans_time_fxn=trans_fn, rec_time_fxn=rec_fn, **kw)


def run_impl(EoN, sim, case, draws, full=None):
    gc = case['gc']
    s = R.Scripted(draws, gc.idmap)
    st, val = R.run_impl(lambda: call_impl(EoN, case, full), s, sim)
    out = {'status': st, 'log': s.log, 'used': s.i}
    if st == 'EXC': out['err'] = val
    if st == 'OK':
        isfull = case['full'] if full is None else full
        if isfull:
            inv = val
            out['hist'], out['trans'] = R.canon_full(inv, gc, CODE)
            try:
                out['rows'] = R.canon_arrays([inv.t(), inv.S(), inv.I()])
            except Exception as e:
                out['rows'] = 'EXC ' + type(e).__name__
            out['inv'] = inv
        else:
            out['rows'] = R.canon_arrays(val)
    return out


def merge_rows(rows):
    """Simulation_Investigation.summary() reports one row per DISTINCT time (the last state
    reached at that time); the plain arrays have one row per event"""
    out = []
    for t, c in rows:
        if out and out[-1][0] == t: out[-1] = (t, c)
        else: out.append((t, c))
    return out


def compare(case, m, impl):
    """None when model and implementation agree on trace and outputs"""
    if m['status'] == 'DRIVERFAIL':
        return 'model driver failure: %r' % (m.get('raw'),)
    d = R.compare_trace(impl['log'], m['trace'])
    if d: return d
    if m['status'] == 'ERR':
        if m['err'] in ('OutOfDraws', 'OutOfFuel'):
            return None if impl['status'] in ('OUT', 'OK') else 'model %s, implementation raised %s' % (m['err'], impl.get('err'))
        if impl['status'] != 'EXC' or R.ERRMAP.get(impl['err'], impl['err']) != m['err']:
            return 'model raises %s, implementation %s %s' % (m['err'], impl['status'], impl.get('err', ''))
        return None
    if impl['status'] != 'OK':
        return 'model returns, implementation %s %s' % (impl['status'], impl.get('err', ''))
    if isinstance(impl['rows'], str):
        return 'implementation arrays: ' + impl['rows']
    d = R.rows_equal(impl['rows'], merge_rows(m['rows']) if 'hist' in m else m['rows'])
    if d: return d
    if 'hist' in m:
        if 'hist' not in impl: return 'model has full data, implementation has not'
        return R.hist_equal(impl['hist'], m['hist']) or R.trans_equal(impl['trans'], m['trans'])
    return None


def case_json(case, draws=None):
    j = {'kind': case['kind'], 'graph': case['gc'].to_json(),
         'i0': None if case['i0'] is None else [repr(u) for u in case['i0']], 'i0_form': case['i0_form'],
         'rho': None if case['rho'] is None else str(case['rho']), 'tmin': str(case['tmin']),
         'tmax': None if case['tmax'] is None else str(case['tmax']), 'full': case['full']}
    if case['kind'] == 'fast_SIS':
        j['tau'] = str(case['tau']); j['gamma'] = str(case['gamma'])
    else:
        j['api'] = case.get('api', 'separate')
        j['durs'] = [[repr(u), [str(x) for x in d]] for u, d in case['durs'].items()]
        j['dels'] = [[repr(u), repr(v), [[str(x) for x in l] for l in ls]] for (u, v), ls in case['dels'].items()]
    if draws is not None: j['draws'] = [str(d) for d in draws]
    return j


def case_from_json(j):
    ev = lambda l: None if l is None else [eval(x) for x in l]
    fq = lambda x: None if x is None else F(x)
    c = {'kind': j['kind'], 'gc': R.GraphCase.from_json(j['graph']), 'i0': ev(j['i0']), 'i0_form': j['i0_form'],
         'rho': fq(j['rho']), 'tmin': F(j['tmin']), 'tmax': fq(j['tmax']), 'full': j['full']}
    if j['kind'] == 'fast_SIS':
        c['tau'] = F(j['tau']); c['gamma'] = F(j['gamma'])
    else:
        c['api'] = j.get('api', 'separate')
        c['durs'] = {eval(u): [F(x) for x in d] for u, d in j['durs']}
        c['dels'] = {(eval(u), eval(v)): [[F(x) for x in l] for l in ls] for u, v, ls in j['dels']}
    return c


# ------------------------------------------------- L0 oracle of C13: ref_sis ----
def ref_sis(case, i0_ids):
    """Plain agenda semantics (independent of the Coq model and of the implementation's
    queue discipline), exact arithmetic.  A node infected at s recovers at s+dur and attempts
    transmission to each neighbour at s+d for every listed d; an attempt infects iff the
    target is susceptible at that instant; nothing at or after tmax happens.
    Returns dict(events=[(t,node,status)], trans=[(t,src,tgt)], ties=bool, n=#processed)."""
    gc = case['gc']; im = gc.idmap; inv = gc.order
    nbrs = {im[u]: [im[v] for v in gc.G.neighbors(u)] for u in inv}
    dur = lambda v, k: case['durs'][inv[v]][k % len(case['durs'][inv[v]])]
    def delays(v, w, k):
        ls = case['dels'][(inv[v], inv[w])]
        return ls[k % len(ls)] if ls else []
    tmin, tmax = case['tmin'], case['tmax']
    st = {}; nth = {}; agenda = []; events = []; trans = []; res = {'ties': False, 'n': 0}
    def push(now, t, what):
        if tmax is not None and t >= tmax: return
        if t <= now or any(t == x[0] for x in agenda): res['ties'] = True
        heapq.heappush(agenda, (t, len(events), len(agenda), what))
    def infect(t, src, v):
        k = nth.get(v, 0); nth[v] = k + 1; st[v] = 1
        events.append((t, v, 1)); trans.append((t, src, v))
        push(t, t + dur(v, k), ('R', v))
        for w in nbrs[v]:
            dl = delays(v, w, k)
            if any(a >= b for a, b in zip(dl, dl[1:])): res['ties'] = True
            for d in dl: push(t, t + d, ('A', v, w))
    if tmax is None or tmin < tmax:
        for v in i0_ids:
            if st.get(v, 0) == 1: res['ties'] = True
            else: infect(tmin, None, v)
    while agenda and res['n'] < 5000:
        t, _, _, what = heapq.heappop(agenda); res['n'] += 1
        if what[0] == 'R':
            st[what[1]] = 0; events.append((t, what[1], 0))
        elif st.get(what[2], 0) == 0:
            infect(t, what[1], what[2])
    res['events'] = events; res['trans'] = trans; res['unfinished'] = bool(agenda)
    return res


def expected_outputs(case, events, n_i0):
    """rows and node histories (as Simulation_Investigation reports them) of an event list"""
    n = len(case['gc'].order); tmin = case['tmin']
    I = n_i0; rows = [(tmin, [n - I, I])]
    for t, v, s in events[n_i0:]:
        I += 1 if s == 1 else -1
        rows.append((t, [n - I, I]))
    hist = {i: [(tmin, 0)] for i in range(n)}
    for t, v, s in events:
        if t == tmin and s == 1: hist[v] = []
        hist[v].append((t, s))
    return rows, hist


def initial_ids(case, impl, draws):
    """the initially infected nodes in the order the code processes them"""
    gc = case['gc']; n = len(gc.order)
    if case['i0'] is not None:
        return [gc.idmap[u] for u in case['i0']]
    e = impl['log'][0] if impl['log'] else None
    if e is None or e[0] != 'S': return None
    k = e[1]
    if k > n or k < 0: return None
    r = int(F(draws[0])) % max(1, n)
    pop = sorted(e[2]); return [x[0] for x in (pop[r:] + pop[:r])[:k]]


def oracle_ref(case, impl, m=None):
    """C13 oracle: the implementation's outputs against ref_sis on the same tables"""
    bad = []
    if case['kind'] != 'fast_nonMarkov_SIS' or impl['status'] == 'OUT':
        return bad
    if case['rho'] is not None and case['i0'] is not None:
        if not (impl['status'] == 'EXC' and impl['err'] == 'EoNError'):
            bad.append(('rho+initial_infecteds', 'giving both rho and initial_infecteds was not rejected with EoNError (got %s %s)' % (impl['status'], impl.get('err'))))
        return bad
    draws = m['draws'] if m else []
    i0 = initial_ids(case, impl, draws)
    if i0 is None:
        return bad
    ref = ref_sis(case, i0)
    if ref['ties'] or ref['unfinished']:
        return bad                                   # outside the hypothesis of C13: never judged
    if impl['status'] == 'EXC':
        bad.append(('crash', 'raised %s on a valid input' % impl['err'])); return bad
    rows, hist = expected_outputs(case, ref['events'], len(i0))
    if isinstance(impl['rows'], str):
        bad.append(('rows', 'arrays: ' + impl['rows'])); return bad
    d = R.rows_equal(impl['rows'], merge_rows(rows) if 'hist' in impl else rows)
    if d: bad.append(('rows', 'returned arrays differ from the reference agenda semantics: ' + d))
    if 'hist' in impl:
        d = R.hist_equal(impl['hist'], hist)
        if d: bad.append(('history', 'node histories differ from the reference agenda semantics: ' + d))
        d = R.trans_equal(impl['trans'], ref['trans'])
        if d: bad.append(('transmissions', 'transmissions differ from the reference agenda semantics: ' + d))
    return bad


# ------------------------------------- L0 trace oracle of C02 (fast_SIS half) ----
def oracle_clock(case, impl, m=None):
    """Replays the implementation's OWN trace (rates handed to expovariate + the scripted
    draws) as the clock construction of the SIS chain, independently of the Coq model:
      * a node infected at s recovers exactly at s + the duration drawn with rate gamma*w_v
        (never, when that rate is 0);
      * while u is infectious, every neighbour v carries one clock of rate tau*w_uv: the next
        attempt is (previous attempt | infection time of u) + Exp(tau*w_uv); an attempt landing
        inside v's current infectious period is redrawn from the end of that period (nothing
        can happen before); the chain of (u,v) ends only when the attempt falls after u's
        recovery / tmax or v stays infectious beyond u's recovery -- so no attempt that could
        succeed is skipped;
      * an attempt infects iff the target is susceptible; every reported transmission goes
        along an edge from a currently infectious to a currently susceptible node;
      * arrays / histories / transmissions are those of the replayed path.
    A tie between two random times is never judged."""
    bad = []
    if case['kind'] != 'fast_SIS' or impl['status'] == 'OUT':
        return bad
    if case['rho'] is not None and case['i0'] is not None:
        if not (impl['status'] == 'EXC' and impl['err'] == 'EoNError'):
            bad.append(('rho+initial_infecteds', 'giving both rho and initial_infecteds was not rejected with EoNError (got %s %s)' % (impl['status'], impl.get('err'))))
        return bad
    gc = case['gc']; G = gc.G; im = gc.idmap; inv = gc.order; n = len(inv)
    tau, gamma, tmin, tmax = case['tau'], case['gamma'], case['tmin'], case['tmax']
    draws = [F(x) for x in (m['draws'] if m else [])]
    log = impl['log']
    i0 = initial_ids(case, impl, draws)
    if i0 is None:
        if impl['status'] == 'OK': bad.append(('rho/sample', 'initial infected nodes not drawn with random.sample over all nodes: %r' % (log[:1],)))
        return bad
    pos = [1 if case['i0'] is None else 0]; di = [pos[0]]
    nw = (lambda i: F(G.nodes[inv[i]][gc.nwl])) if gc.nwl else (lambda i: F(1))
    ew = (lambda i, j: F(G.adj[inv[i]][inv[j]][gc.ewl])) if gc.ewl else (lambda i, j: F(1))
    nbrs = {im[u]: [im[v] for v in G.neighbors(u)] for u in inv}
    INF = math.inf
    st = [0] * n; rec = [tmin - 1] * n; inft = [None] * n
    agenda = []; seq = [0]; events = []; trans = []
    class Stop(Exception): pass
    def draw(rate, what):
        if pos[0] >= len(log):
            raise Stop()                     # script exhausted (run cut by OutOfDraws) or call missing
        e = log[pos[0]]; pos[0] += 1
        if e[0] != 'E' or not C.close(e[1], float(rate)):
            bad.append(('clock/rate', '%s: expected a draw with rate %s, the implementation asked %r' % (what, rate, e))); raise Stop()
        if di[0] >= len(draws): raise Stop()
        d = draws[di[0]]; di[0] += 1
        return d
    def push(t, what):
        heapq.heappush(agenda, (t, seq[0], what)); seq[0] += 1
    def clock(u, v, now):
        if not rec[v] < rec[u]:
            return                           # v infectious for the rest of u's period
        rate = tau * ew(u, v)
        if rate < 0: raise Stop()
        if rate == 0: return
        t = now + draw(rate, 'clock of the pair (%d,%d) started at %s' % (u, v, now))
        if t < rec[v]:
            if st[v] != 1: bad.append(('clock/skip', 'an attempt of (%d,%d) at %s would be discarded although %d is susceptible' % (u, v, t, v)))
            t = rec[v] + draw(rate, 'clock of the pair (%d,%d) restarted at the recovery of %d' % (u, v, v))
        if t < rec[u] and t < tmax:
            push(t, ('A', u, v))
    def infect(t, src, v):
        st[v] = 1; inft[v] = t; events.append((t, v, 1)); trans.append((t, src, v))
        rr = gamma * nw(v)
        if rr < 0: raise Stop()
        rec[v] = t + draw(rr, 'recovery of %d infected at %s' % (v, t)) if rr > 0 else INF
        if rec[v] < tmax: push(rec[v], ('R', v))
        for w in nbrs[v]: clock(v, w, t)
    try:
        if tmin < tmax:
            for v in i0: push(tmin, ('A', None, v))
        while agenda:
            t, _, what = heapq.heappop(agenda)
            if agenda and agenda[0][0] == t and t > tmin:
                return bad                   # two random times coincide: not judged
            if what[0] == 'R':
                v = what[1]
                if st[v] != 1 or rec[v] != t: bad.append(('recovery', 'recovery of %d at %s but it is not infectious until then' % (v, t)))
                st[v] = 0; events.append((t, v, 0))
            else:
                _, u, v = what
                if u is not None and not (st[u] == 1 and v in nbrs[u]):
                    bad.append(('attempt/source', 'attempt %d->%d at %s from a node that is not infectious / not adjacent' % (u, v, t)))
                if st[v] == 0:
                    infect(t, u, v)
                if u is not None:
                    clock(u, v, t)
    except Stop:
        return bad
    if bad: return bad
    if pos[0] != len(log):
        bad.append(('clock/extra', 'the implementation made %d more calls to the random source than the clock construction needs' % (len(log) - pos[0]))); return bad
    if impl['status'] == 'EXC':
        bad.append(('crash', 'raised %s on a valid input' % impl['err'])); return bad
    # validity of the replayed path against the generator (source I & adjacent, target S)
    cur = [0] * n
    for t, v, s in events:
        if s == 1:
            src = next(x[1] for x in trans if x[0] == t and x[2] == v)
            if cur[v] != 0 or (src is not None and (cur[src] != 1 or v not in nbrs[src])):
                bad.append(('path/enabled', 'infection of %d at %s is not an enabled event of the SIS generator' % (v, t)))
        cur[v] = s
    nd = len(set(i0))
    rows, hist = expected_outputs(case, events, nd)
    if len(i0) == nd:
        if isinstance(impl['rows'], str):
            bad.append(('rows', 'arrays: ' + impl['rows'])); return bad
        d = R.rows_equal(impl['rows'], merge_rows(rows) if 'hist' in impl else rows)
        if d: bad.append(('rows', 'returned arrays differ from the replayed clock construction: ' + d))
        if 'hist' in impl:
            d = R.hist_equal(impl['hist'], hist) or R.trans_equal(impl['trans'], trans)
            if d: bad.append(('full-data', 'full data differ from the replayed clock construction: ' + d))
    return bad


def oracle(case, impl, m=None):
    return oracle_clock(case, impl, m) if case['kind'] == 'fast_SIS' else oracle_ref(case, impl, m)
