"""C07: equivalent ODE models agree (SIR hierarchy under uniform rho; regular-graph reductions).
Theorems: coq/Props/C07.v over the GENERATED right-hand sides (coq/Gen/Rhs.v).  Tie: point evaluation of
every translated Python function against the extracted generated definition.  The clauses the theorems do
not reach (effective degree, pref-mix, 2-D and node-level systems, initial conditions of the wrappers, the
lift to curves) are carried by numerical oracles on the actual entry points and labelled validation."""
import os, json, math
from fractions import Fraction as F
from . import common as C
from . import rhs_lib as L
from . import ode_oracles as O
from .c08 import report, TOL
from . import rhs2_spec as S2

CLAIM_MORE = "NOW PROVED (coq/Props/C07x.v, 41 statements, replacing 'numerical only' for these clauses): the SIR hierarchy under uniform rho as identities rhs_big(Phi x) = DPhi(x) * rhs_small(x) between the right-hand sides GENERATED from analytic.py, Phi a polynomial map in theta and DPhi its formal derivative (proved once to be the derivative): EBCM -> super-compact -> compact pairwise, -> compact effective degree, -> effective degree; every wrapper's closures are the polynomial (1-rho)P_k and its formal derivatives and its initial vector lies on the manifold; preferential-mixing EBCM = EBCM for uncorrelated mixing (continuous vector field; discrete-time in lock-step for every number of steps); the returned S, I, R coincide given ODE uniqueness as an explicit hypothesis."

CLAIM = dict(
    text="Machine-checked theorems (coq/Props/C07.v, closed under the global context) over right-hand sides GENERATED from EoN/analytic.py on every run: "
         "on a single degree class k (regular graph) heterogeneous mean-field SIS = homogeneous mean-field SIS with n=k, compact pairwise SIS/SIR = homogeneous "
         "pairwise SIS/SIR with n=k (Phi o rhs_big = rhs_small o Phi); EBCM -> super-compact pairwise under SS=N psihat'(theta) phi_S, SI=N psihat'(theta) phi_I and "
         "compact pairwise -> super-compact pairwise under S_k=N c_k theta^k (both _partial: the chain rule is written out, not derived).  Translation tied by point "
         "evaluation.  ALSO PROVED, over hand-written models of the node-level and 2-D right-hand sides (coq/Model/Rhs2D.v; on every run translate/rhs2d2v.py, fail-closed, regenerates coq/Gen/Rhs2.v from the source and the theorems *_generated_* re-prove generated definition = model; model and generated definition are also point-evaluated against the code, >=200 points per function): on a d-regular simple graph with uniform rates the symmetric subspace (all X_i equal, all Y_i equal, <X_iY_j>, <X_iX_j> equal on edges) is "
         "invariant and Phi o rhs_big = rhs_small o Phi with n=d for individual-based -> homogeneous mean-field and pair-based -> homogeneous pairwise (SIS and SIR, for every such "
         "graph and every N), and heterogeneous pairwise with a single degree class k = homogeneous pairwise with n=k (SIS and SIR).  VALIDATED NUMERICALLY ONLY (oracles on the real entry points, tolerance 1e-4*N): EBCM = compact pairwise = super-compact pairwise = effective degree "
         "= compact effective degree on random degree distributions with uniform rho; EBCM_pref_mix (continuous, discrete) = EBCM under uncorrelated mixing; the CURVES "
         "returned on regular graphs of several degrees (heterogeneous pairwise = compact pairwise = pair-based = homogeneous pairwise and heterogeneous mean-field = "
         "individual-based = homogeneous mean-field, SIS and SIR: the theorems are about the vector fields, the lift is ODE uniqueness, cited).",
    design='DESIGN.md section 4, C07; section 2.4(b) (rhs2v)',
    technique='Coq proof over translator-generated model and hand-written model + point-evaluation correspondence + numerical oracles (validation) for the clauses not proved',
    note="Cited: Picard-Lindeloef uniqueness (corresponding vector fields => same curves).  effective-degree and pref-mix equivalences and the SIR heterogeneous mean-field "
         "reduction (chain rule) are validation only / _partial.  The node-level and 2-D reductions are proved over a hand-written model that is itself proved equal, on every run, to the definitions "
         "regenerated from the source (pair-based: under index_of_node = enumerate(nodelist) over a simple graph, which every caller establishes); every such theorem is also "
         "re-evaluated numerically on the Python functions.")


# ------------------------------------------------------------------ cases -------
def _curves(r, sis):
    return r[1:3] if sis else r[1:4]


NODELIST_ENTRIES = ('SIS_pair_based', 'SIR_pair_based', 'SIS_individual_based', 'SIR_individual_based')


def _call_graph(EoN, name, G, tau, gamma, rho, tmax, tcount, tmin=0, nodelist_perm=None):
    """entry point on G with uniform rho; homogeneous mean-field SIR has a direct-call fallback
    (its from_graph wrapper is a recorded finding).  The node-level models take an optional nodelist: with
    nodelist_perm = k it is passed explicitly, in an order that differs from G.nodes() (rotated by k and reversed) --
    the aggregated curves must not depend on it."""
    kw = {}
    if nodelist_perm and name in NODELIST_ENTRIES:
        nodes = list(G.nodes()); k = nodelist_perm % max(1, len(nodes))
        kw['nodelist'] = list(reversed(nodes[k:] + nodes[:k]))
    return O.call(getattr(EoN, name), G, tau, gamma, rho=rho, tmin=tmin, tmax=tmax, tcount=tcount, **kw)


def case_equiv(EoN, p):
    """two entry points the property calls equivalent return the same curves on this graph"""
    import numpy as np, networkx as nx
    G = O.graph_from_desc(p['graph']); N = G.order()
    sis = p['a'].startswith('SIS')
    res = []
    for name in (p['a'], p['b']):
        H = G
        if p.get('int_labels'):
            H = nx.convert_node_labels_to_integers(G)
        if name.endswith('homogeneous_meanfield_direct'):
            n = sum(d for _, d in G.degree()) / N
            f = EoN.SIS_homogeneous_meanfield if sis else EoN.SIR_homogeneous_meanfield
            args = ((1 - p['rho']) * N, p['rho'] * N, n, p['tau'], p['gamma']) if sis else ((1 - p['rho']) * N, p['rho'] * N, 0, n, p['tau'], p['gamma'])
            st, r = O.call(f, *args, tmin=p.get('tmin', 0), tmax=p['tmax'], tcount=p['tcount'])
        else:
            st, r = _call_graph(EoN, name, H, p['tau'], p['gamma'], p['rho'], p['tmax'], p['tcount'], p.get('tmin', 0), p.get('nodelist_perm'))
        if st != 'ok':
            return 'CRASH %s %s' % (name, r)
        res.append(r)
    ca, cb = _curves(res[0], sis), _curves(res[1], sis)
    d = max(O.maxdiff(x, y) for x, y in zip(ca, cb))
    if d > TOL * N:
        j = int(np.argmax([O.maxdiff(x, y) for x, y in zip(ca, cb)]))
        k = int(np.argmax(np.abs(ca[j] - cb[j])))
        return '%s and %s differ: %s(t=%.3g) = %.6f vs %.6f (max deviation %.3g > %.0e*N, N=%d)' % (p['a'], p['b'], 'SIR'[j], res[0][0][k], ca[j][k], cb[j][k], d, TOL, N)
    return None


def case_prefmix(EoN, p):
    """EBCM_pref_mix(_discrete) with P(k'|k) = k' P(k')/<k> against EBCM(_discrete)_uniform_introduction"""
    Pk = {int(k): float(v) for k, v in p['Pk'].items()}; N = p['N']; rho = p['rho']
    kave = sum(k * q for k, q in Pk.items())
    Pnk = {k1: {k2: k2 * Pk[k2] / kave for k2 in Pk} for k1 in Pk}
    psi, psiP = O.vpoly_from_Pk(Pk)
    if p['kind'] == 'cts':
        a = O.call(EoN.EBCM_pref_mix, N, Pk, Pnk, p['tau'], p['gamma'], rho=rho, tmin=p.get('tmin', 0), tmax=p['tmax'], tcount=p['tcount'])
        b = O.call(EoN.EBCM_uniform_introduction, N, psi, psiP, p['tau'], p['gamma'], rho, tmin=p.get('tmin', 0), tmax=p['tmax'], tcount=p['tcount'])
    else:
        a = O.call(EoN.EBCM_pref_mix_discrete, N, Pk, Pnk, p['p'], rho=rho, tmax=p['tmaxd'])
        b = O.call(EoN.EBCM_discrete_uniform_introduction, N, psi, psiP, p['p'], rho, tmax=p['tmaxd'])
    for nm, (st, r) in (('EBCM_pref_mix' + ('' if p['kind'] == 'cts' else '_discrete'), a), ('EBCM' + ('' if p['kind'] == 'cts' else '_discrete') + '_uniform_introduction', b)):
        if st != 'ok':
            return 'CRASH %s %s' % (nm, r)
    d = max(O.maxdiff(a[1][i], b[1][i]) for i in (0, 1, 2, 3))
    if d > TOL * N:
        return 'uncorrelated preferential mixing: max deviation from EBCM %.3g > %.0e*N (N=%g)' % (d, TOL, N)
    return None


def case_pgf_vectorised(EoN, p):
    """EBCM_uniform_introduction fed with the library's own get_PGF / get_PGFPrime"""
    Pk = {int(k): float(v) for k, v in p['Pk'].items()}
    st, r = O.call(EoN.EBCM_uniform_introduction, p['N'], EoN.get_PGF(Pk), EoN.get_PGFPrime(Pk), p['tau'], p['gamma'], p['rho'], tmax=2, tcount=5)
    if st != 'ok':
        return 'CRASH ' + r
    psi, psiP = O.vpoly_from_Pk(Pk)
    st, r2 = O.call(EoN.EBCM_uniform_introduction, p['N'], psi, psiP, p['tau'], p['gamma'], p['rho'], tmax=2, tcount=5)
    d = max(O.maxdiff(r[i], r2[i]) for i in (1, 2, 3))
    return None if d <= TOL * p['N'] else 'EBCM with get_PGF differs from EBCM with an explicit polynomial by %.3g' % d


def case_pure_ic(EoN, p):
    """SIR_individual_based_pure_IC(G, tau, gamma, [u]) is SIR_individual_based with Y0 = indicator of u"""
    import numpy as np
    G = O.graph_from_desc(p['graph']); nodes = list(G.nodes()); u = nodes[p['seed']]
    st, r = O.call(EoN.SIR_individual_based_pure_IC, G, p['tau'], p['gamma'], [u], tmax=p['tmax'], tcount=p['tcount'])
    if st != 'ok':
        return 'CRASH ' + r
    Y0 = np.array([1.0 if v == u else 0.0 for v in nodes])
    st, r2 = O.call(EoN.SIR_individual_based, G, p['tau'], p['gamma'], Y0=Y0, nodelist=nodes, tmax=p['tmax'], tcount=p['tcount'])
    if st != 'ok':
        return 'CRASH SIR_individual_based ' + r2
    d = max(O.maxdiff(r[i], r2[i]) for i in (1, 2, 3))
    return None if d <= TOL * G.order() else 'pure-IC wrapper differs from SIR_individual_based(Y0=indicator) by %.3g' % d


def case_rhs_spec(EoN, p):
    """a theorem of Props/C07.v evaluated numerically on the Python right-hand sides at one point"""
    import numpy as np
    A = EoN.analytic
    th = p['theorem']; a = p['args']
    q = lambda x: float(F(x))
    tau, g = q(a['tau']), q(a['gamma'])
    def cl(x, y):
        x = np.atleast_1d(np.array(x, dtype=float)); y = np.atleast_1d(np.array(y, dtype=float))
        return x.shape == y.shape and all(C.close(float(u), float(v), 1e-9) for u, v in zip(x, y))
    fl = lambda v: [float(z) for z in np.atleast_1d(v)]
    k = int(a.get('k', 0)); z = np.zeros(k)
    if th == 'lump_SIS_heterogeneous_meanfield_regular':
        s, i = q(a['s']), q(a['i'])
        big = A._dSIS_heterogeneous_meanfield_(np.concatenate((z, [s], z, [i])), 0, k + 1, tau, g)
        sm = A._dSIS_homogeneous_meanfield_(np.array([s, i]), 0, k / (s + i), tau, g)
        want = np.concatenate((z, [sm[0]], z, [sm[1]]))
        return None if cl(big, want) else 'heterogeneous mean-field on the single class k=%d: %s, homogeneous mean-field with n=k embedded: %s' % (k, fl(big), fl(want))
    if th == 'lump_SIS_compact_pairwise_regular':
        s, SI, SS, N = q(a['s']), q(a['SI']), q(a['SS']), q(a['N'])
        big = A._dSIS_compact_pairwise_(np.concatenate((z, [s, SI, SS])), 0, np.concatenate((z, [N])), N * k, tau, g)
        sm = A._dSIS_homogeneous_pairwise_(np.array([s, SI, SS]), 0, N, float(k), tau, g)
        want = np.concatenate((z, sm))
        return None if cl(big, want) else 'SIS compact pairwise on the single class k=%d: %s, homogeneous pairwise with n=k embedded: %s' % (k, fl(big), fl(want))
    if th == 'lump_SIR_compact_pairwise_regular':
        s, SI, SS, N, R = q(a['s']), q(a['SI']), q(a['SS']), q(a['N']), q(a['R'])
        big = A._dSIR_compact_pairwise_(np.concatenate((z, [s, SS, SI, R])), 0, N, tau, g)
        sm = A._dSIR_homogeneous_pairwise_(np.array([s, N - s - R, SI, SS]), 0, float(k), tau, g)
        want = np.concatenate((z, [sm[0], sm[3], sm[2], g * (N - s - R)]))
        ok = cl(big, want) and C.close(float(sm[1]), float(-sm[0] - g * (N - s - R)), 1e-9)
        return None if ok else 'SIR compact pairwise on the single class k=%d: %s, homogeneous pairwise with n=k mapped: %s (dI=%.9g)' % (k, fl(big), fl(want), sm[1])
    if th in ('ebcm_to_super_compact', 'compact_to_super_compact'):
        c = [q(x) for x in a['c']]            # psihat(x) = sum c_j x^j
        ps = lambda x: sum(cj * x ** j for j, cj in enumerate(c))
        psP = lambda x: sum(j * cj * x ** (j - 1) for j, cj in enumerate(c) if j >= 1)
        psDP = lambda x: sum(j * (j - 1) * cj * x ** (j - 2) for j, cj in enumerate(c) if j >= 2)
        theta, R, N = q(a['theta']), q(a['R']), q(a['N'])
        if th == 'ebcm_to_super_compact':
            phiS0, phiR0 = q(a['phiS0']), q(a['phiR0'])
            A_, B_, C_ = psP(theta), psDP(theta), psP(1.0)
            phiS = phiS0 * A_ / C_; phiR = phiR0 + g * (1 - theta) / tau; phiI = theta - phiS - phiR
            SS, SI = N * A_ * phiS, N * A_ * phiI
            e = A._dEBCM_(np.array([theta, R]), 0, N, tau, g, ps, psP, phiS0, phiR0)
            sc = A._dSIR_super_compact_pairwise_(np.array([theta, SS, SI, R]), 0, tau, g, ps, psP, psDP, N)
            dth = e[0]
            want = [dth, N * B_ * dth * phiS + N * A_ * phiS0 * B_ * dth / C_,
                    N * B_ * dth * phiI + N * A_ * (dth - phiS0 * B_ * dth / C_ + g * dth / tau), e[1]]
            ok = cl(sc, want) and C.close(float(dth), float(-tau * phiI), 1e-9)
            return None if ok else 'push-forward of _dEBCM_ under (theta,R)->(theta,SS,SI,R): %s, _dSIR_super_compact_pairwise_ there: %s' % (fl(want), fl(sc))
        SS, SI = q(a['SS']), q(a['SI'])
        Sk = np.array([N * cj * theta ** j for j, cj in enumerate(c)])
        cp = A._dSIR_compact_pairwise_(np.concatenate((Sk, [SS, SI, R])), 0, N, tau, g)
        sc = A._dSIR_super_compact_pairwise_(np.array([theta, SS, SI, R]), 0, tau, g, ps, psP, psDP, N)
        want = np.concatenate((np.arange(len(c)) * Sk * sc[0] / theta, sc[1:]))
        return None if cl(cp, want) else '_dSIR_compact_pairwise_ at S_k=N c_k theta^k: %s, from _dSIR_super_compact_pairwise_: %s' % (fl(cp), fl(want))
    return 'unknown theorem'


CASES = {'equiv': case_equiv, 'prefmix': case_prefmix, 'pgf': case_pgf_vectorised, 'pure_ic': case_pure_ic, 'rhs_spec': case_rhs_spec, 'rhs2_spec': S2.case_spec}


def replay(rp):
    EoN = C.import_eon()
    r = rp.get('replay', {})
    if 'kind' not in r:
        print('replay: no concrete input recorded (%s)' % rp.get('what', '')[:200]); return 0
    res = CASES[r['kind']](EoN, r['params'])
    print('replay %s: %s' % (r['kind'], res or 'holds'))
    return 1 if res else 0


# ------------------------------------------------------------------ generators ----
def spec_points(rng, n):
    d = lambda lo=1, hi=64, den=8: str(L.dy(rng, lo, hi, den))
    out = []
    for _ in range(n):
        k = rng.randint(1, 6); tau = d(1, 24, 8); g = d(1, 24, 8)
        out.append({'theorem': 'lump_SIS_heterogeneous_meanfield_regular', 'args': {'k': k, 's': d(), 'i': d(), 'tau': tau, 'gamma': g}})
        out.append({'theorem': 'lump_SIS_compact_pairwise_regular', 'args': {'k': k, 's': d(), 'SI': d(), 'SS': d(), 'N': d(), 'tau': tau, 'gamma': g}})
        out.append({'theorem': 'lump_SIR_compact_pairwise_regular', 'args': {'k': k, 's': d(), 'SI': d(), 'SS': d(), 'N': d(), 'R': d(), 'tau': tau, 'gamma': g}})
        c = [str(L.dy(rng, 0, 8, 32)) for _ in range(rng.randint(3, 5))]; c[-1] = str(F(c[-1]) + F(1, 32)); c[1] = str(F(c[1]) + F(1, 32))
        out.append({'theorem': 'ebcm_to_super_compact', 'args': {'c': c, 'theta': d(1, 15, 16), 'R': d(), 'N': d(8, 64, 1), 'phiS0': d(1, 16, 16), 'phiR0': d(0, 4, 16), 'tau': tau, 'gamma': g}})
        out.append({'theorem': 'compact_to_super_compact', 'args': {'c': c, 'theta': d(1, 15, 16), 'R': d(), 'N': d(8, 64, 1), 'SS': d(), 'SI': d(), 'tau': tau, 'gamma': g}})
    return out


SIR_HIER = ['SIR_compact_pairwise_from_graph', 'SIR_super_compact_pairwise_from_graph', 'SIR_effective_degree_from_graph', 'SIR_compact_effective_degree_from_graph']
REG_PAIR = ['heterogeneous_pairwise_from_graph', 'compact_pairwise_from_graph', 'pair_based']
REG_MF = ['heterogeneous_meanfield_from_graph', 'individual_based', 'homogeneous_meanfield_from_graph', 'homogeneous_meanfield_direct']


def oracle_cases(rng, tier):
    thorough = tier == 'thorough'
    cases = []
    def rates():
        # the solutions are time-translation invariant: a start time tmin != 0 must shift every curve alike
        tmin = rng.choice([0, 0, 2.5, -1.5, 3])
        return dict(tau=rng.choice([0.3, 0.7, 1.5]), gamma=rng.choice([0.5, 1.0]), rho=rng.choice([0.05, 0.1, 0.25]), tmin=tmin, tmax=tmin + 5.0, tcount=11,
                    nodelist_perm=rng.choice([1, 2, 3]))      # always an order that differs from G.nodes() (the default order is what every other case uses)
    # (a) SIR hierarchy on random degree distributions, uniform rho
    for i in range(40 if thorough else 3):
        degs = rng.choice([(1, 2, 2, 3, 3, 4, 5), (1, 1, 2, 6), (2, 3, 4), (1, 3, 3, 5, 7), (0, 1, 2, 3)])
        G = O.labelled(O.hetero_graph(rng, rng.choice([16, 20, 30]), degs), rng); dg = O.graph_desc(G); r = rates()
        for b in SIR_HIER:
            cases.append(('EBCM_from_graph~%s/degree-distribution' % b, 'equiv', dict(graph=dg, a='EBCM_from_graph', b=b, **r)))
    # (b) uncorrelated preferential mixing
    from .c08 import rand_Pk
    for i in range(40 if thorough else 3):
        Pk = rand_Pk(rng); pk = {str(k): float(v) for k, v in Pk.items() if k > 0 or True}
        if 0 in Pk:      # P(k'|0) is irrelevant but the dict must be rectangular; degree-0 nodes are fine for both models
            pass
        r = rates()
        cases.append(('EBCM_pref_mix~EBCM/uncorrelated', 'prefmix', dict(kind='cts', Pk=pk, N=rng.choice([50, 1000]), **r)))
        cases.append(('EBCM_pref_mix_discrete~EBCM_discrete/uncorrelated', 'prefmix', dict(kind='disc', Pk=pk, N=rng.choice([50, 1000]), p=rng.choice([0.25, 0.5, 0.75]), rho=r['rho'], tmaxd=8)))
    Pk = rand_Pk(rng)
    cases.append(('EBCM_uniform_introduction/get_PGF-argument', 'pgf', dict(Pk={str(k): float(v) for k, v in Pk.items()}, N=100, tau=0.7, gamma=1.0, rho=0.1)))
    # (c) regular graphs of several degrees
    degrees = range(1, 9) if thorough else (2, 3, 5)
    for d in degrees:
        n = max(d + 1, rng.choice([8, 10, 12]))
        G = O.labelled(O.regular_graph(rng, d, n), rng); dg = O.graph_desc(G); r = rates()
        for fam in ('SIR', 'SIS'):
            for b in REG_PAIR:
                cases.append(('%s_homogeneous_pairwise_from_graph~%s_%s/regular' % (fam, fam, b), 'equiv',
                              dict(graph=dg, a='%s_homogeneous_pairwise_from_graph' % fam, b='%s_%s' % (fam, b), **r)))
            for b in REG_MF[:-1]:
                cases.append(('%s_homogeneous_meanfield_direct~%s_%s/regular' % (fam, fam, b), 'equiv',
                              dict(graph=dg, a='%s_homogeneous_meanfield_direct' % fam, b='%s_%s' % (fam, b), **r)))
            # the individual-based model once more on integer labels 0..N-1 (the label-indexing defect of
            # _dSIS_individual_based_ is C14's; here the model equivalence itself is exercised)
            cases.append(('%s_homogeneous_meanfield_direct~%s_individual_based/regular-int-labels' % (fam, fam), 'equiv',
                          dict(graph=dg, a='%s_homogeneous_meanfield_direct' % fam, b='%s_individual_based' % fam, int_labels=True, **r)))
    G = O.labelled(O.hetero_graph(rng, 8), rng)
    cases.append(('SIR_individual_based_pure_IC', 'pure_ic', dict(graph=O.graph_desc(G), seed=2, tau=0.7, gamma=1.0, tmax=3.0, tcount=7)))
    return cases


# ------------------------------------------------------------------ main ----------
def run(run, tier):
    import re
    EoN = C.import_eon()
    rng = run.rng
    thorough = tier == 'thorough'
    broken = []
    table = None
    try:
        L.regen_rhs('all'); table = L.sigs()
    except L.RhsRefused as e:
        broken.append(('translator', 'translate/rhs2v.py refuses the current EoN/analytic.py: %s' % e))
    from . import rhs2_spec as S2
    regen2 = S2.regen_phase()
    props = (C.check_props('C07') if regen2 is None else S2.REFUSED_PROPS(regen2)) if table else {'ok': False, 'theorems': [], 'axioms': {}, 'log': 'translator refused'}
    if table and not props['ok'] and regen2 is None:
        where = ''
        mm = re.findall(r'File "\./((?:Proofs|Props|Model|Gen)/[A-Za-z0-9]+\.v)", line (\d+)', props.get('log', ''))
        if mm:
            f, ln = mm[-1]
            try:
                src = open(os.path.join(C.COQ, f)).read().split('\n')
                for k in range(int(ln) - 1, -1, -1):
                    m = re.match(r'\s*(?:Lemma|Theorem|Example|Definition)\s+([A-Za-z0-9_\']+)', src[k])
                    if m:
                        where = '%s (%s:%s)' % (m.group(1), f, ln); break
            except Exception:
                pass
        broken.append(('proof', 'theorem over the generated right-hand sides no longer checks: %s; %s' % (where or 'see log', props.get('log', '')[-300:].replace('\n', ' '))))
    n_eval = 0; n_distinct = 0; samples = []; dist = {}
    if table:
        ok, log = L.build()
        if not ok:
            broken.append(('model-build', 'generated model / extracted driver does not build: ' + log[-300:].replace('\n', ' ')))
        else:
            tie = L.point_check(EoN, rng, 1500 if thorough else 220, table)
            n_eval += tie['n']; n_distinct += tie['distinct']; samples += tie['samples'][:2]
            dist['rhs_points_agreeing_per_function'] = tie['per_fn']
            if tie['mism']:
                m = tie['mism'][0]
                broken.append(('tie', 'translation is not faithful at a point: %s args=%s python=%s model=%s (%d of %d points)' % (m[0], m[1], m[2], m[3], len(tie['mism']), tie['n'])))
    found = 0; stats = {}
    blk = S2.check_block(run, EoN, 'C07', tier, report, regen2)           # 2-D / node-level systems: own RNG stream, does not shift the cases below
    broken += blk['broken']; found += blk['found']; n_eval += blk['n_eval']; n_distinct += blk['n_distinct']; samples += blk['samples']; dist.update(blk['dist'])
    sp = spec_points(rng, 60 if thorough else 12)
    for p in sp:
        n_eval += 1
        try:
            res = case_rhs_spec(EoN, p)
        except Exception as e:
            res = 'CRASH %s: %s' % (type(e).__name__, str(e)[:100])
        stats['rhs_spec'] = stats.get('rhs_spec', 0) + 1
        if res:
            found += report(run, 'C07/rhs/%s' % p['theorem'], 'the statement of theorem %s fails on the Python right-hand sides: %s' % (p['theorem'], res),
                   {'kind': 'rhs_spec', 'params': p, 'detail': res, 'also_broken': [b[0] for b in broken]})
    cases = oracle_cases(rng, tier)
    worst = 0.0
    for stem, kind, p in cases:
        n_eval += 1
        try:
            res = CASES[kind](EoN, p)
        except Exception as e:
            import traceback
            res = 'CRASH(oracle) %s: %s' % (type(e).__name__, traceback.format_exc()[-300:])
        stats[kind] = stats.get(kind, 0) + 1
        if res is None:
            if kind == 'equiv' and len(samples) < 5 and 'effective' in p['b']:
                samples.append({'equivalent_models_agree': {k: p[k] for k in ('a', 'b', 'tau', 'gamma', 'rho')} | {'degrees': sorted(d for _, d in O.graph_from_desc(p['graph']).degree())}})
            continue
        key = 'C07/%s%s' % (stem, '/crash' if res.startswith('CRASH') else '')
        found += report(run, key, '%s: %s' % (stem, res), {'kind': kind, 'params': p, 'detail': res, 'also_broken': [b[0] for b in broken]})
    if broken and not found:
        for what, detail in broken:
            report(run, 'C07/%s' % what, detail + ' -- numerical oracles found no failing input of the property', {'broken': what, 'detail': detail, 'log': props.get('log', '')[-2000:]}, no_input=True)
    elif broken:
        run.coverage['also_broken'] = broken
    C.proof_coverage(run, props, n_eval, n_distinct + len(cases) + len(sp),
                     'TIE (every run): each of the 12 translated right-hand sides evaluated in Python and in the extracted generated Coq definition at random dyadic points, rel 1e-9.  '
                     'VALIDATION ORACLES (not proof, tolerance 1e-4*N on S,I,R over t in [0,5], 11 grid points): EBCM_from_graph vs SIR compact pairwise / super-compact pairwise / effective degree / '
                     'compact effective degree on random simple graphs (16-30 nodes, degree multisets drawn from 5 families incl. degree 0 and 7, shuffled string/tuple labels), tau in {0.3,0.7,1.5}, '
                     'gamma in {0.5,1}, rho in {0.05,0.1,0.25}; EBCM_pref_mix(_discrete) with P(k\'|k)=k\'P(k\')/<k> vs EBCM(_discrete)_uniform_introduction on random degree distributions; random '
                     'd-regular graphs d in %s: homogeneous pairwise vs heterogeneous pairwise, compact pairwise, pair-based; homogeneous mean-field vs heterogeneous mean-field, individual-based; '
                     'SIS and SIR; each theorem of Props/C07.v re-evaluated numerically on the Python right-hand sides.  ' % (list(degrees_of(tier)),) + S2.RULE,
                     samples, {'distribution': dict(dist, oracle_cases=stats),
                               'validated_numerically_only': ['effective degree / compact effective degree vs EBCM', 'prefmix_uncorrelated (continuous and discrete)',
                                                              'SIR heterogeneous mean-field reduction on regular graphs (chain rule, _partial)',
                                                              'initial conditions built by the *_from_graph wrappers'],
                               'proved_over_hand_written_model': ['individual-based -> homogeneous mean-field (SIS, SIR)', 'pair-based -> homogeneous pairwise (SIS, SIR)',
                                                                  'heterogeneous pairwise on one degree class -> homogeneous pairwise and -> compact pairwise (SIS, SIR)'],
                               'hand_written_model': 'coq/Model/Rhs2D.v (component rhs2): proved equal to the definitions generated from the source (Props: *_generated_*), both tied by point evaluation',
                               'cited': ['Picard-Lindeloef uniqueness', 'chain rule for psihat\'(theta(t)) and S_k = N c_k theta^k in the _partial theorems'],
                               'translator': 'translate/rhs2v.py (fail-closed); generated file coq/Gen/Rhs.v; translate/rhs2d2v.py (fail-closed); generated file coq/Gen/Rhs2.v'})
    run.assumptions += ['Model/Rhs2D.v is a hand-written model of the 2-D / node-level right-hand sides; its precondition is index_of_node = enumerate(nodelist) over a simple graph (what every caller in analytic.py builds)',
                        'numpy elementwise/broadcast/slice/dot semantics as modelled in Model/Vec.v (tied by point evaluation)',
                        'scipy.integrate.odeint / ode return the ODE solution on the grid to tolerance']


def degrees_of(tier):
    return range(1, 9) if tier == 'thorough' else (2, 3, 5)


from . import c07x; run, replay = c07x.attach(run, replay, CASES, report)    # SIR hierarchy / pref-mix theorems (Props/C07x.v) join this check
