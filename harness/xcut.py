"""Cross-cutting oracles evaluated on the implementation's outputs (independent of the
Coq models): trajectory well-formedness (C04), initial condition (C05), transmissions
(C09), full data vs arrays (C10).  Used by the per-property checks over every
simulator library (harness/*_lib.py)."""
from fractions import Fraction as F
from . import common as C

SIR_MOVES = [((-1, 1, 0), 'S->I'), ((0, -1, 1), 'I->R')]
SIS_MOVES = [((-1, 1), 'S->I'), ((1, -1), 'I->S')]


def wf_traj(rows, tmin, tmax, N, moves, continuous=True, final_no_infected=False, i_col=1):
    """rows: [(t, [counts])].  Returns None or a description of the first defect."""
    if isinstance(rows, tuple) and rows and rows[0] == 'RAGGED':
        return 'arrays of different lengths %r' % (rows[1],)
    if not rows:
        return 'no rows'
    if not C.close(rows[0][0], float(tmin)):
        return 'first time %r is not tmin=%s' % (rows[0][0], tmin)
    for i, (t, c) in enumerate(rows):
        if any(x < 0 for x in c):
            return 'row %d has a negative count %r' % (i, c)
        if sum(c) != N:
            return 'row %d counts %r do not sum to the number of nodes %d' % (i, c, N)
        if i > 0:
            if t < rows[i - 1][0]:
                return 'time decreases at row %d (%r after %r)' % (i, t, rows[i - 1][0])
            if continuous:
                if tmax is not None and not t < float(tmax):
                    return 'row %d is at time %r, not before tmax=%s' % (i, t, tmax)
                d = tuple(a - b for a, b in zip(c, rows[i - 1][1]))
                if d not in [m for m, _ in moves]:
                    return 'rows %d->%d differ by %r, not by one legal move' % (i - 1, i, d)
            else:
                if tmax is not None and t > float(tmax) + 1e-9:
                    return 'row %d is at time %r, after tmax=%s' % (i, t, tmax)
    if len(rows[0][1]) == 3:
        for i in range(1, len(rows)):
            if rows[i][1][0] > rows[i - 1][1][0]: return 'S increases at row %d' % i
            if rows[i][1][2] < rows[i - 1][1][2]: return 'R decreases at row %d' % i
    if final_no_infected and rows[-1][1][i_col] != 0:
        return 'unbounded horizon with positive recovery rate, but the run ends with %d infected' % rows[-1][1][i_col]
    return None


def initial_condition(rows, hist, N, I0, R0, tmin, sir=True):
    """C05: row 0 and statuses at tmin equal the request (ids)."""
    exp = [N - len(I0) - len(R0), len(I0)] + ([len(R0)] if sir else [])
    if isinstance(rows, str) or (isinstance(rows, tuple) and rows and rows[0] == 'RAGGED'):
        return 'no usable arrays: %r' % (rows,)
    if list(rows[0][1]) != exp:
        return 'row 0 is %r, requested initial condition is %r (S,I%s)' % (list(rows[0][1]), exp, ',R' if sir else '')
    if not C.close(rows[0][0], float(tmin)):
        return 'row 0 time %r is not tmin %s' % (rows[0][0], tmin)
    if hist is not None:
        for u, h in hist.items():
            want = 1 if u in I0 else 2 if u in R0 else 0
            if isinstance(h, str) or not h or not C.close(h[0][0], float(tmin)) or h[0][1] != want:
                return 'node %d: history starts %r, requested status at tmin=%s is %d' % (u, h[:1] if not isinstance(h, str) else h, tmin, want)
            if u in R0 and len(h) > 1:
                return 'initially recovered node %d changes status later: %r' % (u, h)
    return None


def status_at(h, t):
    """status of the latest change at or before t (ties: the last entry at that time)"""
    s = None
    for tt, ss in h:
        if tt <= t + 0.0: s = ss
        else: break
    return s


def summary_from_hist(hist, ncols):
    """population counts at every change time, from per-node histories"""
    times = sorted({t for h in hist.values() for t, _ in h})
    out = []
    for t in times:
        c = [0] * ncols
        for h in hist.values():
            s = status_at(h, t)
            if s is not None and s < ncols: c[s] += 1
        out.append((t, c))
    return out


def full_vs_arrays(hist, rows_plain, ncols, tmin, moves_ok):
    """C10: summary of the histories equals the plain arrays; histories start at tmin,
    are ordered and make legal moves (moves_ok: set of (from,to))"""
    for u, h in hist.items():
        if isinstance(h, str): return 'node %d history: %s' % (u, h)
        if not h or not C.close(h[0][0], float(tmin)):
            return 'history of node %d does not start at tmin: %r' % (u, h[:2])
        for (t1, s1), (t2, s2) in zip(h, h[1:]):
            if t2 < t1: return 'history of node %d is not time-ordered: %r' % (u, h)
            if (s1, s2) not in moves_ok: return 'history of node %d makes the illegal move %d->%d: %r' % (u, s1, s2, h)
    summ = summary_from_hist(hist, ncols)
    # the plain arrays have one row per event; several events may share a time: compare at the last row of each time
    last = {}
    for t, c in rows_plain: last[t] = c
    plain = sorted(last.items())
    if len(plain) != len(summ):
        return 'summary has %d distinct times, the plain arrays %d' % (len(summ), len(plain))
    for (t1, c1), (t2, c2) in zip(summ, plain):
        if not C.close(t1, t2) or list(c1) != list(c2):
            return 'summary of histories (%r, %r) differs from the arrays (%r, %r)' % (t1, c1, t2, list(c2))
    return None


def valid_transmissions(trans, hist, adj, I0, tmin, inducing=1, from_status=0, to_status=1, sir=True, discrete=False, directed_succ=None):
    """C09: (adj: id -> set of neighbour ids reachable along edge direction)"""
    if isinstance(trans, str): return 'transmissions(): ' + trans
    prev = None; targets = {}
    for k, (t, s, g) in enumerate(trans):
        if prev is not None and t < prev: return 'transmission list not time-ordered at entry %d' % k
        prev = t
        if s is None:
            # discrete-time simulators date an entry by the contact step: the change happens at t+1,
            # so the source-less entries of the initial nodes are at tmin-1
            if g not in I0 or not C.close(t, float(tmin) - (1 if discrete else 0)):
                return 'entry %d (%r) has no source but %d is not an initially infected node at tmin' % (k, (t, s, g), g)
            continue
        if g not in adj.get(s, ()):
            return 'entry %d: %d -> %d is not an edge of the network (in edge direction)' % (k, s, g)
        hs, hg = hist[s], hist[g]
        tc = t + 1 if discrete else t
        # source infectious at time t: t lies in a CLOSED interval during which the source has the
        # inducing status (a transmission at exactly the source's own change counts, DESIGN C09)
        ok_src = False
        for i, (ts, ss) in enumerate(hs):
            if ss == inducing:
                te = hs[i + 1][0] if i + 1 < len(hs) else float('inf')
                if (ts <= t or C.close(ts, t)) and (t <= te or C.close(t, te)):
                    ok_src = True; break
        if not ok_src:
            return 'entry %d: source %d does not have the inducing status at time %r (history %r)' % (k, s, t, hs)
        chg = [i for i, x in enumerate(hg) if C.close(x[0], tc) and x[1] == to_status]
        if not chg:
            return 'entry %d: target %d does not change to status %d at %r (history %r)' % (k, g, to_status, tc, hg)
        i = chg[0]
        if i > 0 and hg[i - 1][1] != from_status and not C.close(hg[i - 1][0], tc):
            return 'entry %d: target %d was not in status %d just before (history %r)' % (k, g, from_status, hg)
        targets.setdefault(g, []).append(tc)
    # completeness: every neighbour-induced change after tmin has exactly one sourced entry
    for u, h in hist.items():
        n_inf = sum(1 for i, (t, s) in enumerate(h) if s == to_status and i > 0 and h[i - 1][1] == from_status and t > float(tmin))
        n_src = len([1 for (t, s, g) in trans if g == u and s is not None])
        if n_inf != n_src:
            return 'node %d has %d infections after tmin but %d sourced transmission entries' % (u, n_inf, n_src)
    if sir:
        indeg = {}
        for t, s, g in trans:
            if s is not None:
                indeg[g] = indeg.get(g, 0) + 1
                if indeg[g] > 1: return 'SIR: node %d is infected twice' % g
        # acyclic: follow parents
        parent = {g: s for t, s, g in trans if s is not None}
        for g in parent:
            seen = set(); x = g
            while x in parent:
                if x in seen: return 'SIR transmission tree has a cycle through %d' % g
                seen.add(x); x = parent[x]
            if x not in I0: return 'SIR transmission tree: the root %d of node %d is not initially infected' % (x, g)
    return None
