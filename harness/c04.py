"""C04: trajectories are well-formed (conserved counts, ordered time, one event a step).
Theorems: coq/Props/C04.v (Gillespie_SIR / Gillespie_SIS: every run, every draw script).
Tie: the simulator correspondences (extracted models vs implementation).  Failing-input
search: the Python oracle xcut.wf_traj on the implementation's arrays, for every
simulator library that is built."""
from fractions import Fraction as F
from . import common as C
from . import sim_check as SC
from . import xcut as X

CLAIM_MORE = "ALSO proved, with decidable checkers proved sound, accepted on every model run, extracted and applied to the implementation's own arrays: fast_SIS / fast_nonMarkov_SIS (coq/Props/C04esis.v), the four discrete-time simulators (C04disc.v: every run a chain of status maps per unit step, never crashes, fuel bounds), Gillespie_simple_contagion and Gillespie_complex_contagion (C04gen.v)."

CLAIM = dict(
    text="Machine-checked theorems (coq/Props/C04.v, closed under the global context): for Gillespie_SIR and Gillespie_SIS, for EVERY graph, rates, weights, "
         "initial sets, tmin/tmax and EVERY draw script, the returned rows start at tmin, have non-decreasing times strictly below tmax, are censuses of a status "
         "map (non-negative, summing to N), consecutive rows differ by exactly one legal move, SIR moves never raise S or lower R, an unbounded run with positive "
         "recovery rates ends without infected nodes, and no run ends in a Python-level failure. The same is proved for the event-driven fast_nonMarkov_SIR / fast_SIR loop "
         "(coq/Props/C04esir.v: for every tie policy the rows are a `traj`, the running census of the run's event log; first row as requested for the code's heap order) "
         "and its decidable checker wf_trajb (proved sound, accepted on every model run) is extracted and applied to the implementation's own arrays. "
         "The other simulators are covered as their models are built (evidence lists which). Tie: per-simulator extracted-model/implementation correspondence; search: a Python well-formedness oracle on every simulator's arrays.",
    design='DESIGN.md section 4, C04',
    technique='Coq proof (trajectory invariant by induction over the event loop, for every draw script) + extracted-model/implementation correspondence + output oracle',
    note="Simulator by simulator: the theorem list in the evidence says which simulators are proved; for the others this check runs the output oracle and their own correspondence only.")


def gil_oracle(case, impl, m):
    if impl['status'] != 'OK':
        if impl['status'] == 'EXC' and not (case['rho'] is not None and case['i0'] is not None) and impl['err'] != 'ValueError':
            return [('crash', 'raised %s on a valid input' % impl['err'])]
        return []
    gc = case['gc']; N = len(gc.order)
    sir = case['kind'] == 'SIR'
    G = gc.G
    posrec = case['gamma'] > 0 and (gc.nwl is None or all(G.nodes[u][gc.nwl] > 0 for u in gc.order))
    d = X.wf_traj(impl['rows'], case['tmin'], case['tmax'], N, X.SIR_MOVES if sir else X.SIS_MOVES, True,
                  final_no_infected=(case['tmax'] is None and posrec and m['status'] == 'OK'))
    return [('wf_traj', d)] if d else []


def run(run, tier):
    EoN = C.import_eon()
    import EoN.simulation as sim
    props = C.check_props('C04')
    per = {}
    total = SC.Result()
    # --- Gillespie_SIR / Gillespie_SIS
    from . import gil_lib as GL
    ok, log = C.build_driver(GL.COMP)
    if not ok:
        run.violation('C04/build', 'extracted model does not build: ' + log[-500:], {'log': log[-3000:]}, no_input=True)
        C.proof_coverage(run, props, 1, 0, 'build failed', [log[-300:]]); return
    rng = run.rng
    for kind in ('SIR', 'SIS'):
        res = SC.Result()
        n = 1500 if tier == 'quick' else 20000
        cases = [GL.gen_case(rng, kind, nmax=8, malformed=False) for i in range(n)]
        # rates incl. 0, isolated nodes and tiny graphs are in the generator; add tmax close to tmin
        for i, c in enumerate(cases):
            if i % 7 == 0 and c['tmax'] is not None: c['tmax'] = c['tmin'] + F(1, 4)
        SC.run_cases(GL, EoN, sim, cases, ['W ' + GL.R.ent_tokens(rng) for _ in cases], gil_oracle,
                     lambda case, m, impl: m['status'] == 'OK' and len(m.get('rows', [])) >= 2, res, 'Gillespie_' + kind)
        ex = GL.exhaustive_cases(kind, 3, rng)[::2 if tier == 'quick' else 1]
        SC.run_cases(GL, EoN, sim, ex, ['A %d %d 2 %s %s' % (30 if kind == 'SIR' else 12, 40, C.qtok(F(1, 2)), C.qtok(F(2))) for _ in ex], gil_oracle,
                     lambda case, m, impl: m['status'] == 'OK' and len(m.get('rows', [])) >= 2, res, 'Gillespie_%s_exhaustive' % kind)
        SC.report(run, 'C04', 'Gillespie_' + kind, res, 'Model/Gillespie.v', 'Props/C04.v')
        per['Gillespie_' + kind] = {'proved': True, 'cases': res.n, 'mismatches': len(res.mism), 'oracle_failures': len(res.oracle_bad), 'distribution': res.stats}
        total.n += res.n; total.nontrivial += res.nontrivial; total.distinct |= res.distinct; total.samples += res.samples[:2]
    # --- graphs with self-loops (legal networkx input; raw configuration_model output has them; the Markovian simulators have code for
    # them): seeded real randomness, both return modes, judged by the trajectory oracle on the arrays
    import random as pyrandom, numpy as np, networkx as nx
    from . import simrun as R_
    nloops = 0
    for name in ('Gillespie_SIR', 'Gillespie_SIS', 'fast_SIR', 'fast_SIS'):
        for i in range(40 if tier == 'quick' else 600):
            gc = R_.gen_graph(rng, nmax=8, nmin=2, ewl=rng.choice([None, 'tw']), nwl=None, zero_w=False)
            G = gc.G
            for u in rng.sample(gc.order, min(rng.randint(1, 2), len(gc.order))):
                G.add_edge(u, u)
                if gc.ewl: G.adj[u][u][gc.ewl] = 1.0
            sel = rng.sample(gc.order, rng.randint(1, min(2, len(gc.order)))); tmin = rng.choice([0, 1.5, -2]); full = bool(i % 2)
            seed = rng.randrange(10 ** 6); pyrandom.seed(seed); np.random.seed(seed)
            sir = name.endswith('SIR'); tmax = tmin + rng.choice([2.0, 4.0])
            try:
                out = getattr(EoN, name)(G, 1.0, 1.0, initial_infecteds=sel, tmin=tmin, tmax=tmax, transmission_weight=gc.ewl, return_full_data=full)
                cols = [out.t(), out.S(), out.I()] + ([out.R()] if sir else []) if full else list(out)
                rows = R_.canon_arrays(cols)
                d = X.wf_traj(rows, tmin, tmax, len(gc.order), X.SIR_MOVES if sir else X.SIS_MOVES, True)
            except Exception as e:
                d = 'raised %s: %s' % (type(e).__name__, str(e)[:80])
            nloops += 1
            if d:
                run.violation('C04/%s/self-loops' % name, '%s on a graph with self-loops (seed %d, %s): %s' % (name, seed, 'full data' if full else 'arrays', d),
                              {'entry': name, 'kind': 'selfloop', 'graph': gc.to_json(), 'loops': [repr(u) for u, v in nx.selfloop_edges(G)], 'i0': [repr(u) for u in sel], 'tmin': tmin, 'tmax': tmax, 'seed': seed, 'full': full})
                break
    per['self-loop graphs (seeded real random)'] = {'runs': nloops}
    # --- other simulator libraries, as they are built
    from . import xsim
    xsim.run_others(run, 'C04', EoN, sim, tier, per, total, 'wf_traj')
    from . import esirx
    esirx.part(run, tier, 'C04', props, per)
    C.extra_props(run, 'C04', props, ['C04esis'])
    from . import discx; discx.part(run, tier, 'C04', props, per)
    from . import genx; genx.part(run, tier, 'C04', props, per)
    if not props['ok']:
        run.violation('C04/proof', 'Props/C04.v no longer checks: %s' % props['log'][-400:], {'broken': 'coq/Props/C04.v', 'log': props['log']}, no_input=True)
    C.proof_coverage(run, props, total.n, min(len(total.distinct), total.nontrivial),
                     'per simulator: random graphs <=8 nodes (isolated nodes, tiny graphs), rates incl. 0, tmin in {0,5/2,-3/2,..}, finite (also tmin+1/4) and infinite tmax, '
                     'weight options, initial sets incl. empty, both return modes, draw scripts chosen by the model; plus every path on graphs <=3 nodes. Non-trivial = at least one event.',
                     total.samples, {'simulators': per})


def replay(rp):
    if rp['replay'].get('genx'):
        from . import genx
        return genx.replay(rp)
    if rp['replay'].get('discx'):
        from . import discx
        return discx.replay(rp)
    if rp['replay'].get('checker'):
        from . import esirx
        return esirx.replay(rp)
    from . import gil_lib as GL
    j = rp['replay']
    if j.get('entry', '').startswith('Gillespie'):
        EoN = C.import_eon(); import EoN.simulation as sim
        case = GL.case_from_json(j); draws = [F(x) for x in j.get('draws', [])]
        impl = GL.run_impl(EoN, sim, case, draws)
        bad = gil_oracle(case, impl, {'status': 'OK', 'draws': draws})
        print('implementation rows:', impl.get('rows'), impl.get('err')); print('oracle verdict:', bad or 'holds')
        return 1 if bad else 0
    from . import xsim
    return xsim.replay(rp)
