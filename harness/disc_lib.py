"""Discrete-time simulators (discrete_SIR, basic_discrete_SIR, basic_discrete_SIS,
percolation_based_discrete_SIR, percolate_network): case generation, model lines for the
`disc` driver, running the implementation, comparison, L0 oracles.

The code iterates Python sets, so the order in which its Bernoulli draws are consumed is
hash order.  The tie is therefore made order-insensitive (DESIGN C12): every transmission
test is answered from a table keyed by (u, v, a) -- for discrete_SIR through a user rule
`test_transmission=lambda u, v: table[...]`, for the p-based functions through a stand-in
for the module `random` whose .random() reads u, v from the caller's frame and answers
p -/+ 2^-30 -- and random.choice(infector[v]) is answered by a rank keyed by (step, v).
Same interface as gil_lib (COMP, gen_case, model_line, run_impl, compare, case_json,
case_from_json, oracles).  Statuses: 0=S, 1=I, 2=R."""
import sys
from fractions import Fraction as F
from . import common as C
from . import simrun as R

COMP = 'disc'
CODE = {'S': 0, 'I': 1, 'R': 2}
KINDS = ('DSIR', 'BSIR', 'SIS', 'PSIR')
ENTRY = {'DSIR': 'discrete_SIR', 'BSIR': 'basic_discrete_SIR', 'SIS': 'basic_discrete_SIS',
         'PSIR': 'percolation_based_discrete_SIR', 'PERC': 'percolate_network'}
EPS = F(1, 2 ** 30)
FUEL = 80


# ------------------------------------------------------------------ cases ----
def arcs_of(gc):
    im = gc.idmap
    return [(im[u], im[v]) for u in gc.order for v in gc.G.neighbors(u)]


def gen_table(rng, gc, cap, sym=False, density=None):
    d = density if density is not None else rng.choice([0, .25, .5, .5, .75, 1])
    tt = set()
    for (u, v) in arcs_of(gc):
        for a in range(cap):
            if sym and u > v: continue
            if rng.random() < d:
                tt.add((u, v, a))
                if sym: tt.add((v, u, a))
    return tt


def full_table(gc, cap):
    return {(u, v, a) for (u, v) in arcs_of(gc) for a in range(cap)}


def gen_case(rng, kind, nmax=7, malformed=False, directed=None):
    if directed is None:
        directed = kind != 'PSIR' and rng.random() < 0.3
    gc = R.gen_graph(rng, nmax=nmax, directed=directed)
    n = len(gc.order)
    tmin = F(rng.choice([0, 0, 0, 5, -3]), rng.choice([1, 1, 2]))
    case = {'kind': kind, 'gc': gc, 'full': rng.random() < 0.5, 'tmin': tmin, 'rho': None, 'r0': None,
            'i0_form': 'list', 'rec': None, 'rule': 'table', 'order': None,
            'pick': (rng.randint(0, 5), rng.randint(0, 3), rng.randint(0, 3))}
    # horizon: integer number of steps (the property's domain); a few non-integer ones for the tie
    r = rng.random()
    if kind == 'SIS':
        case['tmax'] = tmin + rng.randint(1, 6) if r < 0.9 else tmin + F(rng.randint(1, 9), 2)
    else:
        case['tmax'] = None if r < 0.45 else (tmin + rng.randint(1, 5) if r < 0.9 else tmin + F(rng.randint(1, 9), 2))
    # recovery rule (discrete_SIR only)
    cap = 1
    if kind == 'DSIR' and rng.random() < 0.4:
        rcap = rng.randint(1, 3)
        rt = {(u, a) for u in range(n) for a in range(rcap) if rng.random() < 0.5}
        if case['tmax'] is None or rng.random() < 0.5:
            rt |= {(u, rcap - 1) for u in range(n)}             # every node recovers eventually
        case['rec'] = {'cap': rcap, 'true': rt}
        cap = rng.choice([1, rcap])
    if kind == 'SIS':
        cap = 8
    case['cap'] = cap
    case['tt'] = gen_table(rng, gc, cap, sym=(kind == 'PSIR'))
    if kind == 'DSIR':
        case['rule'] = rng.choice(['table', 'table', 'default'])
    # p: the outcomes must be possible under p
    allt = full_table(gc, cap)
    ps = [F(1, 4), F(1, 2), F(3, 4), F(3, 8)]
    if not case['tt']: ps += [F(0)] * 3
    if case['tt'] == allt: ps += [F(1)] * 3
    case['p'] = rng.choice(ps)
    r = rng.random()
    if malformed and r < 0.5:
        case['i0'] = [gc.order[0]]; case['rho'] = F(1, 4)
    elif r < 0.12:
        case['i0'] = None; case['rho'] = rng.choice([None, None, F(1, 4), F(1, 2), F(3, 8), F(1)])
        if kind != 'SIS' and case['rho'] is not None and rng.random() < 0.4:
            # rho together with initial_recovereds: rejected with EoNError (model and code)
            case['r0'] = rng.sample(gc.order, min(n, rng.randint(0, 2)))
        elif kind != 'SIS' and case['rho'] is None and rng.random() < 0.6:
            # neither rho nor initial_infecteds, initial_recovereds given: the single index node is drawn among the
            # nodes that are not initially recovered (all of them recovered: ValueError)
            case['r0'] = rng.sample(gc.order, rng.choice([0, 1, 2, n - 1, n]) if n > 1 else rng.choice([0, 1]))
    else:
        k = rng.randint(1, min(3, n)) if rng.random() < 0.95 else 0
        sel = rng.sample(gc.order, k)
        case['i0'] = sel
        case['i0_form'] = rng.choice(['list', 'tuple', 'set', 'single'] if k == 1 else ['list', 'tuple', 'set', 'dictkeys'])
        if kind != 'SIS' and rng.random() < 0.35:
            rest = [u for u in gc.order if u not in sel]
            case['r0'] = rng.sample(rest, min(len(rest), rng.randint(0, 2)))
    return case


def rules_tokens(case, prob=False):
    if prob:
        return 'P ' + C.qtok(case['p'])
    tt = sorted(case['tt'])
    return 'T %d %d %s %d %d %d' % (case['cap'], len(tt), ' '.join('%d %d %d' % x for x in tt), *case['pick'])


def model_line(case, mode, prob=False, order=None):
    gc = case['gc']; im = gc.idmap
    nl = lambda l: '0' if l is None else '1 %d %s' % (len(l), ' '.join(str(im[u]) for u in l))
    rec = case.get('rec')
    if rec is None or case['kind'] != 'DSIR': rt = '0'
    else:
        rs = sorted(rec['true']); rt = '1 %d %d %s' % (rec['cap'], len(rs), ' '.join('%d %d' % x for x in rs))
    order = order if order is not None else (case.get('order') or [])
    ot = '%d %s' % (len(order), ' '.join('%d %s' % (len(l), ' '.join(map(str, l))) for l in order))
    if case['kind'] == 'PERC':
        return ' '.join(['PERC', gc.tokens(), rules_tokens(case, prob), mode])
    return ' '.join([case['kind'], gc.tokens(), rules_tokens(case, prob), rt, ot, nl(case['i0']),
                     nl(case['r0'] if case['kind'] != 'SIS' else None), R.opt_q(case['rho']), C.qtok(case['tmin']),
                     R.opt_q(case['tmax']), '1' if case['full'] else '0', str(FUEL), mode])


def shape_i0(case):
    i0 = case['i0']
    if i0 is None: return None
    f = case['i0_form']
    if f == 'single': return i0[0]
    if f == 'tuple': return tuple(i0)
    if f == 'set': return set(i0)
    if f == 'dictkeys': return {u: 1 for u in i0}.keys()
    return list(i0)


# ------------------------------------------------- keyed random source ----
class Runaway(Exception):
    """the implementation did not stop (far more calls than any run of the property's domain makes,
    or no return within the time limit)"""


LIMIT_CALLS = 20000
LIMIT_SECONDS = 10.0      # CPU seconds of this process (ITIMER_PROF): wall-clock time would make the verdict depend on the load of the machine


def _alarm(sig, frm):
    raise Runaway()


class Keyed(R.Scripted):
    """stand-in for the module `random`: .random() and .choice() are answered from tables keyed
    by what the caller is working on (read from its frame), .sample() from the draw script.
    Every call is logged: qlog (step, u, v, answer) for transmission tests, plog (step, v,
    candidates, rank) for choices, rlog (step, u, answer) for recovery tests, `calls` =
    everything in call order with the value returned."""
    def __init__(self, draws, case):
        super().__init__(draws, case['gc'].idmap)
        self.case = case; self.tt = case['tt']; self.cap = case['cap']; self.p = case['p']
        self.age = {}; self.qlog = []; self.plog = []; self.rlog = []; self.calls = []; self.hlog = []

    def lookup(self, u, v, a):
        return (self.idmap[u], self.idmap[v], min(a, self.cap - 1)) in self.tt

    def answer(self, step, u, v, a):
        b = self.lookup(u, v, a)
        self.qlog.append((step, self.idmap[u], self.idmap[v], b))
        if len(self.qlog) > LIMIT_CALLS: raise Runaway()
        return b

    def random(self):
        f = sys._getframe(1); name = f.f_code.co_name; loc = f.f_locals
        if name == '_simple_test_transmission_':
            u, v = loc['u'], loc['v']; step = len(f.f_back.f_locals['t']) - 1
            b = self.answer(step, u, v, self.age.get(u, 0))
        elif name == 'basic_discrete_SIS':
            u, v = loc['u'], loc['v']; step = len(loc['t']) - 1
            b = self.answer(step, u, v, step)
        elif name == 'percolate_network':
            u, v = loc['edge'][0], loc['edge'][1]
            b = self.answer(0, u, v, 0)
        else:
            raise RuntimeError('random.random() called from unexpected function %s' % name)
        x = self.p - EPS if b else self.p + EPS
        self.calls.append(('U', x))
        return float(x)

    def choice(self, seq):
        f = sys._getframe(1); loc = f.f_locals
        seq = list(seq)
        ss = sorted(seq, key=self.key)
        if f.f_code.co_name not in ('discrete_SIR', 'basic_discrete_SIS') or not ss:
            raise RuntimeError('random.choice(%r) called from unexpected place %s' % (seq, f.f_code.co_name))
        v = loc['v']; step = len(loc['t']) - 1
        c0, c1, c2 = self.case['pick']
        rank = (c0 + c1 * step + c2 * self.idmap[v]) % len(ss)
        self.plog.append((step, self.idmap[v], [self.idmap[x] for x in ss], rank))
        self.calls.append(('P', [self.key(x) for x in ss], rank))
        return ss[rank]

    def sample(self, pop, k):
        r = super().sample(pop, k)
        self.calls.append(('S', self.log[-1][1], self.log[-1][2], self.d[self.i - 1]))
        return r

    # user rules for discrete_SIR
    def user_tt(self, u, v):
        step = len(sys._getframe(1).f_locals['t']) - 1
        return self.answer(step, u, v, self.age.get(u, 0))

    def user_rec(self, u):
        rec = self.case['rec']
        step = len(sys._getframe(1).f_locals['t']) - 1
        a = self.age.get(u, 0); self.age[u] = a + 1
        b = (self.idmap[u], min(a, rec['cap'] - 1)) in rec['true']
        self.rlog.append((step, self.idmap[u], b))
        if len(self.rlog) > LIMIT_CALLS: raise Runaway()
        return b


class patch_has_edge:
    """percolation_based_discrete_SIR hands H.has_edge to discrete_SIR as the transmission rule:
    log those calls (step, u, v, answer) so that the iteration order of the run is observable"""
    def __init__(self, s):
        self.s = s

    def __enter__(self):
        import networkx as nx
        self.nx = nx; self.old = old = nx.Graph.has_edge; s = self.s

        def has_edge(G, u, v):
            r = old(G, u, v)
            f = sys._getframe(1)
            if f.f_code.co_name == 'discrete_SIR' and 't' in f.f_locals:
                s.hlog.append((len(f.f_locals['t']) - 1, s.idmap[u], s.idmap[v], r))
                if len(s.hlog) > LIMIT_CALLS: raise Runaway()
            return r
        nx.Graph.has_edge = has_edge

    def __exit__(self, *a):
        self.nx.Graph.has_edge = self.old
        return False


def call_impl(EoN, case, s, full=None):
    gc = case['gc']; kind = case['kind']
    kw = dict(initial_infecteds=shape_i0(case), rho=None if case['rho'] is None else float(case['rho']),
              tmin=float(case['tmin']), return_full_data=case['full'] if full is None else full)
    if case['tmax'] is not None: kw['tmax'] = float(case['tmax'])
    elif kind == 'SIS': raise ValueError('SIS needs a finite horizon')
    if kind != 'SIS' and case['r0'] is not None: kw['initial_recovereds'] = list(case['r0'])
    p = float(case['p'])
    if kind == 'DSIR':
        if case.get('rec') is not None: kw['test_recovery'] = s.user_rec
        if case['rule'] == 'default':
            return EoN.discrete_SIR(gc.G, args=(p,), **kw)
        return EoN.discrete_SIR(gc.G, test_transmission=s.user_tt, **kw)
    if kind == 'BSIR': return EoN.basic_discrete_SIR(gc.G, p, **kw)
    if kind == 'SIS': return EoN.basic_discrete_SIS(gc.G, p, **kw)
    if kind == 'PSIR':
        with patch_has_edge(s):
            return EoN.percolation_based_discrete_SIR(gc.G, p, **kw)
    if kind == 'PERC': return EoN.percolate_network(gc.G, p)
    raise ValueError(kind)


def run_impl(EoN, sim, case, draws, full=None):
    import signal
    gc = case['gc']
    s = Keyed(draws, case)
    old = signal.signal(signal.SIGPROF, _alarm); signal.setitimer(signal.ITIMER_PROF, LIMIT_SECONDS)
    try:
        if case['kind'] == 'PERC':
            st, val = R.run_impl(lambda: EoN.percolate_network(gc.G, float(case['p'])), s, sim)
        else:
            st, val = R.run_impl(lambda: call_impl(EoN, case, s, full), s, sim)
    except Runaway:
        st, val = 'EXC', 'Runaway'
    finally:
        signal.setitimer(signal.ITIMER_PROF, 0); signal.signal(signal.SIGPROF, old)
    out = {'status': st, 'log': s.log, 'used': s.i, 'qlog': s.qlog, 'plog': s.plog, 'rlog': s.rlog, 'calls': s.calls, 'hlog': s.hlog}
    if st == 'EXC': out['err'] = val
    if st == 'OK' and case['kind'] == 'PERC':
        H = val
        out['nodes'] = [gc.idmap.get(u, repr(u)) for u in H.nodes()]
        out['adj'] = {gc.idmap[u]: [gc.idmap[v] for v in H.neighbors(u)] for u in H.nodes() if u in gc.idmap}
        out['directed'] = H.is_directed()
    elif st == 'OK':
        isfull = case['full'] if full is None else full
        if isfull:
            inv = val
            out['hist'], out['trans'] = R.canon_full(inv, gc, CODE)
            try:
                cols = [inv.t(), inv.S(), inv.I()] + ([inv.R()] if case['kind'] != 'SIS' else [])
                out['rows'] = R.canon_arrays(cols); out['rows_from'] = 'summary'
            except Exception as e:
                out['rows'] = 'EXC ' + type(e).__name__
            out['inv'] = inv
        else:
            out['rows'] = R.canon_arrays(val)
    return out


# ------------------------------------------------------------- comparison ----
def integer_horizon(case):
    return case['tmax'] is None or (case['tmax'] - case['tmin']).denominator == 1


def sort_trans(l):
    return sorted(l, key=lambda e: (float(e[0]), e[2]))


def qsummary(qlog):
    """order-insensitive content of a query log (step, u, v[, answer]) given the answers:
    without full data the code stops asking about v once v is infected, so only the set of
    targets asked about per step is invariant"""
    return sorted({(e[0], e[2]) for e in qlog})


def parse_logs(m):
    ex = m.get('extra', {})
    q = []
    for t in ex.get('QLOG', []):
        k, rest = t.split(':'); u, v = rest.split('>'); q.append((int(k), int(u), int(v)))
    p = []
    for t in ex.get('PLOG', []):
        k, rest = t.split(':'); v, c = rest.split('='); p.append((int(k), int(v), [int(x) for x in c.split(',') if x != '']))
    r = []
    for t in ex.get('RLOG', []):
        k, u = t.split(':'); r.append((int(k), int(u)))
    return q, p, r


def rows_equal_summary(impl_rows, model_rows):
    """full data: the rows come from Simulation_Investigation.summary(), which has a row only at
    times where some node changes status; the model's rows are the arrays the code keeps"""
    if isinstance(impl_rows, tuple) and impl_rows and impl_rows[0] == 'RAGGED':
        return 'implementation arrays have different lengths %r' % (impl_rows[1],)
    times = [t for t, _ in impl_rows]
    keep = []
    for i, (t, c) in enumerate(model_rows):
        if i > 0 and list(c) == list(model_rows[i - 1][1]) and not any(C.close(t2, float(t)) for t2 in times):
            continue
        keep.append((t, c))
    return R.rows_equal(impl_rows, keep)


def compare(case, m, impl):
    """None when model and implementation agree (sample trace, outputs, order-insensitive logs)"""
    if m['status'] == 'DRIVERFAIL':
        return 'model driver failure: %r' % (m.get('raw'),)
    d = R.compare_trace(impl['log'], [c for c in m['trace'] if c[0] == 'S'])
    if d: return d
    if m['status'] == 'ERR':
        if m['err'] in ('OutOfDraws', 'OutOfFuel'):
            return None if impl['status'] in ('OUT', 'OK') else 'model %s, implementation raised %s' % (m['err'], impl.get('err'))
        if impl['status'] != 'EXC' or R.ERRMAP.get(impl['err'], impl['err']) != m['err']:
            return 'model raises %s, implementation %s %s' % (m['err'], impl['status'], impl.get('err', ''))
        return None
    if impl['status'] != 'OK':
        return 'model returns, implementation %s %s' % (impl['status'], impl.get('err', ''))
    if case['kind'] == 'PERC':
        ex = m.get('extra', {})
        nodes = [int(x) for x in ex.get('NODES', [])]
        adj = {int(t.split('=')[0]): [int(x) for x in t.split('=')[1].split(',') if x != ''] for t in ex.get('ADJ', [])}
        if impl['directed']: return 'percolate_network returned a directed graph'
        if nodes != impl['nodes']: return 'nodes of the percolated graph: implementation %r, model %r' % (impl['nodes'], nodes)
        if adj != impl['adj']: return 'adjacency of the percolated graph: implementation %r, model %r' % (impl['adj'], adj)
        mq, _, _ = parse_logs(m)
        if [(e[1], e[2]) for e in impl['qlog']] != [(e[1], e[2]) for e in mq]:
            return 'edges examined: implementation %r, model %r' % (impl['qlog'], mq)
        return None
    if isinstance(impl['rows'], str):
        return 'implementation arrays: ' + impl['rows']
    if 'hist' in m:
        if 'hist' not in impl: return 'model has full data, implementation has not'
        d = R.hist_equal(impl['hist'], m['hist'])
        if d: return d
        if isinstance(impl['trans'], str): return 'transmissions(): ' + impl['trans']
        d = R.trans_equal(sort_trans(impl['trans']), sort_trans(m['trans']))
        if d: return d
        if integer_horizon(case):
            d = rows_equal_summary(impl['rows'], m['rows'])
            if d: return 'summary(): ' + d
    else:
        d = R.rows_equal(impl['rows'], m['rows'])
        if d: return d
    mq, mp, mr = parse_logs(m)
    if case['kind'] == 'PSIR':
        ne = len(impl['qlog'])
        if [(e[1], e[2]) for e in impl['qlog']] != [(e[1], e[2]) for e in mq[:ne]]:
            return 'edges examined by percolate_network: implementation %r, model %r' % (impl['qlog'], mq[:ne])
        a = sorted((e[0], e[1], e[2]) for e in impl['hlog']); b = sorted(mq[ne:])
        if 'hist' not in m: a = qsummary(a); b = qsummary(b)
        if a != b: return 'H.has_edge tests made by discrete_SIR: implementation %r, model %r' % (a, b)
    elif 'hist' in m:
        a = sorted((e[0], e[1], e[2]) for e in impl['qlog']); b = sorted(mq)
        if a != b: return 'transmission tests made (step,u,v): implementation %r, model %r' % (a, b)
    else:
        a = qsummary(impl['qlog']); b = qsummary(mq)
        if a != b: return 'targets of transmission tests (step,v): implementation %r, model %r' % (a, b)
    a = sorted((e[0], e[1], e[2]) for e in impl['plog']); b = sorted(mp)
    if a != b: return 'candidates given to random.choice (step,v,candidates): implementation %r, model %r' % (a, b)
    a = sorted((e[0], e[1]) for e in impl['rlog']); b = sorted(mr)
    if a != b: return 'test_recovery calls (step,u): implementation %r, model %r' % (a, b)
    return None


def case_json(case, draws=None):
    j = {'kind': case['kind'], 'graph': case['gc'].to_json(), 'p': str(case['p']), 'rule': case.get('rule', 'table'),
         'tt': sorted(case['tt']), 'cap': case['cap'], 'pick': list(case['pick']),
         'rec': None if case.get('rec') is None else {'cap': case['rec']['cap'], 'true': sorted(case['rec']['true'])},
         'i0': None if case.get('i0') is None else [repr(u) for u in case['i0']], 'i0_form': case.get('i0_form', 'list'),
         'r0': None if case.get('r0') is None else [repr(u) for u in case['r0']],
         'rho': None if case.get('rho') is None else str(case['rho']), 'tmin': str(case.get('tmin', 0)),
         'tmax': None if case.get('tmax') is None else str(case['tmax']), 'full': case.get('full', False)}
    if draws is not None: j['draws'] = [str(d) for d in draws]
    return j


def case_from_json(j):
    ev = lambda l: None if l is None else [eval(x) for x in l]
    fq = lambda x: None if x is None else F(x)
    return {'kind': j['kind'], 'gc': R.GraphCase.from_json(j['graph']), 'p': F(j['p']), 'rule': j['rule'],
            'tt': {tuple(x) for x in j['tt']}, 'cap': j['cap'], 'pick': tuple(j['pick']),
            'rec': None if j['rec'] is None else {'cap': j['rec']['cap'], 'true': {tuple(x) for x in j['rec']['true']}},
            'i0': ev(j['i0']), 'i0_form': j['i0_form'], 'r0': ev(j['r0']), 'rho': fq(j['rho']), 'tmin': F(j['tmin']),
            'tmax': fq(j['tmax']), 'full': j['full'], 'order': None}


# ---------------------------------------------------------------- L0 oracles ----
def initial_sets(case, impl, m):
    """ids of the initially infected / recovered nodes; for the rho path they are read off the
    sample call of the implementation's own trace and the draw"""
    gc = case['gc']; im = gc.idmap; n = len(gc.order)
    if case['i0'] is None:
        k = 1 if case['rho'] is None else int(round(n * float(case['rho'])))
        log = impl['log']
        # the random index nodes are drawn among the nodes that are not initially recovered, in graph order
        excl = {im[u] for u in (case['r0'] or [])} if case['kind'] != 'SIS' else set()
        want = [(i,) for i in range(n) if i not in excl]
        if not log or log[0][0] != 'S' or log[0][1] != k or sorted(log[0][2]) != want:
            return None, None, 'initial infected nodes not drawn as random.sample(nodes that are not initially recovered, %d): %r' % (k, log[:1])
        if k > len(want) or k < 0: return None, None, None
        draws = m['draws'] if m else []
        r = int(draws[0])
        if r >= len(want): r = 0        # as simrun.Scripted.sample / exec's rotate
        pop = sorted(log[0][2]); I0 = [x[0] for x in (pop[r:] + pop[:r])[:k]]
    else:
        I0 = [im[u] for u in case['i0']]
    R0 = [im[u] for u in (case['r0'] or [])] if case['kind'] != 'SIS' else []
    return I0, R0, None


def bfs_levels(n, succ, I0, removed):
    """plain breadth-first search: level of every node reachable from I0 in the digraph succ
    with the nodes `removed` deleted"""
    level = {u: 0 for u in I0}
    frontier = list(I0); d = 0
    while frontier:
        nxt = []
        for u in frontier:
            for v in succ(u):
                if v not in level and v not in removed:
                    level[v] = d + 1; nxt.append(v)
        frontier = nxt; d += 1
    return level


def oracle_bfs(case, impl, m=None):
    """The property, independently of the Coq model: SIR runs whose transmission rule is a
    function of the pair (u,v) -- v is infected at tmin + BFS distance from the initially
    infected set in the digraph of successful contacts with the initially recovered nodes
    removed; with test_recovery absent it is infectious for exactly one step; rows are the
    level sizes and sum to N; recorded transmissions come from an infectious neighbour with a
    successful contact one step earlier.  SIS runs: generation semantics.  Then the
    reconstruction of the step law from the implementation's own queries."""
    bad = []
    kind = case['kind']
    if impl['status'] == 'OUT': return bad
    if case['rho'] is not None and case['i0'] is not None:
        if not (impl['status'] == 'EXC' and impl['err'] == 'EoNError'):
            bad.append(('rho+initial_infecteds', 'giving both rho and initial_infecteds was not rejected with EoNError (got %s %s)' % (impl['status'], impl.get('err'))))
        return bad
    if case['rho'] is not None and case['r0'] is not None and kind != 'SIS':
        if not (impl['status'] == 'EXC' and impl['err'] == 'EoNError'):
            bad.append(('rho+initial_recovereds', 'giving both rho and initial_recovereds was not rejected with EoNError (got %s %s)' % (impl['status'], impl.get('err'))))
        return bad
    gc = case['gc']; G = gc.G; im = gc.idmap; n = len(gc.order)
    I0, R0, err = initial_sets(case, impl, m)
    if err: return [('rho/sample', err)]
    if I0 is None:
        if impl['status'] != 'EXC' or impl['err'] != 'ValueError':
            bad.append(('rho/sample', 'sample larger than the population was not a ValueError'))
        return bad
    if impl['status'] == 'EXC':
        if impl['err'] == 'Runaway':
            return [('termination', 'the run did not stop (more than %d transmission tests / %.0f s)' % (LIMIT_CALLS, LIMIT_SECONDS))]
        return [('crash', 'raised %s on a valid input' % impl['err'])]
    nbrs = {im[u]: [im[v] for v in G.neighbors(u)] for u in gc.order}
    tt = case['tt']; cap = case['cap']; tmin = case['tmin']; tmax = case['tmax']
    full = 'hist' in impl
    look = lambda u, v, a: (u, v, min(a, cap - 1)) in tt
    rec = case.get('rec') if kind == 'DSIR' else None
    # ---- reference generations (set semantics) ----
    gens = []          # per step k: (I_k sorted, new_k sorted, recovered_k sorted)
    if kind == 'SIS':
        I = set(I0); k = 0
        while I and (tmin + k < tmax):
            new = {v for u in I for v in nbrs[u] if v not in I and look(u, v, k)}
            gens.append((sorted(I), sorted(new), sorted(I))); I = new; k += 1
        exp_rows = [(tmin, [n - len(I0), len(I0)])]
        for j, (Ik, new, _) in enumerate(gens):
            exp_rows.append((tmin + j + 1, [n - len(new), len(new)]))
    else:
        S = set(range(n)) - set(I0) - set(R0); I = set(I0); age = {}; k = 0; nR = len(R0)
        exp_rows = [(tmin, [len(S), len(I0), nR])]
        while I and (tmax is None or tmin + k < tmax):
            if k > 3 * FUEL: return bad                       # a rule that never recovers, no horizon
            new = {v for u in I for v in nbrs[u] if v in S and look(u, v, age.get(u, 0))}
            if rec is None: gone = set(I)
            else:
                gone = {u for u in I if (u, min(age.get(u, 0), rec['cap'] - 1)) in rec['true']}
                for u in I: age[u] = age.get(u, 0) + 1
            gens.append((sorted(I), sorted(new), sorted(gone)))
            S -= new; nR += len(gone); I = (I - gone) | new; k += 1
            exp_rows.append((tmin + k, [len(S), len(I), nR]))
    rows = impl['rows']
    if isinstance(rows, str): return [('summary', 'summary() of the returned object failed: ' + rows)]
    if not full:
        d = R.rows_equal(rows, exp_rows)
        if d: bad.append(('rows', 'returned arrays differ from the generation-by-generation dynamics on the table of successful contacts: ' + d))
    elif integer_horizon(case):
        d = rows_equal_summary(rows, exp_rows)
        if d: bad.append(('rows-full', 'summary() differs from the generation-by-generation dynamics: ' + d))
    if not isinstance(rows, tuple):
        for t, c in rows:
            if sum(c) != n:
                bad.append(('conservation', 'row at t=%s has counts %r, not summing to N=%d' % (t, c, n))); break
    # ---- BFS characterisation (rule a function of the pair) ----
    pure = kind != 'SIS' and cap == 1
    if pure:
        level = bfs_levels(n, lambda u: [v for v in nbrs[u] if look(u, v, 0)], I0, set(R0))
        K = len(gens)                                             # steps executed
        for j, (Ik, new, _) in enumerate(gens):
            want = sorted(v for v, d in level.items() if d == j + 1)
            if new != want:
                bad.append(('bfs/reference', 'internal: reference generations disagree with BFS levels')); break
        if full and integer_horizon(case):
            for v in range(n):
                h = impl['hist'].get(v)
                if isinstance(h, str): bad.append(('hist', 'node_history raised ' + h)); break
                ti = [t for t, s in h if s == 1]
                if v in R0: want_i = []
                elif v in level and level[v] <= K: want_i = [float(tmin + level[v])]
                else: want_i = []
                if [float(x) for x in ti] != want_i:
                    bad.append(('bfs/infection-time', 'node %d: infection time(s) %r, BFS distance in the successful-contact digraph gives %r (levels %r)' % (v, ti, want_i, level))); break
                if rec is None and ti:
                    tr = [t for t, s in h if s == 2]
                    want_r = [ti[0] + 1] if level[v] < K else []
                    if [float(x) for x in tr] != want_r:
                        bad.append(('one-step', 'node %d infected at %r recovers at %r, expected %r' % (v, ti, tr, want_r))); break
    # ---- histories and transmissions against the reference generations ----
    if full and integer_horizon(case) and not bad:
        exp_h = {v: [(tmin, 2 if v in R0 else 1 if v in I0 else 0)] for v in range(n)}
        for j, (Ik, new, gone) in enumerate(gens):
            for v in new: exp_h[v].append((tmin + j + 1, 1))
            for u in gone: exp_h[u].append((tmin + j + 1, 2 if kind != 'SIS' else 0))
        d = R.hist_equal(impl['hist'], exp_h)
        if d: bad.append(('hist', 'node histories differ from the generation dynamics: ' + d))
        tr = impl['trans']
        if isinstance(tr, str): bad.append(('transmissions', 'transmissions() raised ' + tr))
        else:
            exp_t = {(float(tmin - 1), None, u) for u in I0}
            got = set((float(t), s, g) for t, s, g in tr)
            okk = True
            for j, (Ik, new, _) in enumerate(gens):
                for v in new:
                    if kind == 'SIS': c = sorted(u for u in Ik if v in nbrs[u] and look(u, v, j))
                    else:
                        ages = {}
                        c = sorted(u for u in Ik if v in nbrs[u] and look(u, v, _age_at(gens, rec, u, j)))
                    c0, c1, c2 = case['pick']
                    src = c[(c0 + c1 * j + c2 * v) % len(c)]
                    exp_t.add((float(tmin + j), src, v))
            if got != exp_t or len(tr) != len(exp_t):
                bad.append(('transmissions', 'recorded transmissions %r; the generation dynamics with the scripted choices give %r' % (sorted(got, key=str), sorted(exp_t, key=str))))
    # ---- the step law, from the implementation's own queries ----
    bad += oracle_queries(case, impl, gens, nbrs, I0, R0)
    return bad


def _age_at(gens, rec, u, j):
    """number of test_recovery(u) calls completed before step j"""
    if rec is None: return 0
    return sum(1 for i in range(j) if u in gens[i][0])


def oracle_queries(case, impl, gens, nbrs, I0, R0):
    """each infectious-susceptible contact of the current generation is tested exactly once per
    step (until the target is infected, without full data), nothing else is tested"""
    bad = []
    kind = case['kind']
    if kind == 'PSIR':
        G = case['gc'].G; im = case['gc'].idmap
        want = [(im[u], im[v]) for u, v in G.edges()]
        got = [(e[1], e[2]) for e in impl['qlog']]
        if got != want:
            bad.append(('queries', 'percolate_network examined %r; the edges of G are %r' % (got, want)))
        return bad
    n = len(case['gc'].order); full = 'hist' in impl
    S = set(range(n)) - set(I0) - set(R0)
    by_step = {}
    for e in impl['qlog']: by_step.setdefault(e[0], []).append(e)
    if any(k >= len(gens) for k in by_step):
        return [('queries', 'transmission tests at steps %r; only %d steps exist' % (sorted(by_step), len(gens)))]
    for j, (Ik, new, gone) in enumerate(gens):
        q = by_step.get(j, [])
        if kind == 'SIS': contacts = {(u, v) for u in Ik for v in nbrs[u] if v not in Ik}
        else: contacts = {(u, v) for u in Ik for v in nbrs[u] if v in S}
        pairs = [(e[1], e[2]) for e in q]
        if len(set(pairs)) != len(pairs):
            bad.append(('queries', 'step %d: a contact was tested twice: %r' % (j, pairs))); break
        if not set(pairs) <= contacts:
            bad.append(('queries', 'step %d: tested %r which are not infectious-susceptible contacts %r' % (j, sorted(set(pairs) - contacts), sorted(contacts)))); break
        if kind == 'SIS' or full:
            if set(pairs) != contacts:
                bad.append(('queries', 'step %d: contacts %r were never tested' % (j, sorted(contacts - set(pairs))))); break
        else:
            for v in {c[1] for c in contacts}:
                qs = [e for e in q if e[2] == v]
                ans = [e[3] for e in qs]
                if True in ans:
                    if ans.index(True) != len(ans) - 1:
                        bad.append(('queries', 'step %d: node %d was tested again after a successful contact' % (j, v))); break
                elif {(e[1], e[2]) for e in qs} != {c for c in contacts if c[1] == v}:
                    bad.append(('queries', 'step %d: node %d stayed susceptible although contacts %r were never tested' % (j, v, sorted({c for c in contacts if c[1] == v} - {(e[1], e[2]) for e in qs})))); break
            if bad: break
        if kind != 'SIS': S -= set(new)
    return bad


oracle_generator = oracle_bfs      # same name as in gil_lib, for the cross-cutting checks
