"""C16: _ListDict_ — weighted selection stays proportional to weight after any history.
Theorems: coq/Props/C16.v (invariant after every history, refinement to a finite
map, closed-form law of the rejection loop for every fuel).  Tie: white-box
differential test of the class in /repo against the extracted model
(Model/ListDict.v) on enumerated and random operation histories, including the
accept threshold of every candidate.  Failing-input search: an independent
finite-map specification (Python) is evaluated on the implementation."""
import itertools, sys
from fractions import Fraction as F
from . import common as C

CLAIM_MORE = "The clause 'to rounding' is NOW A THEOREM (coq/Props/C16f.v, 26 statements): under |rnd x - x| <= eps|x| the running total satisfies |total - sum of stored weights| <= ((1+eps)^n - 1) * 2 * peak after every history, an emptied structure has total exactly 0, insert stores exactly and an increment is one rounding, stored weights equal the specification when increments create their key; rnd53 (round to nearest even, 53 bits, over Q) is proved to have relative error 2^-53 and to be monotone (coq/Props/C16fm.v), so the binary64 instances — including the accept threshold lying in [0,1] — are unconditional; the model at rnd53 is tied bit for bit to the Python class on binary64 histories."

CLAIM = dict(
    text="Machine-checked theorems (coq/Props/C16.v, closed under the global context) over an executable model of _ListDict_ written as the code is "
         "(item list, position map, weight map, tracked maximum and its miscount, running total): invariant after EVERY history of "
         "insert/update/remove with non-negative weights, refinement to a finite map, closed-form law of the rejection loop for every fuel "
         "(selection probability exactly weight/total, zero weights never selected, total = sum of weights). Tie: white-box differential test "
         "of the class against the extracted model after every operation of enumerated and random histories, including accept thresholds of choose_random.",
    design='DESIGN.md section 4, C16',
    technique='Coq proof (invariant by induction over histories, refinement, closed-form law) + extracted-model/implementation correspondence',
    note="random.choice uniform and random.random uniform on [0,1) are assumed (DESIGN 2.3). Float drift of _total_weight is outside the exact model "
         "(the property says 'to rounding'); weights in the correspondence are Fractions or dyadic floats so arithmetic is exact.")

WEIGHTS = [F(0), F(1), F(2), F(1, 2)]


class OneShot:
    """stand-in for the module `random` during one round of choose_random"""
    def __init__(self, key, u):
        self.key, self.u, self.calls = key, u, 0
    def choice(self, seq):
        self.calls += 1
        if self.calls > 1:
            raise StopIteration('second round')
        if self.key not in seq:
            raise LookupError('key not offered')
        return self.key
    def random(self):
        return self.u


def spec_step(m, op):
    """L1 specification: a finite map key -> weight (unweighted: weight 1)."""
    m = dict(m); k = op[1]
    if op[0] == 'I':
        m.pop(k, None)
        if op[2] != 0: m[k] = op[2]
    elif op[0] == 'U':
        m[k] = m.get(k, 0) + op[2]
    elif op[0] == 'R':
        if k not in m: return None
        del m[k]
    elif op[0] == 'A':
        m.setdefault(k, 1)
    return m


def apply_impl(sim, ld, op, conv):
    if op[0] == 'I': ld.insert(op[1], weight=conv(op[2]))
    elif op[0] == 'U': ld.update(op[1], weight_increment=conv(op[2]))
    elif op[0] == 'R':
        k = op[1]
        # half of the removals of a present, positively weighted candidate go through random_removal() (what the simulators call):
        # the stand-in offers exactly that candidate and an accepting draw, so the result must be the same removal
        if k in ld and len(ld) % 2 == 0 and (not ld.weighted or ld.weight[k] > 0):
            old = sim.random
            sim.random = OneShot(k, 0.0)
            try:
                r = ld.random_removal()
            finally:
                sim.random = old
            if r != k:
                raise AssertionError('random_removal returned %r, the offered and accepted candidate was %r' % (r, k))
        else:
            ld.remove(k)
    elif op[0] == 'A': ld.update(op[1])


def observe(sim, ld, weighted):
    """law-relevant state of the implementation + accept thresholds by probing"""
    items = list(ld.items)
    st = {'keys': sorted(items), 'len': len(ld), 'total': F(ld.total_weight()),
          'member': sorted(k for k in range(8) if k in ld)}
    if weighted:
        st['w'] = {k: F(ld.weight[k]) for k in items}
    return st


_PERSIST = [0]


class AlwaysReject:
    """stand-in that offers the same candidate and a failing accept draw round after round"""
    def __init__(self, key, u, rounds):
        self.key, self.u, self.calls, self.rounds = key, u, 0, rounds
    def choice(self, seq):
        self.calls += 1
        if self.calls > self.rounds:
            raise StopIteration('still rejecting')
        return self.key
    def random(self):
        return self.u


def probe_persistent(sim, ld, key, u, rounds=3000):
    """the rejection loop has no other exit than an accepted candidate: a candidate whose accept test fails every time is never returned"""
    old = sim.random
    sim.random = AlwaysReject(key, float(u), rounds)
    try:
        r = ld.choose_random()
        return 'A %r after %d rejected rounds' % (r, sim.random.calls)
    except StopIteration:
        return 'R'
    except Exception as e:
        return 'X ' + type(e).__name__
    finally:
        sim.random = old


def probe(sim, ld, key, u):
    old = sim.random
    sim.random = OneShot(key, float(u))
    try:
        r = ld.choose_random()
        return 'A %d' % r
    except StopIteration:
        return 'R'
    except Exception as e:
        return 'X ' + type(e).__name__
    finally:
        sim.random = old


def fmt_ops(weighted, ops, probes):
    t = ['LD', '1' if weighted else '0', str(len(ops) + len(probes))]
    for op in ops:
        if op[0] in 'IU': t += [op[0], str(op[1]), C.qtok(op[2])]
        else: t += [op[0], str(op[1])]
    for k, u in probes:
        t += ['C', str(k), C.qtok(u)]
    return ' '.join(t)


def gen_enum(maxlen, keys=(1, 2, 3)):
    """all histories of length <= maxlen; removes only of present keys, plus one absent remove at the end"""
    alphabet = [('I', k, w) for k in keys for w in WEIGHTS] + [('U', k, w) for k in keys for w in WEIGHTS] + [('R', k) for k in keys]
    def rec(prefix, m, n):
        yield prefix
        if n == 0: return
        for op in alphabet:
            m2 = spec_step(m, op)
            if m2 is None: continue
            yield from rec(prefix + [op], m2, n - 1)
    yield from rec([], {}, maxlen)


def gen_random(rng, n, weighted):
    ops = []; m = {}
    nk = rng.randint(2, 7)
    heavy = rng.random() < 0.5
    tiny = rng.random() < 0.15
    for _ in range(n):
        k = rng.randrange(nk)
        r = rng.random()
        w = F(rng.choice([0, 1, 1, 2, 3, 5, 8]), rng.choice([1, 2, 4])) if not heavy else F(rng.choice([0, 1, 7, 7, 7, 9]), rng.choice([1, 1, 2]))
        if tiny: w = w / 2 ** 40          # arbitrary positive weights: also very small ones (all of them, so that sums stay tiny)
        if not weighted:
            op = ('A', k) if r < 0.6 or k not in m else ('R', k)
        elif r < 0.3: op = ('I', k, w)
        elif r < 0.65: op = ('U', k, w)
        elif k in m: op = ('R', k)
        else: op = ('I', k, w)
        m2 = spec_step(m, op)
        if m2 is None: continue
        ops.append(op); m = m2
    if rng.random() < 0.05:
        absent = [k for k in range(nk + 1) if k not in m]
        if absent: ops.append(('R', absent[0]))          # malformed stream: remove of an absent key
    return ops


def run_case(sim, weighted, ops, conv):
    """returns (per-step observations, spec verdicts, probes, probe results)"""
    ld = sim._ListDict_(weighted=weighted)
    obs = []; spec = {}; bad = None
    for i, op in enumerate(ops):
        sp2 = spec_step(spec, op)
        try:
            apply_impl(sim, ld, op, conv)
            o = observe(sim, ld, weighted)
        except Exception as e:
            o = {'err': type(e).__name__}
        obs.append(o)
        if sp2 is None:
            if o.get('err') != 'KeyError' and bad is None:
                bad = 'step %d %r: removing an absent key gave %r, expected KeyError' % (i, op, o)
            break
        spec = sp2
        if bad is None:
            if 'err' in o:
                bad = 'step %d %r raised %s on a valid history' % (i, op, o['err'])
            else:
                if o['keys'] != sorted(spec) or o['len'] != len(spec) or o['member'] != sorted(k for k in spec if k < 8):
                    bad = 'step %d %r: candidates %r, specification %r' % (i, op, o['keys'], sorted(spec))
                elif weighted and o['w'] != spec:
                    bad = 'step %d %r: weights %r, specification %r' % (i, op, o['w'], spec)
                elif o['total'] != sum(spec.values()):
                    bad = 'step %d %r: total_weight %s, sum of current weights %s' % (i, op, o['total'], sum(spec.values()))
        if 'err' in o:
            break
    probes = []; pres = []
    try:
        if obs and 'err' not in obs[-1] and spec:
            e30 = F(1, 2 ** 30)
            thr = {}
            for k in sorted(spec):
                if weighted:
                    mw = F(ld.max_weight)
                    if mw == 0:
                        us = [F(1, 2)]
                    else:
                        t = F(ld.weight[k]) / mw
                        thr[k] = t
                        us = [u for u in (t - e30, t + e30, F(0)) if 0 <= u < 1]
                else:
                    us = [F(1, 2)]
                for u in us:
                    probes.append((k, u)); pres.append(probe(sim, ld, k, u))
            _PERSIST[0] += 1
            if weighted and bad is None and thr and _PERSIST[0] % 12 == 0:
                # a persistent-rejection probe on every 12th history: the lightest candidate with a draw just above its threshold, thousands of rounds
                k0 = min(thr, key=lambda k: (thr[k], k))
                if thr[k0] < 1:
                    rr = probe_persistent(sim, ld, k0, min(F(1) - F(1, 2 ** 40), thr[k0] + e30))
                    if rr != 'R':
                        bad = 'choose_random returned a candidate although its accept test (u >= weight/max_weight = %s) failed in every round: %s' % (thr[k0], rr)
            if weighted and bad is None and sum(spec.values()) > 0:
                # selection law from the observed thresholds: P(k) = thr_k / sum thr, needs thr_k <= 1
                tot_thr = sum(thr.values()); W = sum(spec.values())
                for (k, u), r in zip(probes, pres):
                    exp = 'A %d' % k if u < thr[k] else 'R'
                    if r != exp:
                        bad = 'choose_random with candidate %r and u=%s gave %s, threshold weight/max_weight=%s' % (k, u, r, thr[k])
                if bad is None and max(thr.values()) > 1:
                    bad = 'accept probability %s > 1 (max_weight %s below a current weight): selection no longer proportional' % (max(thr.values()), ld.max_weight)
                elif bad is None and tot_thr == 0:
                    bad = 'no candidate can ever be accepted although the total weight is %s' % W
                elif bad is None:
                    for k in spec:
                        if thr[k] / tot_thr != spec[k] / W:
                            bad = 'selection probability of %r is %s, weight/total is %s' % (k, thr[k] / tot_thr, spec[k] / W)
                            break
    except Exception as e:
        # the class broke while it was being probed (its own bookkeeping raised): on a valid history that is a failing input, not a crash of the check
        if bad is None:
            bad = 'probing the candidates of a valid history made the class raise %s: %s' % (type(e).__name__, str(e)[:80])
    return obs, bad, probes, pres


def selection_law_part(run, pid, sim, rng, n, per=None):
    """the selection law inside a weighted candidate set, judged on the class itself with the finite-map specification oracle
    of this module (no Coq model involved): used by the checks of the simulators whose jump law rests on _ListDict_
    (C15: Gillespie_complex_contagion re-rates present candidates with insert; C01/C02/C03 likewise) so that a change to
    _ListDict_ that biases the choice is a failing input of THEIR property too."""
    worst = None; ran = 0
    for i in range(n):
        ops = gen_random(rng, rng.randint(2, 14 if i % 3 else 40), True)
        obs, bad, probes, pres = run_case(sim, True, ops, (lambda q: q) if i % 2 else (lambda q: float(q)))
        ran += 1
        if bad and (worst is None or len(ops) < worst[0]):
            worst = (len(ops), bad, {'weighted': True, 'ops': [[o[0], o[1]] + ([str(o[2])] if len(o) > 2 else []) for o in ops]})
    if worst:
        n_, what, rp = worst
        run.violation('%s/_ListDict_/selection-law' % pid, 'the weighted candidate structure the simulator draws from violates the selection law (probability weight/sum of current weights): ' + what,
                      dict(rp, kind='listdict', what=what, listdict=True))
    if per is not None:
        per['_ListDict_ selection-law histories'] = {'histories': ran, 'failing': 0 if not worst else 1}


def model_view(mo):
    """parse the model's output: list of per-op states then probe answers"""
    parts = [p.strip() for p in mo.split('|')]
    return [p for p in parts if p]


def impl_view(weighted, obs, pres):
    out = []
    for o in obs:
        if 'err' in o:
            out.append('E ' + o['err'])
        else:
            s = 'S %d' % len(o['keys'])
            for k in o['keys']:
                s += ' %d' % k
                if weighted: s += ':%s/%s' % (o['w'][k].numerator, o['w'][k].denominator)
            s += ' T %s/%s' % (o['total'].numerator, o['total'].denominator)
            out.append(s)
    return out + list(pres)


def strip_max(parts):
    """the model's tracked maximum is not law-relevant beyond being an upper bound (DESIGN 2.6)"""
    import re
    return [re.sub(r' M \S+$', '', p) for p in parts]


def run(run, tier):
    EoN = C.import_eon()
    import EoN.simulation as sim
    rng = run.rng
    props = C.check_props('C16')
    C.extra_props(run, 'C16', props, ['C16fm'])
    ok, log = C.build_driver('base')
    if not ok:
        run.violation('C16/build', 'extracted model does not build: ' + log[-500:], {'log': log[-3000:]}, no_input=True)
        C.proof_coverage(run, props, 1, 0, 'build failed', [log[-300:]]); return
    cases = []
    corpus = C.load_corpus('C16')
    for c in corpus:
        cases.append((c['weighted'], [tuple(o[:2]) + ((F(o[2]),) if len(o) > 2 else ()) for o in c['ops']], 'corpus'))
    maxlen = 3 if tier == 'quick' else 4
    for ops in gen_enum(maxlen):
        cases.append((True, ops, 'enum'))
    n_enum = len(cases)
    nrand = 1500 if tier == 'quick' else 30000
    for i in range(nrand):
        w = rng.random() < 0.8
        cases.append((w, gen_random(rng, rng.randint(1, 12 if i % 3 else 60), w), 'random'))
    lines = []; impl = []; stats = {'enum': 0, 'random': 0, 'corpus': 0, 'weighted': 0, 'unweighted': 0, 'absent_remove': 0, 'ops': 0, 'probes': 0, 'max_changes_ge3': 0}
    convs = [lambda q: q, lambda q: float(q)]
    for ci, (weighted, ops, src) in enumerate(cases):
        conv = convs[ci % 2] if src != 'enum' else convs[0]
        obs, bad, probes, pres = run_case(sim, weighted, ops, conv)
        impl.append((obs, bad, probes, pres))
        lines.append(fmt_ops(weighted, ops, probes))
        stats[src] += 1; stats['weighted' if weighted else 'unweighted'] += 1
        stats['ops'] += len(ops); stats['probes'] += len(probes)
        if obs and 'err' in obs[-1]: stats['absent_remove'] += 1
        # how often does the heaviest candidate change
        mx = []; m = {}
        for op in ops:
            m2 = spec_step(m, op)
            if m2 is None: break
            m = m2
            if m:
                top = max(m, key=lambda k: (m[k], -k))
                if not mx or mx[-1] != top: mx.append(top)
        if len(mx) >= 4: stats['max_changes_ge3'] += 1
    outs = C.run_model(lines, 'base')
    mism = []; spec_bad = []; distinct = set(); samples = []
    for (weighted, ops, src), (obs, bad, probes, pres), line, mo in zip(cases, impl, lines, outs):
        distinct.add(line)
        rp = {'weighted': weighted, 'ops': [[o[0], o[1]] + ([str(o[2])] if len(o) > 2 else []) for o in ops]}
        if bad:
            spec_bad.append((len(ops), bad, rp))
        mv = strip_max(model_view(mo)); iv = impl_view(weighted, obs, pres)
        # states are compared exactly; the answers to the accept probes depend on the tracked
        # maximum, which is law-relevant only as an upper bound (DESIGN 2.6): they are judged by
        # the specification oracle above (threshold = weight/max_weight <= 1, proportional to
        # weight), and a difference from the model's own maximum is only counted
        if mv[:len(obs)] == iv[:len(obs)] and mv != iv and 'DRIVERFAIL' not in mo:
            stats['probe_answers_differ_from_model_max'] = stats.get('probe_answers_differ_from_model_max', 0) + 1
            mv = iv
        if 'DRIVERFAIL' in mo or mv != iv:
            d = next((i for i, (a, b) in enumerate(zip(mv, iv)) if a != b), min(len(mv), len(iv)))
            mism.append((len(ops), 'first difference at observation %d: model %r, implementation %r' % (d, mv[d] if d < len(mv) else None, iv[d] if d < len(iv) else None), rp))
        elif len(samples) < 3 and len(ops) >= 3:
            samples.append({'weighted': weighted, 'ops': rp['ops'], 'final': iv[len(obs) - 1] if obs else None, 'probe_answers': list(pres)[:6]})
    if spec_bad:
        n, what, rp = min(spec_bad, key=lambda x: x[0])
        run.violation('C16/_ListDict_/spec', '_ListDict_ violates the finite-weighted-map specification / selection law: ' + what, dict(rp, kind='listdict', what=what))
    elif mism:
        n, what, rp = min(mism, key=lambda x: x[0])
        run.violation('C16/_ListDict_/correspondence',
                      'correspondence Model/ListDict.v <-> EoN.simulation._ListDict_ no longer checks (the theorems of Props/C16.v are about the model); the specification oracle found no failing input; ' + what,
                      dict(rp, kind='listdict', broken='correspondence Model/ListDict.v vs _ListDict_', what=what), no_input=True)
    if not props['ok']:
        run.violation('C16/proof', 'Props/C16.v no longer checks: %s' % props['log'][-400:], {'broken': 'coq/Props/C16.v', 'log': props['log']}, no_input=True)
    nontriv = sum(1 for (w, ops, s) in cases if len(ops) >= 2)
    C.proof_coverage(run, props, len(cases), min(len(distinct), nontriv),
                     'every history of length <=%d over 3 keys x weights {0,1,2,1/2} with insert/update/remove (%d, exhaustive) + random histories of length <=60 (80%% weighted; Fractions and dyadic floats alternate; 5%% end with the removal of an absent key). After EVERY operation: candidate set, weights, total_weight(), len, membership compared with the extracted model and with the finite-map specification; after the last one every candidate is probed with u = threshold -/+ 2^-30 and 0. Non-trivial = at least 2 operations; distinct = distinct model input lines' % (maxlen, n_enum - len(corpus)),
                     samples, {'distribution': stats, 'mismatches': len(mism), 'spec_failures': len(spec_bad), 'exhaustive_part': 'histories of length <=%d' % maxlen})
    run.assumptions += ['random.choice is uniform on the item list and random.random uniform on [0,1): P(select k) = thr_k/sum(thr) is computed from the observed accept thresholds under that reading']


def replay(rp):
    EoN = C.import_eon()
    import EoN.simulation as sim
    r = rp['replay']
    ops = [tuple(o[:2]) + ((F(o[2]),) if len(o) > 2 else ()) for o in r['ops']]
    obs, bad, probes, pres = run_case(sim, r['weighted'], ops, lambda q: q)
    print('history:', r['ops'])
    print('implementation:', impl_view(r['weighted'], obs, pres))
    print('specification verdict:', bad or 'holds')
    return 1 if bad else 0


from . import c16f; run, replay = c16f.wrap(run, replay)   # float side of C16: Props/C16f.v + bit-exact tie of Model/ListDictF.v (harness/c16f.py)
