"""Point-evaluation tie of the hand-written 2-D / node-level right-hand sides
(coq/Model/Rhs2D.v, component 'rhs2') to EoN/analytic.py of the working tree, used by
the checks C06, C07 and C08 next to the translator tie of harness/rhs_lib.py.

  FUNCS                      the 8 Python functions covered
  build()                    (re)build Model/Rhs2D.vo and the extracted driver of 'rhs2'
  gen_point(rng, name)       random dyadic point inside the domain of the model (see Model/Rhs2D.v:
                             index_of_node = enumerate(nodelist), nodelist a permutation of the nodes of a
                             simple graph, consistent shapes, no unguarded zero denominator)
  eval_python(EoN, name, p)  the Python function at that point
  model_line(name, p)        the driver line for the extracted definition
  point_check(EoN, rng, n)   n points per function, rel 1e-9; returns a report like rhs_lib.point_check

Every point is a JSON-able dict (numbers as strings of Fractions) so that it can be replayed."""
import math, os, sys, json, subprocess
from fractions import Fraction as F
from . import common as C

COMP = 'rhs2'
TRANSLATOR = os.path.join(C.VERIF, 'translate', 'rhs2d2v.py')
SIGFILE = os.path.join(C.COQ, 'Gen', 'rhs2_sig.json')


class Rhs2Refused(Exception):
    """translate/rhs2d2v.py refused the current source (construct outside its fragment)"""


def regen():
    """re-run the translator of the node-level / 2-D right-hand sides from C.REPO -> coq/Gen/Rhs2.v"""
    env = dict(os.environ); env['EON_REPO'] = C.REPO
    p = subprocess.run(['timeout', '120', sys.executable, TRANSLATOR, '--repo', C.REPO], capture_output=True, text=True, env=env)
    if p.returncode != 0:
        raise Rhs2Refused((p.stderr or p.stdout).strip()[-600:])
    return json.load(open(SIGFILE))['rhs2']
NODE = ['_dSIS_individual_based_', '_dSIR_individual_based_', '_dSIS_pair_based_', '_dSIR_pair_based_']
CLASS = ['_dSIS_heterogeneous_pairwise_', '_dSIR_heterogeneous_pairwise_', '_dSIS_effective_degree_', '_dSIR_effective_degree_']
FUNCS = NODE + CLASS
INDEX = {n: i for i, n in enumerate(FUNCS)}


def build():
    return C.build_driver(COMP)


def dy(rng, lo=1, hi=64, den=8):
    return F(rng.randint(lo, hi), den)


def _s(x):
    return str(F(x))


def _ql(l):
    return '%d %s' % (len(l), ' '.join(C.qtok(F(x)) for x in l))


# ---------------------------------------------------------------- graphs ----
def rand_graph(rng, n):
    """simple undirected graph on 0..n-1 as ordered adjacency lists (networkx insertion order is
    reproduced by adding the edges in this order); at least one edge"""
    pairs = [(u, v) for u in range(n) for v in range(u + 1, n)]
    rng.shuffle(pairs)
    kind = rng.random()
    if kind < 0.15:
        edges = pairs                                   # complete graph
    elif kind < 0.3:
        edges = [(i, (i + 1) % n) for i in range(n)] if n >= 3 else pairs[:1]      # ring
    else:
        m = rng.randint(1, len(pairs))
        edges = pairs[:m]
    edges = [e if rng.random() < 0.5 else (e[1], e[0]) for e in edges]
    return sorted(set(tuple(e) for e in edges), key=edges.index)


def nx_graph(p):
    import networkx as nx
    G = nx.Graph()
    labels = p['labels']
    G.add_nodes_from(labels[u] if not isinstance(labels[u], list) else tuple(labels[u]) for u in range(p['n']))
    lab = list(G.nodes())
    for u, v in p['edges']:
        G.add_edge(lab[u], lab[v])
    return G, lab


def gen_node_point(rng, name):
    pair = 'pair_based' in name
    n = rng.randint(2, 4 if pair else 6)
    edges = rand_graph(rng, n)
    kind = rng.choice(['int', 'str', 'tuple', 'offset'])
    labels = {'int': list(range(n)), 'str': ['n%d' % (7 * i % 11) for i in range(n)], 'tuple': [[i % 2, i] for i in range(n)],
              'offset': [10 + 3 * i for i in range(n)]}[kind]
    if kind == 'int':
        rng.shuffle(labels)
    nodelist = list(range(n)); rng.shuffle(nodelist)            # positions in list(G.nodes())
    p = {'fn': name, 'n': n, 'edges': [list(e) for e in edges], 'labels': labels, 'nodelist': nodelist,
         't': _s(dy(rng, 0, 40, 4))}
    zero_t = rng.random() < 0.08; zero_g = rng.random() < 0.08
    tr = {}
    for u, v in edges:
        tr['%d,%d' % (u, v)] = _s(0 if zero_t else dy(rng, 1, 24, 8))
        tr['%d,%d' % (v, u)] = _s(0 if zero_t else dy(rng, 1, 24, 8))
    p['tr'] = tr
    p['rc'] = [_s(0 if zero_g else dy(rng, 1, 24, 8)) for _ in range(n)]
    prob = lambda: F(rng.randint(1, 15), 16)
    def probs(k, boundary):
        out = [prob() for _ in range(k)]
        if boundary and rng.random() < 0.25:          # a boundary value: exercises the `if v != 0 else 0` guard
            out[rng.randrange(k)] = boundary
        return out
    if name == '_dSIS_individual_based_':
        V = probs(n, None)
    elif name == '_dSIR_individual_based_':
        V = probs(n, None) + probs(n, None)
    elif name == '_dSIS_pair_based_':
        V = probs(n, F(1)) + [prob() for _ in range(2 * n * n)]            # Y_i = 1 -> X_i = 0 -> Xinv guard
    else:
        V = probs(n, F(0)) + probs(n, None) + [prob() for _ in range(2 * n * n)]
    p['V'] = [_s(x) for x in V]
    return p


def gen_class_point(rng, name):
    p = {'fn': name, 't': _s(dy(rng, 0, 40, 4))}
    p['tau'] = _s(0 if rng.random() < 0.08 else dy(rng, 1, 24, 8))
    p['gamma'] = _s(0 if rng.random() < 0.08 else dy(rng, 1, 24, 8))
    vec = lambda k: [dy(rng) for _ in range(k)]
    if 'heterogeneous_pairwise' in name:
        K = rng.randint(1, 4)
        ks = sorted(rng.sample(range(0 if rng.random() < 0.3 else 1, 9), K))
        p['Ks'] = ks
        p['Nk'] = [_s(x) for x in vec(K)]
        Sk = vec(K)
        if rng.random() < 0.2:
            Sk[rng.randrange(K)] = F(0)                  # exercises kxSk[kxSk==0] = 1 / tmpSk[tmpSk==0] = 1
        if name.startswith('_dSIS'):
            p['NkNl'] = [_s(x) for x in vec(K * K)]
            X = Sk + vec(2 * K * K)
        else:
            X = Sk + vec(K) + vec(2 * K * K)
        p['X'] = [_s(x) for x in X]
    else:
        r = rng.randint(1, 4); c = r if rng.random() < 0.6 else rng.randint(1, 4)
        if r * c == 1:
            r = c = 2                                    # a 1x1 array has SS = SI = 0: 0/0 in the code
        p['shape'] = [r, c]
        def arr():
            a = vec(r * c)
            for k in range(len(a)):
                if rng.random() < 0.15:
                    a[k] = F(0)
            return a
        S = arr()
        # keep the closures' denominators SS = sum s*S[s,i] and SI = sum i*S[s,i] non-zero
        if r > 1: S[(r - 1) * c] = dy(rng)
        if c > 1: S[c - 1] = dy(rng)
        if name.startswith('_dSIS'):
            X = S + arr()
        else:
            X = S + [dy(rng)]
            p['N'] = _s(dy(rng, 64, 640, 8))
        p['X'] = [_s(x) for x in X]
    return p


def gen_point(rng, name):
    return gen_node_point(rng, name) if name in NODE else gen_class_point(rng, name)


# ---------------------------------------------------------------- python ----
def eval_python(EoN, name, p):
    import numpy as np
    A = EoN.analytic
    fn = getattr(A, name)
    fl = lambda l: np.array([float(F(x)) for x in l], dtype=float)
    t = float(F(p['t']))
    with np.errstate(all='ignore'):
        if name in NODE:
            G, lab = nx_graph(p)
            nodelist = [lab[u] for u in p['nodelist']]
            index_of_node = {node: i for i, node in enumerate(nodelist)}
            pos = {lab[u]: u for u in range(p['n'])}
            tr = {k: float(F(v)) for k, v in p['tr'].items()}
            rc = [float(F(x)) for x in p['rc']]
            trf = lambda u, v: tr['%d,%d' % (pos[u], pos[v])]
            rcf = lambda u: rc[pos[u]]
            out = fn(fl(p['V']), t, G, nodelist, index_of_node, trf, rcf)
        elif name == '_dSIS_heterogeneous_pairwise_':
            K = len(p['Ks'])
            out = fn(fl(p['X']), t, fl(p['Nk']), fl(p['NkNl']).reshape(K, K), float(F(p['tau'])), float(F(p['gamma'])), np.array(p['Ks']))
        elif name == '_dSIR_heterogeneous_pairwise_':
            out = fn(fl(p['X']), t, float(F(p['tau'])), float(F(p['gamma'])), fl(p['Nk']), np.array(p['Ks']))
        elif name == '_dSIS_effective_degree_':
            out = fn(fl(p['X']), t, tuple(p['shape']), float(F(p['tau'])), float(F(p['gamma'])))
        elif name == '_dSIR_effective_degree_':
            out = fn(fl(p['X']), t, float(F(p['N'])), tuple(p['shape']), float(F(p['tau'])), float(F(p['gamma'])))
        else:
            raise KeyError(name)
    return [float(x) for x in np.asarray(out, dtype=float).ravel()]


# ---------------------------------------------------------------- model -----
def model_line(name, p):
    i = INDEX[name]
    if name in NODE:
        n = p['n']
        adj = [[] for _ in range(n)]
        for u, v in p['edges']:            # networkx: adjacency in edge insertion order, both directions
            adj[u].append(v); adj[v].append(u)
        idx = [0] * n
        for k, u in enumerate(p['nodelist']):
            idx[u] = k
        toks = ['NODE', str(i), str(n)]
        for a in adj:
            toks += [str(len(a))] + [str(x) for x in a]
        toks += [str(u) for u in p['nodelist']]
        toks += [str(k) for k in idx]
        toks += [C.qtok(F(x)) for x in p['rc']]
        toks.append(str(len(p['tr'])))
        for k, w in p['tr'].items():
            u, v = k.split(',')
            toks += [u, v, C.qtok(F(w))]
        toks.append(_ql(p['V'])); toks.append(C.qtok(F(p['t'])))
        return ' '.join(toks)
    X = p['X']; Nk = p.get('Nk', []); NkNl = p.get('NkNl', []); Ks = p.get('Ks', [])
    r, c = p.get('shape', [0, 0])
    return 'CLASS %d %s %s %s %s %s %s %s %s %d %d' % (i, _ql(X), _ql(Nk), _ql(NkNl), _ql(Ks), C.qtok(F(p.get('N', 0))),
                                                       C.qtok(F(p['tau'])), C.qtok(F(p['gamma'])), C.qtok(F(p['t'])), r, c)


def parse_out(line):
    if not line.startswith('OK'):
        raise RuntimeError('model driver: ' + line)
    return [F(x) for x in line[2:].split()]


def eval_model_many(cases):
    lines = [model_line(n, p) for n, p in cases]
    return [parse_out(o) for o in C.run_model(lines, COMP)]


def point_check(EoN, rng, n_per_fn, tol=1e-9, funcs=None, generated=True):
    cases = []
    for name in (funcs or FUNCS):
        got = 0; tries = 0
        while got < n_per_fn and tries < 20 * n_per_fn:
            tries += 1
            p = gen_point(rng, name)
            try:
                py = eval_python(EoN, name, p)
            except ZeroDivisionError:
                continue
            except Exception as e:
                py = 'EXC %s: %s' % (type(e).__name__, str(e)[:80])
            if not isinstance(py, str) and not all(math.isfinite(x) for x in py):
                continue                           # an unguarded zero denominator: outside the domain
            cases.append((name, p, py)); got += 1
    lines = [model_line(n, p) for n, p, _ in cases]
    outs = C.run_model(lines, COMP)
    gouts = C.run_model(['G' + l for l in lines], COMP) if generated else [None] * len(lines)
    mism = []; gmism = []; per = {}; gper = {}; samples = []
    for (name, p, py), o, go in zip(cases, outs, gouts):
        per.setdefault(name, 0); gper.setdefault(name, 0)
        for which, oo, mm, pp in (('model', o, mism, per), ('generated', go, gmism, gper)):
            if oo is None:
                continue
            try:
                mo = [float(x) for x in parse_out(oo)]
            except Exception:
                mm.append((name, p, py, '%s driver failure: %s' % (which, oo[:200]))); continue
            ok = (not isinstance(py, str)) and len(py) == len(mo) and all(C.close(x, y, tol) for x, y in zip(py, mo))
            if ok:
                pp[name] += 1
                if which == 'model' and len(samples) < 2 and len(py) > 4 and any(abs(x) > 0 for x in py):
                    samples.append({'rhs2_point': {'function': name, 'point': p, 'python': py[:8], 'model': mo[:8]}})
            else:
                mm.append((name, p, py, mo))
    return {'n': len(cases), 'distinct': len(set(lines)), 'mism': mism, 'per_fn': per, 'samples': samples, 'gen_mism': gmism, 'gen_per_fn': gper}
