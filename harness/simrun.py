"""Shared plumbing for the simulator checks (DESIGN 2.3, 2.4a, 2.8):
* `Scripted`: stand-in for the module `random` inside EoN.simulation that answers
  from a draw script and logs every call with its arguments (the trace);
* graph generation with exotic node labels, label <-> N mapping, graph tokens for
  the drivers (ocaml/glue_graph.ml read_graph);
* parsing of the drivers' output lines (result | DRAWS | TRACE) and comparison of
  traces, rows, histories and transmissions."""
import itertools, math, sys
from fractions import Fraction as F
from . import common as C


class OutOfDraws(BaseException):
    """raised by the scripted source when the script is exhausted (BaseException so
    that no `except Exception` in the code under test can swallow it)"""


ACC = 2.0 ** -40


class Scripted:
    def __init__(self, draws, idmap):
        self.d = [F(x) for x in draws]; self.i = 0; self.log = []; self.idmap = idmap

    def key(self, item):
        try:
            if item in self.idmap:
                return (self.idmap[item],)
        except TypeError:
            pass
        return tuple(self.idmap[x] for x in item)

    def _n(self):
        if self.i >= len(self.d):
            raise OutOfDraws()
        v = self.d[self.i]; self.i += 1
        return v

    # --- the API of module random used by EoN.simulation ---
    def expovariate(self, rate):
        if rate == 0:
            self.log.append(('E', 0.0))
            raise ZeroDivisionError('float division by zero')      # as random.expovariate(0) does
        v = self._n(); self.log.append(('E', float(rate)))
        return float(v)

    def random(self):
        caller = sys._getframe(1).f_code.co_name
        v = self._n()
        if caller == 'choose_random':
            self.log.append(('A',)); return ACC                     # accept unless the weight is 0
        self.log.append(('U',)); return float(v)

    def choice(self, seq):
        seq = list(seq)
        if not seq:
            self.log.append(('P', []))
            raise IndexError('Cannot choose from an empty sequence')
        v = self._n()
        ss = sorted(seq, key=self.key)
        self.log.append(('P', [self.key(x) for x in ss]))
        return ss[int(v)]

    def sample(self, pop, k):
        pop = sorted(list(pop), key=self.key)
        if k > len(pop) or k < 0:
            self.log.append(('S', k, [self.key(x) for x in pop]))
            raise ValueError('Sample larger than population or is negative')
        v = self._n()
        self.log.append(('S', k, [self.key(x) for x in pop]))
        r = int(v)
        if r >= len(pop): r = 0          # exec (Base/Samp.v): rotate n l = skipn n l ++ firstn n l is the identity for n >= length l
        return (pop[r:] + pop[:r])[:k]

    def seed(self, *a):
        pass


class NpProxy:
    """numpy with random.binomial scripted (fast_SIR constant-tau path)"""
    def __init__(self, np, scripted):
        self._np = np; self.random = self; self._s = scripted

    def __getattr__(self, name):
        return getattr(self._np, name)

    def binomial(self, n, p):
        v = self._s._n(); self._s.log.append(('B', int(n), float(p)))
        return int(v)


class swap_random:
    """context manager: EoN.simulation.random := scripted source"""
    def __init__(self, sim, scripted, with_np=False):
        self.sim, self.s, self.with_np = sim, scripted, with_np

    def __enter__(self):
        self.old = self.sim.random; self.sim.random = self.s
        if self.with_np:
            self.oldnp = self.sim.np; self.sim.np = NpProxy(self.oldnp, self.s)
        return self.s

    def __exit__(self, *a):
        self.sim.random = self.old
        if self.with_np:
            self.sim.np = self.oldnp
        return False


# ------------------------------------------------------------------ graphs ----
LABEL_KINDS = ('perm', 'str', 'tuple', 'mixed', 'zero')


def make_labels(rng, n, kind=None):
    kind = kind or rng.choice(LABEL_KINDS)
    if kind == 'perm':
        base = rng.sample(range(3, 3 + 3 * n), n)                 # ints that are not 0..n-1
    elif kind == 'str':
        base = ['v%s' % chr(97 + i) for i in range(n)]
    elif kind == 'tuple':
        base = [('t', i * 7 % 11, i) for i in range(n)]
    elif kind == 'zero':
        # falsy labels: the integer 0 and the empty string are nodes like any other (a truthiness test on a node is a defect)
        base = ([0, ''] + rng.sample(range(3, 3 + 3 * n), n))[:n]
    else:
        base = [(('m', i) if i % 3 == 0 else 'w%d' % i if i % 3 == 1 else 100 + i) for i in range(n)]
    base = list(base); rng.shuffle(base)
    return base


def dyadic(rng, zero_ok=True):
    return F(rng.choice(([0] if zero_ok else []) + [1, 1, 2, 3, 4, 6]), rng.choice([1, 2, 4]))


class GraphCase:
    """a networkx graph with exotic labels + the mapping label -> N (position in list(G))"""
    def __init__(self, G, ewl=None, nwl=None):
        self.G = G; self.ewl = ewl; self.nwl = nwl
        self.order = list(G.nodes()); self.idmap = {u: i for i, u in enumerate(self.order)}

    def tokens(self):
        G = self.G; im = self.idmap; d = G.is_directed()
        t = [len(self.order), 1 if d else 0]
        for u in self.order:
            nb = [im[v] for v in G.neighbors(u)]; t += [len(nb)] + nb
        for u in self.order:
            pr = [im[v] for v in (G.predecessors(u) if d else G.neighbors(u))]; t += [len(pr)] + pr
        t += [1 if self.ewl else 0, 1 if self.nwl else 0]
        for u in self.order:
            w = F(G.nodes[u][self.nwl]) if self.nwl else F(1); t += [w.numerator, w.denominator]
        E = list(G.edges()); t.append(len(E))
        for u, v in E:
            w = F(G.adj[u][v][self.ewl]) if self.ewl else F(1); t += [im[u], im[v], w.numerator, w.denominator]
        return ' '.join(map(str, t))

    def describe(self):
        return {'nodes': [repr(u) for u in self.order], 'edges': [[repr(u), repr(v)] + ([self.G.adj[u][v].get(self.ewl)] if self.ewl else []) for u, v in self.G.edges()],
                'directed': self.G.is_directed(), 'edge_weight_label': self.ewl, 'node_weight_label': self.nwl,
                'node_weights': {repr(u): self.G.nodes[u].get(self.nwl) for u in self.order} if self.nwl else None}

    def to_json(self):
        """replayable description (labels by repr: rebuilt with eval in from_json)"""
        return {'nodes': [repr(u) for u in self.order], 'directed': self.G.is_directed(),
                'edges': [[repr(u), repr(v), float(self.G.adj[u][v][self.ewl]) if self.ewl else None] for u, v in self.G.edges()],
                'ewl': self.ewl, 'nwl': self.nwl,
                'nw': [float(self.G.nodes[u][self.nwl]) if self.nwl else None for u in self.order]}

    @staticmethod
    def from_json(j):
        import networkx as nx
        G = nx.DiGraph() if j['directed'] else nx.Graph()
        nodes = [eval(x) for x in j['nodes']]
        G.add_nodes_from(nodes)
        for u, v, w in j['edges']:
            G.add_edge(eval(u), eval(v))
            if j['ewl']: G.adj[eval(u)][eval(v)][j['ewl']] = w
        if j['nwl']:
            for u, w in zip(nodes, j['nw']): G.nodes[u][j['nwl']] = w
        return GraphCase(G, j['ewl'], j['nwl'])


def gen_graph(rng, nmax=7, directed=False, ewl=None, nwl=None, density=None, nmin=1, kind=None, zero_w=True):
    import networkx as nx
    n = rng.randint(nmin, nmax)
    labels = make_labels(rng, n, kind)
    G = nx.DiGraph() if directed else nx.Graph()
    G.add_nodes_from(labels)
    pairs = list(itertools.permutations(labels, 2)) if directed else list(itertools.combinations(labels, 2))
    rng.shuffle(pairs)
    p = density if density is not None else rng.choice([0.25, 0.45, 0.7])
    for u, v in pairs:
        if rng.random() < p:
            if directed or rng.random() < .5: G.add_edge(u, v)
            else: G.add_edge(v, u)
    if ewl:
        for u, v in G.edges(): G.adj[u][v][ewl] = float(dyadic(rng, zero_w))
    if nwl:
        for u in G.nodes(): G.nodes[u][nwl] = float(dyadic(rng, zero_w))
    return GraphCase(G, ewl, nwl)


def all_graphs(n, directed=False):
    """every labelled simple graph on n nodes (labels assigned by the caller)"""
    pairs = list(itertools.permutations(range(n), 2)) if directed else list(itertools.combinations(range(n), 2))
    for mask in range(1 << len(pairs)):
        yield [pairs[i] for i in range(len(pairs)) if mask >> i & 1]


def graph_from_edges(n, edges, labels, directed=False, ewl=None, nwl=None, ew=None, nw=None):
    import networkx as nx
    G = nx.DiGraph() if directed else nx.Graph()
    G.add_nodes_from(labels)
    for k, (a, b) in enumerate(edges):
        G.add_edge(labels[a], labels[b])
        if ewl: G.adj[labels[a]][labels[b]][ewl] = float(ew[k])
    if nwl:
        for i, u in enumerate(labels): G.nodes[u][nwl] = float(nw[i])
    return GraphCase(G, ewl, nwl)


def qtoks(xs):
    return ' '.join(C.qtok(x) for x in xs)


def opt_q(x):
    return '0' if x is None else '1 ' + C.qtok(x)


def ent_tokens(rng, k=48):
    return '%d %s' % (k, ' '.join(str(rng.randrange(1 << 20)) for _ in range(k)))


# ----------------------------------------------------------- model output ----
def parse_model_line(line):
    """'OK ROWS .. [HIST .. TRANS ..] | DRAWS .. | TRACE ..'  or  'ERR name | DRAWS .. | TRACE ..'"""
    if line is None or 'DRIVERFAIL' in line or 'BADCMD' in line:
        return {'status': 'DRIVERFAIL', 'raw': line}
    parts = [p.strip() for p in line.split('|')]
    head = parts[0].split()
    res = {'status': head[0], 'draws': [], 'trace': []}
    if head[0] == 'ERR':
        res['err'] = head[1]
    else:
        sec = None; secs = {}
        for tok in head[1:]:
            if tok in ('ROWS', 'HIST', 'TRANS') or tok.isupper() and tok.isalpha():
                sec = tok; secs[sec] = []
            else:
                secs[sec].append(tok)
        if 'ROWS' in secs:
            res['rows'] = [(F(t.split(':')[0]), [int(c) for c in t.split(':')[1].split(',') if c != '']) for t in secs['ROWS']]
        if 'HIST' in secs:
            res['hist'] = {}
            for t in secs['HIST']:
                u, h = t.split('=')
                res['hist'][int(u)] = [(F(e.split('@')[0]), int(e.split('@')[1])) for e in h.split(',') if e]
        if 'TRANS' in secs:
            res['trans'] = []
            for t in secs['TRANS']:
                tm, rest = t.split(':'); s, tg = rest.split('>')
                res['trans'].append((F(tm), None if s == '-' else int(s), int(tg)))
        res['extra'] = {k: v for k, v in secs.items() if k not in ('ROWS', 'HIST', 'TRANS')}
    for p in parts[1:]:
        tk = p.split()
        if not tk: continue
        if tk[0] == 'DRAWS':
            res['draws'] = [F(x) for x in tk[1:]]
        elif tk[0] == 'TRACE':
            for c in tk[1:]:
                kind, _, arg = c.partition(':')
                if kind == 'E': res['trace'].append(('E', F(arg)))
                elif kind == 'U': res['trace'].append(('U',))
                elif kind == 'A': res['trace'].append(('A',))
                elif kind == 'P': res['trace'].append(('P', [tuple(int(x) for x in k.split(',')) for k in arg.split(';') if k]))
                elif kind == 'S':
                    n, _, pop = arg.partition(':')
                    res['trace'].append(('S', int(n), [tuple(int(x) for x in k.split(',')) for k in pop.split(';') if k]))
                elif kind == 'B':
                    n, _, p = arg.partition(':')
                    res['trace'].append(('B', int(n), F(p)))
    return res


def compare_trace(impl_log, model_trace):
    """None when the implementation made the same calls with the same arguments"""
    for k, (a, b) in enumerate(zip(impl_log, model_trace)):
        if a[0] != b[0]:
            return 'call %d: implementation asked %s, model %s' % (k, a[0], b[0])
        if a[0] == 'E' and not C.close(a[1], float(b[1])):
            return 'call %d: expovariate rate %r (implementation) vs %s (model)' % (k, a[1], b[1])
        if a[0] == 'P' and a[1] != b[1]:
            return 'call %d: choice candidates %r (implementation) vs %r (model)' % (k, a[1], b[1])
        if a[0] == 'S' and (a[1] != b[1] or a[2] != b[2]):
            return 'call %d: sample(%r,%d) vs model (%r,%d)' % (k, a[2], a[1], b[2], b[1])
        if a[0] == 'B' and (a[1] != b[1] or not C.close(a[2], float(b[2]), 1e-7)):
            return 'call %d: binomial(%d,%r) vs model (%d,%s)' % (k, a[1], a[2], b[1], b[2])
    if len(impl_log) != len(model_trace):
        return 'number of calls to the random source: implementation %d, model %d' % (len(impl_log), len(model_trace))
    return None


ERRMAP = {'ZeroDivisionError': 'ZeroDivisionError', 'IndexError': 'IndexError', 'KeyError': 'KeyError',
          'EoNError': 'EoNError', 'TypeError': 'TypeError', 'NameError': 'NameError', 'ValueError': 'ValueError',
          'Exception': 'Exception', 'AttributeError': 'TypeError', 'UnboundLocalError': 'NameError'}


def canon_arrays(arrs):
    """tuple of numpy arrays (t, X1, X2, ...) -> [(time float, [ints])]"""
    t = [float(x) for x in arrs[0]]
    cols = [[int(x) for x in a] for a in arrs[1:]]
    return [(t[i], [c[i] for c in cols]) for i in range(len(t))] if all(len(c) == len(t) for c in cols) else \
        ('RAGGED', [len(t)] + [len(c) for c in cols])


def canon_full(inv, gc, status_code):
    """Simulation_Investigation -> (hist {id: [(t, code)]}, trans [(t, src|None, tgt)] or exception name)"""
    hist = {}
    for u in gc.order:
        try:
            ts, ss = inv.node_history(u)
            hist[gc.idmap[u]] = [(float(a), status_code[b]) for a, b in zip(ts, ss)]
        except Exception as e:
            hist[gc.idmap[u]] = 'EXC ' + type(e).__name__
    try:
        tr = [(float(t), None if s is None else gc.idmap[s], gc.idmap[g]) for t, s, g in inv.transmissions()]
    except Exception as e:
        tr = 'EXC ' + type(e).__name__
    return hist, tr


def rows_equal(impl_rows, model_rows):
    if isinstance(impl_rows, tuple) and impl_rows and impl_rows[0] == 'RAGGED':
        return 'implementation arrays have different lengths %r' % (impl_rows[1],)
    if len(impl_rows) != len(model_rows):
        return 'number of rows: implementation %d, model %d' % (len(impl_rows), len(model_rows))
    for i, ((ta, ca), (tb, cb)) in enumerate(zip(impl_rows, model_rows)):
        if not C.close(ta, float(tb)):
            return 'row %d time %r vs %s' % (i, ta, tb)
        if list(ca) != list(cb):
            return 'row %d counts %r vs %r' % (i, ca, cb)
    return None


def hist_equal(ih, mh):
    for u in sorted(set(ih) | set(mh)):
        a = ih.get(u); b = mh.get(u)
        if a is None or b is None or isinstance(a, str) or len(a) != len(b) or any(not C.close(x[0], float(y[0])) or x[1] != y[1] for x, y in zip(a, b)):
            return 'history of node %d: implementation %r, model %r' % (u, a, [(str(t), s) for t, s in b] if b else b)
    return None


def trans_equal(it, mt):
    if isinstance(it, str):
        return 'transmissions(): %s' % it
    def canon(l):
        # the order of the source-less entries of the initially infected nodes is the
        # iteration order of the caller's container: not part of any property
        k = 0
        while k < len(l) and l[k][1] is None: k += 1
        return sorted(l[:k], key=lambda e: (float(e[0]), e[2])) + list(l[k:])
    it, mt = canon(it), canon(mt)
    if len(it) != len(mt):
        return 'number of transmissions: implementation %d, model %d' % (len(it), len(mt))
    for i, (a, b) in enumerate(zip(it, mt)):
        if not C.close(a[0], float(b[0])) or a[1] != b[1] or a[2] != b[2]:
            return 'transmission %d: implementation %r, model %r' % (i, a, (str(b[0]), b[1], b[2]))
    return None


def run_impl(fn, scripted, sim, with_np=False):
    """run fn() under the scripted source; returns ('OK', value) | ('EXC', class name) | ('OUT', None)"""
    import warnings
    with swap_random(sim, scripted, with_np):
        try:
            with warnings.catch_warnings():
                warnings.simplefilter('ignore')
                return ('OK', fn())
        except OutOfDraws:
            return ('OUT', None)
        except Exception as e:
            return ('EXC', type(e).__name__)
