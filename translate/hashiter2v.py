#!/venv/bin/python
"""hashiter2v -- which loops reachable from each public simulator iterate in hash order (C18).

usage: hashiter2v.py [--repo /repo] [-o coq/Gen/HashIter.v] [--json]

For every PUBLIC entry point of EoN/simulation.py (module-level function whose name does
not start with `_`) the translator lists every `for ... in <expr>` statement and every
comprehension generator located in a function *reachable* from the entry point, with a
syntactic classification of the iterable.

REACHABILITY (a coarse over-approximation of the call graph).  From a function f there
is an edge to
  * every module-level function of EoN/simulation.py whose bare name occurs in f in load
    context (a call f2(...), but also a function handed on as a value:
    `Q.add(t, _process_trans_SIR_, args=...)`, `trans_time_fxn = _find_..._`, default
    arguments), unless the name is rebound locally in f;
  * every `EoN.X` / `EoN.<module>.X` occurring in f, X a module-level function of
    EoN/__init__.py, auxiliary.py, analytic.py, simulation.py, simulation_investigation.py;
    when X is a CLASS of another module (EoN.Simulation_Investigation, EoN.EoNError) the
    constructor is NOT followed: it post-processes the finished run (the simulators hand
    it an explicit `possible_statuses` list); these are listed under [not_followed];
  * all methods of a class of simulation.py (`myQueue`, `_ListDict_`) whose name occurs
    in f.  Objects of these classes travel to the event handlers as arguments (`Q`,
    `infecteds`, `IS_links`): once a class is reachable all its methods are.
Nested `def`s and lambdas belong to the function that contains them.  Calls through
parameters (`trans_time_fxn(...)`, `test_transmission(...)`, user rate functions) are
user code and are not followed.  `EoN.X` with X defined nowhere in the package makes
the translator exit 2 (an unresolvable function definition); so does a function
defined under a module-level `if`/`try`.

CLASSIFICATION of the iterable expression e of a loop in function f (first rule that
applies; `kind(x)` for a local name x is the worst kind, in the order
Set > Dict > Graph > Param > Other > List, over all assignments `x = e'` in f,
flow-insensitively; a parameter that is also assigned contributes Param as well):
  SetOrder    set(...) / frozenset(...) / {a, b} / set comprehension;
              e1.union|intersection|difference|symmetric_difference(...);
              e1 | & - ^ e2 with a Set operand; nx.descendants / nx.ancestors /
              nx.node_connected_component(...); an element of
              nx.connected_components / strongly_connected_components /
              weakly_connected_components (loop target, or max/min(<components>,...));
              x[...] where x = defaultdict(set); list(e1)/tuple(e1)/iter(e1)/
              enumerate(e1)/reversed(e1) with e1 Set (the order survives the copy);
              random.sample(e1, k) is NOT Set (it returns a list; but its argument order
              matters: reported under the argument's own kind if it is a loop elsewhere)
  DictOrder   {..: ..} / dict(...) / dict comprehension / defaultdict(...) / Counter(...);
              e1.keys() / .values() / .items()            (insertion order, Python >= 3.7)
  GraphOrder  e1.nodes / nodes() / neighbors / edges / successors / predecessors /
              in_edges / out_edges / adjacency / degree / nbunch_iter / adj[...]; a bare
              name G or H (iteration over a graph); nx.connected_components(...) & co.
              themselves (generators that follow the node order); networkx adjacency
              is dict-of-dict: insertion ordered
  ParamOrder  a parameter of f (order chosen by the caller)
  ListOrder   list/tuple literal, list comprehension, range, sorted, np.*(...),
              list(e1) / e1 + e2 / zip / enumerate / reversed / e1[a:b] of ListOrder
              operands, string constants, random.sample(...), heapq results
  OtherOrder  anything else (attribute of self, subscript of an unknown container,
              result of an unknown call, loop target of an unknown container, ...)
The classification is deliberately conservative in the direction Set: a name assigned a
set on any path is Set on all.  It is syntactic: it does not know what a caller passes
for a ParamOrder iterable, nor what user functions return.
"""
import ast, sys, os, argparse, json, warnings

ORDER = ['List', 'Other', 'Param', 'Graph', 'Dict', 'Set']   # worst last


def worst(kinds):
    ks = [k for k in kinds if k]
    if not ks:
        return None
    return max(ks, key=ORDER.index)


class Refuse(Exception):
    pass


SET_METHODS = {'union', 'intersection', 'difference', 'symmetric_difference', 'copy_set'}
DICT_METHODS = {'keys', 'values', 'items'}
GRAPH_METHODS = {'nodes', 'neighbors', 'edges', 'successors', 'predecessors', 'in_edges', 'out_edges',
                 'adjacency', 'degree', 'in_degree', 'out_degree', 'nbunch_iter', 'nodes_iter', 'edges_iter',
                 'all_neighbors'}
GRAPH_ATTRS = {'nodes', 'edges', 'adj', 'succ', 'pred', 'degree'}
NX_SET_FUNCS = {'descendants', 'ancestors', 'node_connected_component'}
NX_COMP_FUNCS = {'connected_components', 'strongly_connected_components', 'weakly_connected_components'}
LIST_FUNCS = {'range', 'sorted', 'zip', 'map', 'filter'}
PASS_FUNCS = {'list', 'tuple', 'iter', 'enumerate', 'reversed'}
GRAPH_NAMES = {'G', 'H'}


def load(path):
    src = open(path, encoding='utf-8').read()
    with warnings.catch_warnings():
        warnings.simplefilter('ignore')
        try:
            return src, ast.parse(src, filename=path)
        except SyntaxError as e:
            raise Refuse('hashiter2v: REFUSED unparsable source %s: %s' % (path, e))


class Unit:
    """a function or method body"""
    def __init__(self, mod, qname, node, src, cls=None):
        self.mod, self.qname, self.node, self.src, self.cls = mod, qname, node, src, cls
        a = node.args
        self.params = [p.arg for p in a.posonlyargs + a.args + a.kwonlyargs] + \
                      ([a.vararg.arg] if a.vararg else []) + ([a.kwarg.arg] if a.kwarg else [])
        # nested def / lambda parameters are parameters of *user-visible* closures: Param too
        self.inner_params = set()
        for n in ast.walk(node):
            if n is not node and isinstance(n, (ast.FunctionDef, ast.AsyncFunctionDef, ast.Lambda)):
                aa = n.args
                for p in aa.posonlyargs + aa.args + aa.kwonlyargs:
                    self.inner_params.add(p.arg)
        self.assigns = {}        # name -> [value expr]
        self.loop_targets = {}   # name -> [iter expr]
        self.stores = set()
        for n in ast.walk(node):
            if isinstance(n, ast.Assign):
                for t in n.targets:
                    if isinstance(t, ast.Name):
                        self.assigns.setdefault(t.id, []).append(n.value)
            elif isinstance(n, ast.AugAssign) and isinstance(n.target, ast.Name):
                self.assigns.setdefault(n.target.id, []).append(n.value)
            elif isinstance(n, ast.For) and isinstance(n.target, ast.Name):
                self.loop_targets.setdefault(n.target.id, []).append(n.iter)
            elif isinstance(n, ast.comprehension) and isinstance(n.target, ast.Name):
                self.loop_targets.setdefault(n.target.id, []).append(n.iter)
            if isinstance(n, ast.Name) and isinstance(n.ctx, ast.Store):
                self.stores.add(n.id)


class Translator:
    def __init__(self, repo):
        d = os.path.join(repo, 'EoN')
        self.mods = {}
        for m in ['simulation', '__init__', 'auxiliary', 'analytic', 'simulation_investigation']:
            p = os.path.join(d, m + '.py')
            if os.path.exists(p):
                self.mods[m] = load(p)
            elif m == 'simulation':
                raise Refuse('hashiter2v: REFUSED missing ' + p)
        self.units = {}      # qname -> Unit     (qname: "f", "Class.m", "mod:f" for other modules)
        self.classes = {}    # (mod, class) -> [qname of methods]
        self.funcs = {}      # (mod, name) -> qname
        for m, (src, tree) in self.mods.items():
            pre = '' if m == 'simulation' else m + ':'
            for n in tree.body:
                if isinstance(n, (ast.FunctionDef, ast.AsyncFunctionDef)):
                    q = pre + n.name
                    self.units[q] = Unit(m, q, n, src)
                    self.funcs[(m, n.name)] = q
                elif isinstance(n, ast.ClassDef):
                    ms = []
                    for f in n.body:
                        if isinstance(f, (ast.FunctionDef, ast.AsyncFunctionDef)):
                            q = pre + n.name + '.' + f.name
                            self.units[q] = Unit(m, q, f, src, cls=n.name)
                            ms.append(q)
                    self.classes[(m, n.name)] = ms
                elif m == 'simulation' and not isinstance(n, (ast.Import, ast.ImportFrom)):
                    for t in ast.walk(n):
                        if isinstance(t, (ast.FunctionDef, ast.AsyncFunctionDef)):
                            raise Refuse('hashiter2v: REFUSED function %s defined conditionally at EoN/simulation.py:%d' % (t.name, t.lineno))
        self.entries = [n.name for n in self.mods['simulation'][1].body
                        if isinstance(n, (ast.FunctionDef, ast.AsyncFunctionDef)) and not n.name.startswith('_')]
        self.self_attrs = {}   # (mod, class) -> attr -> [exprs]  (from `self.x = e` in any method)
        for (m, c), ms in self.classes.items():
            d2 = {}
            for q in ms:
                for n in ast.walk(self.units[q].node):
                    if isinstance(n, ast.Assign):
                        for t in n.targets:
                            if isinstance(t, ast.Attribute) and isinstance(t.value, ast.Name) and t.value.id == 'self':
                                d2.setdefault(t.attr, []).append((q, n.value))
            self.self_attrs[(m, c)] = d2
        self._edges = {}
        self._ret = {}
        self.not_followed = set()

    # ------------------------------------------------------------- graph --
    def edges(self, q):
        if q in self._edges:
            return self._edges[q]
        u = self.units[q]
        out = set()
        local = set(u.params) | u.stores | u.inner_params
        for n in ast.walk(u.node):
            if isinstance(n, ast.Name) and isinstance(n.ctx, ast.Load) and n.id not in local:
                if (u.mod, n.id) in self.funcs:
                    out.add(self.funcs[(u.mod, n.id)])
                elif (u.mod, n.id) in self.classes:
                    out.update(self.classes[(u.mod, n.id)])
            elif isinstance(n, ast.Attribute) and isinstance(n.ctx, ast.Load):
                chain = []
                e = n
                while isinstance(e, ast.Attribute):
                    chain.append(e.attr)
                    e = e.value
                if isinstance(e, ast.Name) and e.id == 'EoN' and 'EoN' not in local:
                    chain.reverse()
                    tgt = None
                    if chain[0] in self.mods and len(chain) >= 2:
                        cands = [(chain[0], chain[1])]
                    else:
                        cands = [(m, chain[0]) for m in self.mods]
                    for key in cands:
                        if key in self.funcs:
                            tgt = [self.funcs[key]]
                        elif key in self.classes:
                            if key[0] == 'simulation':
                                tgt = self.classes[key]
                            else:
                                # class of another module (Simulation_Investigation, EoNError):
                                # a constructor call that post-processes the finished run
                                tgt = []
                                self.not_followed.add((q, 'EoN.' + key[1]))
                    if tgt is None:
                        known_other = chain[0] in self.mods or chain[0].startswith('__')
                        if not known_other and not self._is_global(chain[0]):
                            raise Refuse('hashiter2v: REFUSED EoN.%s (used in %s, EoN/%s.py:%d) is defined nowhere in the EoN package'
                                         % ('.'.join(chain), q, u.mod, n.lineno))
                    else:
                        out.update(tgt)
        self._edges[q] = out
        return out

    def _is_global(self, name):
        for m, (src, tree) in self.mods.items():
            for n in tree.body:
                for t in ast.walk(n) if not isinstance(n, (ast.FunctionDef, ast.ClassDef)) else []:
                    if isinstance(t, ast.Name) and isinstance(t.ctx, ast.Store) and t.id == name:
                        return True
        return False

    def reachable(self, entry):
        seen, todo = [], [entry]
        while todo:
            q = todo.pop()
            if q in seen:
                continue
            seen.append(q)
            todo.extend(sorted(self.edges(q), reverse=True))
        return seen

    # ---------------------------------------------------------- kinds -----
    def kind_name(self, u, name, depth):
        if depth > 6:
            return 'Other'
        ks = []
        if name in u.params:
            ks.append('Param')
        for v in u.assigns.get(name, []):
            ks.append(self.kind(u, v, depth + 1))
        for it in u.loop_targets.get(name, []):
            ks.append('Set' if self.is_components(u, it, depth + 1) else 'Other')
        if not ks:
            if name in u.inner_params:
                return 'Param'
            if name in GRAPH_NAMES:
                return 'Graph'
            return 'Other'
        if name in GRAPH_NAMES and all(k in ('Param', 'Other') for k in ks):
            return 'Graph'
        return worst(ks)

    def is_components(self, u, e, depth=0):
        if isinstance(e, ast.Call):
            f = e.func
            nm = f.attr if isinstance(f, ast.Attribute) else (f.id if isinstance(f, ast.Name) else None)
            if nm in NX_COMP_FUNCS:
                return True
            if nm in PASS_FUNCS | {'sorted'} and e.args:
                return self.is_components(u, e.args[0], depth + 1)
        if isinstance(e, ast.Name) and depth < 6:
            return any(self.is_components(u, v, depth + 1) for v in u.assigns.get(e.id, []))
        if isinstance(e, ast.GeneratorExp) or isinstance(e, ast.ListComp):
            return False
        return False

    def elem_is_set(self, u, e, depth):
        """e is a container whose elements are sets: defaultdict(set)"""
        if isinstance(e, ast.Call):
            f = e.func
            nm = f.attr if isinstance(f, ast.Attribute) else (f.id if isinstance(f, ast.Name) else None)
            if nm == 'defaultdict' and e.args and isinstance(e.args[0], ast.Name) and e.args[0].id in ('set', 'frozenset'):
                return True
        if isinstance(e, ast.Name) and depth < 6:
            return any(self.elem_is_set(u, v, depth + 1) for v in u.assigns.get(e.id, []))
        return False

    def return_kind(self, q, depth):
        if q in self._ret:
            return self._ret[q]
        self._ret[q] = 'Other'
        u = self.units[q]
        ks = []
        for n in ast.walk(u.node):
            if isinstance(n, ast.Return) and n.value is not None:
                ks.append(self.kind(u, n.value, depth + 1))
        self._ret[q] = worst(ks) or 'Other'
        return self._ret[q]

    def kind(self, u, e, depth=0):
        if depth > 8:
            return 'Other'
        if isinstance(e, (ast.Set, ast.SetComp)):
            return 'Set'
        if isinstance(e, (ast.Dict, ast.DictComp)):
            return 'Dict'
        if isinstance(e, (ast.List, ast.Tuple, ast.ListComp)):
            return 'List'
        if isinstance(e, ast.Constant):
            return 'List' if isinstance(e.value, (str, bytes)) else 'Other'
        if isinstance(e, ast.GeneratorExp):
            return worst([self.kind(u, g.iter, depth + 1) for g in e.generators]) or 'Other'
        if isinstance(e, ast.IfExp):
            return worst([self.kind(u, e.body, depth + 1), self.kind(u, e.orelse, depth + 1)])
        if isinstance(e, ast.BinOp):
            l, r = self.kind(u, e.left, depth + 1), self.kind(u, e.right, depth + 1)
            if isinstance(e.op, (ast.BitOr, ast.BitAnd, ast.Sub, ast.BitXor)) and 'Set' in (l, r):
                return 'Set'
            if isinstance(e.op, (ast.Add, ast.Mult)):
                return worst([l, r])
            return 'Other'
        if isinstance(e, ast.Name):
            return self.kind_name(u, e.id, depth + 1)
        if isinstance(e, ast.Subscript):
            if isinstance(e.slice, ast.Slice):
                return self.kind(u, e.value, depth + 1)
            if self.elem_is_set(u, e.value, depth + 1):
                return 'Set'
            if isinstance(e.value, ast.Attribute) and e.value.attr in GRAPH_ATTRS:
                return 'Graph'
            if isinstance(e.value, ast.Name) and self.kind_name(u, e.value.id, depth + 1) == 'Graph':
                return 'Graph'          # G[u]
            return 'Other'
        if isinstance(e, ast.Attribute):
            if e.attr in GRAPH_ATTRS:
                return 'Graph'
            if isinstance(e.value, ast.Name) and e.value.id == 'self' and u.cls:
                vs = self.self_attrs.get((u.mod, u.cls), {}).get(e.attr, [])
                ks = [self.kind(self.units[q], v, depth + 1) for q, v in vs]
                return worst(ks) or 'Other'
            return 'Other'
        if isinstance(e, ast.Call):
            f = e.func
            if isinstance(f, ast.Name):
                nm = f.id
                if nm in ('set', 'frozenset'):
                    return 'Set'
                if nm in ('dict', 'defaultdict', 'Counter', 'OrderedDict'):
                    return 'Dict'
                if nm in PASS_FUNCS:
                    if not e.args:
                        return 'List'
                    k = self.kind(u, e.args[0], depth + 1)
                    return k
                if nm in LIST_FUNCS:
                    if nm == 'zip' or nm == 'map' or nm == 'filter':
                        ks = [self.kind(u, a, depth + 1) for a in (e.args[1:] if nm in ('map', 'filter') else e.args)]
                        return worst(ks) or 'List'
                    return 'List'
                if nm in ('max', 'min') and e.args and self.is_components(u, e.args[0], depth + 1):
                    return 'Set'
                if nm not in u.params and nm not in u.stores and (u.mod, nm) in self.funcs:
                    return self.return_kind(self.funcs[(u.mod, nm)], depth + 1)
                return 'Other'
            if isinstance(f, ast.Attribute):
                a = f.attr
                base = f.value
                if a in SET_METHODS:
                    return 'Set'
                if a in DICT_METHODS:
                    return 'Dict'
                if a in NX_SET_FUNCS and isinstance(base, ast.Name) and base.id == 'nx':
                    return 'Set'
                if a in NX_COMP_FUNCS:
                    return 'Graph'
                if a in GRAPH_METHODS:
                    return 'Graph'
                if isinstance(base, ast.Name) and base.id == 'np':
                    return 'List'
                if isinstance(base, ast.Name) and base.id == 'random' and a in ('sample', 'choices'):
                    return 'List'
                if isinstance(base, ast.Name) and base.id == 'heapq':
                    return 'List'
                if a == 'copy':
                    return self.kind(u, base, depth + 1)
                if a in ('split', 'tolist'):
                    return 'List'
                if isinstance(base, ast.Name) and base.id == 'EoN':
                    for m in self.mods:
                        if (m, a) in self.funcs:
                            return self.return_kind(self.funcs[(m, a)], depth + 1)
                return 'Other'
        return 'Other'

    # ------------------------------------------------------------- loops --
    def loops(self, q):
        u = self.units[q]
        out = []
        for n in ast.walk(u.node):
            its = []
            if isinstance(n, (ast.For, ast.AsyncFor)):
                its = [n.iter]
            elif isinstance(n, (ast.ListComp, ast.SetComp, ast.DictComp, ast.GeneratorExp)):
                its = [g.iter for g in n.generators]
            for it in its:
                txt = ' '.join((ast.get_source_segment(u.src, it) or ast.dump(it)).split())
                out.append((q, it.lineno, it.col_offset, self.kind(u, it) or 'Other', txt))
        out.sort(key=lambda x: (x[1], x[2]))
        return [(a, b, d, e) for a, b, c, d, e in out]

    def table(self):
        tab = []
        cache = {}
        for en in self.entries:
            rows = []
            for q in sorted(self.reachable(en), key=lambda q: (self.units[q].mod != 'simulation', self.units[q].node.lineno)):
                if q not in cache:
                    cache[q] = self.loops(q)
                rows.extend(cache[q])
            tab.append((en, rows))
        return tab


def coq_str(s):
    s = s.replace('"', '""')
    return '"' + ''.join(ch if 32 <= ord(ch) <= 126 else '?' for ch in s) + '"'


def emit(T, tab):
    L = []
    w = L.append
    w('(* GENERATED by translate/hashiter2v.py from the current text of EoN/simulation.py -- do not edit.')
    w('   For each public entry point: every for-loop / comprehension generator in a function')
    w('   reachable from it: (function, line, kind of the iterable, source text of the iterable).')
    w('   Reachability (over-approximation): bare names of module functions and `EoN.X` occurring')
    w('   in a body (calls AND functions passed as values, e.g. to Q.add), all methods of a')
    w('   simulation.py class whose name occurs; nested defs belong to their container; calls')
    w('   through parameters (user functions) are not followed.')
    w('   Kinds (syntactic, flow-insensitive, worst over all assignments of a local, order')
    w('   Set > Dict > Graph > Param > Other > List):')
    w('     SetOrder   set()/frozenset()/set literal/comprehension, .union/.intersection/.difference,')
    w('                | & - ^ on sets, nx.descendants/ancestors, elements of nx.*connected_components,')
    w('                x[..] of defaultdict(set), list()/enumerate()/... of those')
    w('     DictOrder  dict/defaultdict/Counter/dict literal/comprehension, .keys()/.values()/.items()')
    w('                (insertion ordered in Python >= 3.7)')
    w('     GraphOrder G.nodes()/neighbors()/edges()/successors()/predecessors()/degree()/adj,')
    w('                a graph variable G/H itself, nx.*connected_components(...) generators')
    w('                (networkx adjacency dicts: insertion ordered)')
    w('     ParamOrder a parameter of the function that contains the loop (caller chooses the order)')
    w('     ListOrder  list/tuple literal or comprehension, range, sorted, np.*, random.sample, slices and')
    w('                concatenations of those')
    w('     OtherOrder anything else.  Full rules: docstring of the translator. *)')
    w('From Coq Require Import String List.')
    w('Require Import EoNV.Model.HashIter.')
    w('Import ListNotations.')
    w('Open Scope string_scope.')
    w('')
    # share rows per function to keep the file small
    fn_rows = {}
    for en, rows in tab:
        for r in rows:
            fn_rows.setdefault(r[0], [])
            if r not in fn_rows[r[0]]:
                fn_rows[r[0]].append(r)
    ident = {}
    for i, q in enumerate(sorted(fn_rows)):
        ident[q] = 'loops_%d' % i
        w('Definition %s : list iter_site := (* %s *)' % (ident[q], q))
        w('  [' + ';\n   '.join('(%s, %d, %sOrder, %s)' % (coq_str(a), b, c, coq_str(d)) for a, b, c, d in fn_rows[q]) + '].')
    w('')
    w('Definition hash_iter_table : list (string * list iter_site) :=')
    ents = []
    for en, rows in tab:
        qs = []
        for r in rows:
            if r[0] not in qs:
                qs.append(r[0])
        ents.append('  (%s, (%s)%%list)' % (coq_str(en), ' ++ '.join(ident[q] for q in qs) if qs else '[]'))
    w('  [' + ';\n  '.join(e.strip() for e in ents) + '].')
    w('')
    w('Definition set_iter_sites (entry : string) : list iter_site := set_iter_sites_in hash_iter_table entry.')
    w('Definition has_set_iter (entry : string) : bool := has_set_iter_in hash_iter_table entry.')
    w('')
    w('(* constructors of classes of other modules that are not followed: (function, class) *)')
    w('Definition not_followed : list (string * string) :=')
    w('  [' + '; '.join('(%s, %s)' % (coq_str(a), coq_str(b)) for a, b in sorted(T.not_followed)) + '].')
    w('')
    w('(* entry point -> functions reachable from it (the over-approximated call graph) *)')
    w('Definition reach_table : list (string * list string) :=')
    w('  [' + ';\n   '.join('(%s, [%s])' % (coq_str(en), '; '.join(coq_str(q) for q in T.reachable(en))) for en in T.entries) + '].')
    return '\n'.join(L) + '\n'


def main(argv=None):
    ap = argparse.ArgumentParser()
    ap.add_argument('--repo', default=os.environ.get('EON_REPO', '/repo'))
    ap.add_argument('-o', '--out', default=None)
    ap.add_argument('--json', action='store_true')
    a = ap.parse_args(argv)
    try:
        T = Translator(a.repo)
        tab = T.table()
        txt = emit(T, tab)
    except Refuse as e:
        sys.stderr.write(str(e) + '\n')
        return 2
    if a.json:
        json.dump(tab, sys.stdout, indent=1)
    elif a.out:
        os.makedirs(os.path.dirname(os.path.abspath(a.out)), exist_ok=True)
        old = open(a.out).read() if os.path.exists(a.out) else None
        if old != txt:
            tmp = '%s.%d.tmp' % (a.out, os.getpid())
            open(tmp, 'w').write(txt)
            os.replace(tmp, a.out)
        sys.stderr.write('hashiter2v: %d entry points, %d loop sites -> %s\n' % (len(tab), sum(len(r) for _, r in tab), a.out))
    else:
        sys.stdout.write(txt)
    return 0


if __name__ == '__main__':
    sys.exit(main())
