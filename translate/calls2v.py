#!/venv/bin/python
"""calls2v -- argument forwarding of EoN wrapper functions as Coq data (DESIGN 2.4(b)).

usage: calls2v.py [--repo /repo] [-o coq/Gen/Calls.v] [--json]

Reads the CURRENT text of EoN/simulation.py and EoN/analytic.py (wrappers) and of
EoN/auxiliary.py, EoN/__init__.py, EoN/legacy.py (callee signatures only; legacy.py
also as wrapper source when it defines Gillespie_Arbitrary) and emits, for every
*forwarding call site*, one Coq record of type [site] (coq/Model/Calls.v).

A forwarding call site is a call expression located in the body of a module-level
function W of simulation.py / analytic.py whose callee resolves to a module-level
function F of one of the EoN files above, written `F(...)`, `EoN.F(...)`,
`EoN.<module>.F(...)`.  Calls inside nested functions / lambdas of W count as sites of W; methods of module-level
classes are wrappers named "Class.method".
Site ids are "W->F@n" with n the 0-based rank of the call among ALL forwarding calls
of W in source order (line, column).

HIGHER-ORDER sites.  Two library idioms hand an EoN function and its argument tuple to
a library that performs the call; they are emitted as sites too (id "W->F@n" as above,
field s_via = "odeint" / "Q.add"):
  integrate.odeint(F, X0, times, args=(a1,..,ak))   calls  F(<X0>, <t>, a1,..,ak)
  _my_odeint_(F, X0, times, args=(a1,..,ak))        the same (EoN's own odeint stand-in;
                                                    the call of _my_odeint_ itself is a direct site too)
  Q.add(time, F, args=(a1,..,ak))                   calls  F(time, a1,..,ak)
     (myQueue.pop_and_run does `function(t, *args)` with t the queued time)
When `args=` is not a literal tuple (one site: _find_next_trans_SIS_Markov forwards a
tuple built by its caller) the appearance is listed under [fn_values] instead.
For odeint the first two positionals are emitted as AExpr "<odeint:y>" / "<odeint:t>".
Any other appearance of an EoN function as a value (assigned to a variable, passed to
another function, stored) is reported on stderr as NOTE and listed in the generated
file under [fn_values]; it is not a site.  A call whose callee is a *local variable
that was assigned an EoN function* is refused (exit 2).

Argument classification (constructor of [argexpr]):
  ABare x rebound   bare Name x, x is a parameter of W.  rebound=true when some
                    statement of W at a line before the call assigns x (for example
                    `initial_infecteds = set(initial_infecteds)`): the value is then a
                    normalised form of the caller's value, so it keeps its meaning and
                    is still checked against the callee parameter name.
  ALocal x          bare Name x bound somewhere in W (assignment, for/with/except
                    target, comprehension variable, nested def/lambda parameter,
                    import, walrus) and not a parameter of W
  AGlobal x         bare Name x bound at module level (import, def, class, assignment)
                    or a Python builtin
  AUndefined x      the expression mentions a Name that is none of the above: Python
                    raises NameError when the call is evaluated.  (Checked for every
                    Name occurring anywhere inside the argument, x = first such name.)
  AConst r          constant, or tuple/list of constants, or +/- constant
  AExpr r names     anything else; r is the source text, names the free Names in it
  AStar r / AStarStar r    `*e` / `**e`

Besides the sites the file lists [unread_params]: for every public function of the
wrapper modules, its parameters that no expression of its body ever reads.

Fail-closed (exit 2, message names construct, file, line):
  * positional-only parameters in a callee signature,
  * two EoN modules defining the same function name with different signatures when
    the call is written EoN.F(...),
  * `EoN.X(...)` / `EoN.mod.X(...)` where X is defined nowhere in the EoN package,
  * a call through a local variable / attribute / subscript that holds an EoN function,
  * `from EoN... import ...`, relative imports or `import EoN.x as y` in a wrapper
    module (EoN names would be reachable under names this translator does not track),
  * a function defined inside a module-level if/try/with/for,
  * source that does not parse.
Calls to anything that is not an EoN module-level function (numpy, networkx, classes
such as EoN.Simulation_Investigation / EoN.EoNError, methods) are ignored.
"""
import ast, sys, os, argparse, json, builtins, warnings

WRAPPER_MODULES = ['simulation', 'analytic']
SIG_ONLY_MODULES = ['auxiliary', '__init__', 'simulation_investigation', 'legacy']


class Refuse(Exception):
    pass


def refuse(mod, node, what):
    raise Refuse('calls2v: REFUSED %s at EoN/%s.py:%s' % (what, mod, getattr(node, 'lineno', '?')))


def coq_str(s):
    s = s.replace('"', '""')
    out = []
    for ch in s:
        o = ord(ch)
        if ch == '\n' or ch == '\t':
            out.append(' ')
        elif o < 32 or o > 126:
            out.append('?')
        else:
            out.append(ch)
    return '"' + ''.join(out) + '"'


def coq_list(xs):
    return '[' + '; '.join(xs) + ']'


def coq_bool(b):
    return 'true' if b else 'false'


class Module:
    def __init__(self, name, path):
        self.name = name
        self.path = path
        self.src = open(path, encoding='utf-8').read()
        with warnings.catch_warnings():
            warnings.simplefilter('ignore')
            try:
                self.tree = ast.parse(self.src, filename=path)
            except SyntaxError as e:
                raise Refuse('calls2v: REFUSED unparsable source %s: %s' % (path, e))
        self.funcs = {}       # name -> FunctionDef (last definition wins, as in Python)
        self.classes = set()
        self.globals = set()
        for n in self.tree.body:
            if isinstance(n, (ast.FunctionDef, ast.AsyncFunctionDef)):
                self.funcs[n.name] = n
                self.globals.add(n.name)
            elif isinstance(n, ast.ClassDef):
                self.classes.add(n.name)
                self.globals.add(n.name)
            elif isinstance(n, (ast.Import, ast.ImportFrom)):
                for a in n.names:
                    self.globals.add((a.asname or a.name).split('.')[0])
                    if name in WRAPPER_MODULES:
                        # the only way EoN names enter a wrapper module is `import EoN`
                        if isinstance(n, ast.ImportFrom) and (n.level > 0 or (n.module or '').split('.')[0] == 'EoN'):
                            refuse(name, n, 'from-import of EoN names (`from %s import %s`)' % ('.' * n.level + (n.module or ''), a.name))
                        if isinstance(n, ast.Import) and a.name.split('.')[0] == 'EoN' and (a.asname or a.name != 'EoN'):
                            refuse(name, n, 'aliased import of an EoN module (`import %s as %s`)' % (a.name, a.asname))
            else:
                for t in ast.walk(n):
                    if isinstance(t, ast.Name) and isinstance(t.ctx, ast.Store):
                        self.globals.add(t.id)
                    if isinstance(t, (ast.FunctionDef, ast.AsyncFunctionDef)) and name in WRAPPER_MODULES \
                            and not isinstance(n, (ast.FunctionDef, ast.ClassDef)):
                        refuse(name, t, 'function %s defined conditionally at module level' % t.name)


def signature_of(mod, fn):
    a = fn.args
    if a.posonlyargs:
        refuse(mod, fn, 'positional-only parameters in def %s' % fn.name)
    params = []
    nd = len(a.defaults)
    npos = len(a.args)
    for i, p in enumerate(a.args):
        params.append((p.arg, i >= npos - nd, False))
    for p, d in zip(a.kwonlyargs, a.kw_defaults):
        params.append((p.arg, d is not None, True))
    return {'params': params, 'varargs': a.vararg is not None, 'kwargs': a.kwarg is not None}


def bound_names(fn):
    """every name bound anywhere inside fn (not its own parameters), with the first
    line at which it is bound"""
    out = {}

    def add(name, line):
        if name not in out or line < out[name]:
            out[name] = line
    for n in ast.walk(fn):
        if isinstance(n, ast.Name) and isinstance(n.ctx, (ast.Store, ast.Del)):
            add(n.id, n.lineno)
        elif isinstance(n, (ast.FunctionDef, ast.AsyncFunctionDef, ast.Lambda)) and n is not fn:
            if not isinstance(n, ast.Lambda):
                add(n.name, n.lineno)
            aa = n.args
            for p in aa.posonlyargs + aa.args + aa.kwonlyargs + ([aa.vararg] if aa.vararg else []) + ([aa.kwarg] if aa.kwarg else []):
                add(p.arg, n.lineno)
        elif isinstance(n, ast.ClassDef):
            add(n.name, n.lineno)
        elif isinstance(n, (ast.Import, ast.ImportFrom)):
            for a in n.names:
                add((a.asname or a.name).split('.')[0], n.lineno)
        elif isinstance(n, ast.ExceptHandler) and n.name:
            add(n.name, n.lineno)
        elif isinstance(n, (ast.Global, ast.Nonlocal)):
            for x in n.names:
                add(x, n.lineno)
    return out


def own_params(fn):
    a = fn.args
    return [p.arg for p in a.posonlyargs + a.args] + ([a.vararg.arg] if a.vararg else []) + \
           [p.arg for p in a.kwonlyargs] + ([a.kwarg.arg] if a.kwarg else [])


def is_const(e):
    if isinstance(e, ast.Constant):
        return True
    if isinstance(e, (ast.Tuple, ast.List)):
        return all(is_const(x) for x in e.elts)
    if isinstance(e, ast.UnaryOp) and isinstance(e.op, (ast.USub, ast.UAdd)):
        return is_const(e.operand)
    return False


class Translator:
    def __init__(self, repo):
        self.repo = repo
        self.mods = {}
        d = os.path.join(repo, 'EoN')
        for m in WRAPPER_MODULES:
            p = os.path.join(d, m + '.py')
            if not os.path.exists(p):
                raise Refuse('calls2v: REFUSED missing source file ' + p)
            self.mods[m] = Module(m, p)
        for m in SIG_ONLY_MODULES:
            p = os.path.join(d, m + '.py')
            if os.path.exists(p):
                self.mods[m] = Module(m, p)
        self.wrapper_mods = list(WRAPPER_MODULES)
        if 'legacy' in self.mods and 'Gillespie_Arbitrary' in self.mods['legacy'].funcs:
            self.wrapper_mods.append('legacy')
        self.builtins = set(dir(builtins))
        self.sites = []
        self.fn_values = []
        self.unread = []     # public function -> parameters never read in its body
        self.notes = []

    # ---------------------------------------------------------- resolution --
    def resolve(self, mod, func_expr, localnames, node):
        """-> (module, name) of the EoN function called, or None when the callee is
        not an EoN module-level function."""
        if isinstance(func_expr, ast.Name):
            nm = func_expr.id
            if nm in localnames:
                return None
            if nm in self.mods[mod].funcs:
                return (mod, nm)
            return None
        if isinstance(func_expr, ast.Attribute):
            chain = []
            e = func_expr
            while isinstance(e, ast.Attribute):
                chain.append(e.attr)
                e = e.value
            if not (isinstance(e, ast.Name) and e.id == 'EoN' and 'EoN' not in localnames):
                return None
            chain.reverse()
            if len(chain) == 1:
                nm = chain[0]
                cands = [m for m in self.mods if m != 'legacy' and nm in self.mods[m].funcs]
                if cands:
                    sigs = {json.dumps(signature_of(m, self.mods[m].funcs[nm])) for m in cands}
                    if len(sigs) > 1:
                        refuse(mod, node, 'EoN.%s defined with different signatures in %s' % (nm, cands))
                    return (cands[-1], nm)
                if any(nm in self.mods[m].classes or nm in self.mods[m].globals for m in self.mods):
                    return None
                if nm in ('simulation', 'analytic', 'auxiliary', 'simulation_investigation'):
                    return None
                refuse(mod, node, 'call of EoN.%s which is defined nowhere in the EoN package' % nm)
            if len(chain) == 2 and chain[0] in self.mods:
                m2, nm = chain
                if nm in self.mods[m2].funcs:
                    return (m2, nm)
                if nm in self.mods[m2].classes or nm in self.mods[m2].globals:
                    return None
                refuse(mod, node, 'call of EoN.%s.%s which is not defined' % (m2, nm))
            refuse(mod, node, 'call through attribute chain EoN.%s' % '.'.join(chain))
        return None

    def fn_value(self, mod, e, localnames):
        """EoN function denoted by expression e used as a value, or None"""
        if isinstance(e, (ast.Name, ast.Attribute)):
            try:
                return self.resolve(mod, e, localnames, e)
            except Refuse:
                return None
        return None

    # ------------------------------------------------------ classification --
    def classify(self, mod, e, wparams, locs, callline):
        M = self.mods[mod]
        src = ast.get_source_segment(M.src, e) or ast.dump(e)
        src = ' '.join(src.split())

        def status(name):
            if name in wparams:
                return 'param'
            if name in locs:
                return 'local'
            if name in M.globals or name in self.builtins:
                return 'global'
            return 'undef'
        # free names: comprehension/lambda-bound names are in locs already (bound_names)
        names = []
        for t in ast.walk(e):
            if isinstance(t, ast.Name) and t.id not in names:
                names.append(t.id)
        for nm in names:
            if status(nm) == 'undef':
                return ('AUndefined', nm, src)
        if isinstance(e, ast.Name):
            st = status(e.id)
            if st == 'param':
                rebound = e.id in locs and locs[e.id] < callline
                return ('ABare', e.id, rebound)
            if st == 'local':
                return ('ALocal', e.id)
            return ('AGlobal', e.id)
        if is_const(e):
            return ('AConst', src)
        return ('AExpr', src, names)

    # --------------------------------------------------------------- sites --
    def run(self):
        for mod in self.wrapper_mods:
            M = self.mods[mod]
            for wname, fn in M.funcs.items():
                self.do_wrapper(mod, wname, fn)
            for cls in M.tree.body:          # methods are wrappers "Class.method"
                if isinstance(cls, ast.ClassDef):
                    for fn in cls.body:
                        if isinstance(fn, (ast.FunctionDef, ast.AsyncFunctionDef)):
                            self.do_wrapper(mod, cls.name + '.' + fn.name, fn)
        return self

    def do_wrapper(self, mod, wname, fn):
        M = self.mods[mod]
        wparams = own_params(fn)
        if not wname.startswith('_'):
            read = {n.id for n in ast.walk(fn) if isinstance(n, ast.Name) and isinstance(n.ctx, ast.Load)}
            un = [x for x in wparams if x not in read]
            if un:
                self.unread.append((wname, un))
        locs = bound_names(fn)
        localnames = set(locs) | set(wparams)
        # local variables holding EoN functions
        aliases = {}
        for n in ast.walk(fn):
            if isinstance(n, ast.Assign):
                fv = self.fn_value(mod, n.value, localnames)
                if fv:
                    for t in n.targets:
                        for x in ast.walk(t):
                            if isinstance(x, ast.Name):
                                aliases[x.id] = (fv, n.lineno)
        calls = [n for n in ast.walk(fn) if isinstance(n, ast.Call)]
        calls.sort(key=lambda c: (c.lineno, c.col_offset))
        found = []     # (call node, (module, name), via, positional exprs, keywords)
        consumed = set()
        for c in calls:
            f = c.func
            if isinstance(f, ast.Name) and f.id in aliases:
                refuse(mod, c, 'call through local variable %s holding EoN function %s' % (f.id, aliases[f.id][0][1]))
            tgt = self.resolve(mod, f, localnames, c)
            if tgt is not None:
                consumed.add(id(f))
                found.append((c, tgt, 'direct', list(c.args), list(c.keywords)))
                if tgt[1] != '_my_odeint_':
                    continue
            # higher-order idioms
            via = None
            if ((isinstance(f, ast.Attribute) and f.attr == 'odeint') or
                    (tgt is not None and tgt[1] == '_my_odeint_')) and len(c.args) >= 1:
                via, fexpr, pre = 'odeint', c.args[0], ['<odeint:y>', '<odeint:t>']
            elif isinstance(f, ast.Attribute) and f.attr == 'add' and isinstance(f.value, ast.Name) \
                    and f.value.id == 'Q' and len(c.args) >= 2:
                via, fexpr, pre = 'Q.add', c.args[1], [c.args[0]]
            if via:
                fv = self.fn_value(mod, fexpr, localnames)
                if fv is None and isinstance(fexpr, ast.Name) and fexpr.id in aliases:
                    refuse(mod, c, '%s through local variable %s holding an EoN function' % (via, fexpr.id))
                if fv is not None:
                    argt = [k.value for k in c.keywords if k.arg == 'args']
                    if via == 'odeint' and not argt and len(c.args) >= 4:
                        argt = [c.args[3]]
                    if via == 'Q.add' and not argt and len(c.args) >= 3:
                        argt = [c.args[2]]
                    if not argt:
                        extra = []
                    elif isinstance(argt[0], ast.Tuple):
                        extra = list(argt[0].elts)
                    else:
                        # argument tuple built elsewhere (e.g. handed in by the caller):
                        # not analysable as a site; listed under fn_values
                        continue
                    consumed.add(id(fexpr))
                    found.append((c, fv, via, pre + extra, []))
        # other appearances of EoN functions as values
        for n in ast.walk(fn):
            if isinstance(n, (ast.Name, ast.Attribute)) and id(n) not in consumed and \
                    isinstance(getattr(n, 'ctx', None), ast.Load):
                fv = self.fn_value(mod, n, localnames)
                if fv:
                    self.fn_values.append((wname, fv[1], n.lineno))
        for rank, (c, (cm, cn), via, pos, kws) in enumerate(found):
            sig = signature_of(cm, self.mods[cm].funcs[cn])
            cpos, ckw = [], []
            for a in pos:
                if isinstance(a, str):
                    cpos.append(('AExpr', a, []))
                elif isinstance(a, ast.Starred):
                    s = ' '.join((ast.get_source_segment(M.src, a.value) or '?').split())
                    cpos.append(('AStar', s))
                else:
                    cpos.append(self.classify(mod, a, wparams, locs, c.lineno))
            for k in kws:
                if k.arg is None:
                    s = ' '.join((ast.get_source_segment(M.src, k.value) or '?').split())
                    ckw.append(('', ('AStarStar', s)))
                else:
                    ckw.append((k.arg, self.classify(mod, k.value, wparams, locs, c.lineno)))
            self.sites.append({
                'id': '%s->%s@%d' % (wname, cn, rank), 'wrapper': wname, 'wmodule': mod,
                'wparams': wparams, 'callee': cn, 'cmodule': cm, 'sig': sig, 'via': via,
                'pos': cpos, 'kw': ckw, 'line': c.lineno})

    # ---------------------------------------------------------------- emit --
    @staticmethod
    def arg_v(a):
        k = a[0]
        if k == 'ABare':
            return '(ABare %s %s)' % (coq_str(a[1]), coq_bool(a[2]))
        if k in ('ALocal', 'AGlobal', 'AConst', 'AStar', 'AStarStar'):
            return '(%s %s)' % (k, coq_str(a[1]))
        if k == 'AUndefined':
            return '(AUndefined %s)' % coq_str(a[1])
        if k == 'AExpr':
            return '(AExpr %s %s)' % (coq_str(a[1]), coq_list([coq_str(x) for x in a[2]]))
        raise AssertionError(a)

    def emit(self):
        L = []
        w = L.append
        w('(* GENERATED by translate/calls2v.py from the current text of EoN/*.py -- do not edit.')
        w('   One [site] per forwarding call (see the translator docstring for the fragment')
        w('   and the classification rules).  %d sites. *)' % len(self.sites))
        w('From Coq Require Import String List NArith.')
        w('Require Import EoNV.Model.Calls.')
        w('Import ListNotations.')
        w('Open Scope string_scope.')
        w('')
        names = []
        for i, s in enumerate(self.sites):
            nm = 'site_%d' % i
            names.append(nm)
            sg = s['sig']
            ps = coq_list(['mkParam %s %s %s' % (coq_str(p), coq_bool(d), coq_bool(ko)) for p, d, ko in sg['params']])
            w('Definition %s : site := mkSite' % nm)
            w('  %s' % coq_str(s['id']))
            w('  %s %s %s%%N' % (coq_str(s['wrapper']), coq_str(s['wmodule']), s['line']))
            w('  %s' % coq_list([coq_str(x) for x in s['wparams']]))
            w('  %s %s' % (coq_str(s['callee']), coq_str(s['via'])))
            w('  (mkSig %s %s %s)' % (ps, coq_bool(sg['varargs']), coq_bool(sg['kwargs'])))
            w('  (mkCall %s' % coq_list([self.arg_v(a) for a in s['pos']]))
            w('          %s).' % coq_list(['(%s, %s)' % (coq_str(k), self.arg_v(a)) for k, a in s['kw']]))
        w('')
        w('Definition sites : list site :=')
        w('  ' + coq_list(names) + '.')
        w('')
        w('(* EoN functions used as values outside the recognised idioms (not sites): wrapper, function, line *)')
        w('Definition fn_values : list (string * string * N) :=')
        w('  ' + coq_list(['(%s, %s, %d%%N)' % (coq_str(a), coq_str(b), l) for a, b, l in self.fn_values]) + '.')
        w('')
        w('(* public functions (name not starting with _) with parameters that are never read')
        w('   anywhere in their body: the caller\'s value cannot influence anything *)')
        w('Definition unread_params : list (string * list string) :=')
        w('  ' + coq_list(['(%s, %s)' % (coq_str(a), coq_list([coq_str(x) for x in b])) for a, b in self.unread]) + '.')
        return '\n'.join(L) + '\n'


def main(argv=None):
    ap = argparse.ArgumentParser()
    ap.add_argument('--repo', default=os.environ.get('EON_REPO', '/repo'))
    ap.add_argument('-o', '--out', default=None)
    ap.add_argument('--json', action='store_true', help='dump the sites as JSON on stdout')
    a = ap.parse_args(argv)
    try:
        T = Translator(a.repo).run()
        txt = T.emit()
    except Refuse as e:
        sys.stderr.write(str(e) + '\n')
        return 2
    for wn, f, l in T.fn_values:
        sys.stderr.write('calls2v: NOTE %s uses EoN function %s as a value at line %d (not a site)\n' % (wn, f, l))
    if a.json:
        json.dump(T.sites, sys.stdout, indent=1)
    elif a.out:
        os.makedirs(os.path.dirname(os.path.abspath(a.out)), exist_ok=True)
        old = open(a.out).read() if os.path.exists(a.out) else None
        if old != txt:      # keep the mtime when nothing changed: make stays a no-op
            tmp = '%s.%d.tmp' % (a.out, os.getpid())
            open(tmp, 'w').write(txt)
            os.replace(tmp, a.out)
        sys.stderr.write('calls2v: %d sites -> %s\n' % (len(T.sites), a.out))
    else:
        sys.stdout.write(txt)
    return 0


if __name__ == '__main__':
    sys.exit(main())
