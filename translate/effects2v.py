#!/venv/bin/python
"""effects2v: fail-closed translator  EoN/{simulation,analytic,__init__}.py  ->  coq/Gen/Effects.v

Every module-level function is translated into the statement language of
coq/Model/Effects.v, which keeps only object identity, aliasing, buffer sharing
and in-place modification.  What is kept / how (the tables below are part of
the trusted base of property C19 and are printed into the generated file):

  x = y                     SAssign x (EVar y)                       (alias)
  x = y[i], for x in y      either an element  (ELoad y 0)  or a view sharing y's buffer
  x = y.T / reshape / asarray ...                                     view (VIEW_* tables)
  x = y + z, [a,b], list(y), np.array(y), y.copy(), dict literal ...  fresh object (EAlloc),
                            holding the operands (literals) or what the operands hold (copies)
  x = <opaque call>(args)   either an object reachable from the args (EReach) or a fresh
                            object that may hold / view anything reachable from them
                            (user callbacks, graph queries, library functions of table REACH_*)
  x.shape = .., x[i] = v, x.attr = v, del x[i], x op= v, x.m(..) with m in MUTATING_METHODS
                            SWrite line x field [v..]
  f(args) with f an EoN function: SCall with Python's binding rule applied here
  Q.add(t, h, args=(a1..an)) stores a_i in field (h,i) of Q; Q.pop_and_run() loads the
                            fields of every handler h and calls it (deferred calls)
  integrate.odeint(f, X0, t, args=(..)) / _my_odeint_: SCall f (fresh X, t, args..)
  if/else -> SIf (conditions only evaluated for their effects), for/while -> SLoop,
  return e -> weak assignment to the return slot, try -> every prefix of the body
  followed by the handler, comprehensions -> loop storing into a fresh container.

Pure constructs (constants, comparisons, arithmetic on scalars, f-strings, names of
functions/modules) denote the immutable placeholder LEAF.  Parameters listed in
SCALAR_PARAMS are documented as numbers/strings/booleans; they are rebound to LEAF on
entry (an immutable object cannot be modified, `t += dt` rebinds).

Checked, not trusted (harness/c19_tables.py, on every ./check C19): every table entry is called on the installed
numpy/networkx/scipy/builtins with representative arguments and the concrete heap before/after is compared with what the
category claims; the statement mapping is tested differentially on translate/effects_corpus/*.py (a function the checker
accepts must not modify an argument when it is run).  What that validation found and what was changed because of it:
  a.extend(b) / d.update(b) / x += b / x[i:j] = b / G.add_*_from(b) / nx.set_*_attributes store what b HOLDS (BULK_STORE);
  y[k] op= v modifies a mutable ELEMENT of y in place; y[3] also reads the value under the key 3 of a dictionary;
  list/tuple/sorted/reversed/deque of a 2-d array hold row VIEWS (ELEMENT_VIEWS); dict(pairs) / dict(a=p) hold the values;
  heapq.heappop returns an element; reverse/byteswap/set_integrator/set_initial_value/__iadd__ return (a view of) the receiver;
  np.sum / np.prod of a Python object and sum(xs, start) may return an argument; np.atleast_1d(x, y) views every argument;
  copy.copy(G) shares G's storage; out= / copy= / inplace= / as_view= / where= / start= and positional output buffers
  (np.sqrt(x, out), a.dot(b, out), a.max(axis, out), shift(x, s, out), G.copy(as_view)) are refused; so are unbound method
  calls (list.append(x, 1)), computed callees (getattr(x, 'append')(1)) and */** in library calls; default values of lambdas /
  nested functions are held by the function object.

Anything else makes the translator exit non-zero naming the construct and the line."""
import ast, sys, os, argparse, warnings
warnings.filterwarnings('ignore')

SCALAR_PARAMS = {
    'tau', 'gamma', 'tmin', 'tmax', 'tcount', 'rho', 'p', 'N', 'n', 'n_over_N', 'kcount', 'k_ave',
    'kcube_ave', 'ksquare_ave', 'number_its', 't', 'time', 'twoM', 'ucount', 'umax', 'umin',
    'return_full_data', 'SIR', 'weights', 'withKs', 'transmission_weight', 'recovery_weight',
    'transmissibility', 'progress', 'phiR0', 'phiS0', 'T', 'rate',
}

# methods that modify their receiver in place; value = does the call return an element of the receiver
MUTATING_METHODS = {
    'append': False, 'extend': False, 'insert': False, 'remove': False, 'pop': True, 'popitem': True,
    'clear': False, 'sort': False, 'reverse': True, 'update': False, 'add': False, 'discard': False,
    'setdefault': True, 'difference_update': False, 'intersection_update': False,
    'symmetric_difference_update': False, 'popleft': True, 'appendleft': False,
    'add_node': False, 'add_edge': False, 'add_nodes_from': False, 'add_edges_from': False,
    'add_weighted_edges_from': False, 'remove_node': False, 'remove_edge': False,
    'remove_nodes_from': False, 'remove_edges_from': False, 'clear_edges': False,
    'fill': False, 'resize': False, 'itemset': False, 'put': False, 'setfield': False,
    'setflags': False, 'partition': False, 'byteswap': True,
    'random_removal': True, 'update_total_weight': False, '_update_max_weight': False,
    'set_integrator': True, 'set_initial_value': True, 'integrate': True, 'subtract': False,
    'pop_and_run': False, '__setitem__': False, '__delitem__': False, '__iadd__': True,
}
# non-modifying methods returning an immutable scalar / a freshly computed numeric array
LEAF_METHODS = {'order', 'has_node', 'has_edge', 'total_weight', 'is_directed', 'index', 'format',
                'number_of_nodes', 'number_of_edges', 'size', 'count', 'sum', 'dot', 'mean', 'max',
                'min', 'all', 'any', 'cumsum', 'startswith', 'endswith', 'join', 'is_multigraph',
                '__len__', 'successful', 'tolist', 'toarray', 'todense', 'astype', 'cumprod'}
# non-modifying methods returning a NEW object that may hold anything reachable from receiver/args
DEEP_METHODS = {'neighbors', 'nodes', 'edges', 'items', 'keys', 'values', 'union', 'intersection',
                'difference', 'degree', 'predecessors', 'successors', 'in_edges', 'out_edges',
                'subgraph', 'to_directed', 'to_undirected', 'most_common', 'elements', 'adjacency',
                'nbunch_iter', 'in_degree', 'out_degree', 'symmetric_difference'}
# non-modifying methods returning a shallow/deep copy
COPY_METHODS = {'copy', 'flatten'}
# methods returning a view that shares the receiver's buffer
VIEW_METHODS = {'reshape', 'ravel', 'transpose', 'view', 'squeeze', 'swapaxes', 'diagonal'}
# non-modifying methods that may return an object held by the receiver
REACH_METHODS = {'get', 'choose_random', 'get_edge_data'}

VIEW_ATTRS = {'T', 'real', 'imag', 'flat', 'A', 'A1'}
LEAF_ATTRS = {'shape', 'size', 'ndim', 'dtype', 'tmax', 'counter', 'nbytes', 'itemsize', 'inf', 'pi', 'nan', 'Inf'}
REACH_ATTRS = {'nodes', 'adj', 'edges', 'edge', 'node', 'degree', 'pred', 'succ', 'graph', '_adj', '_node'}

# library functions (dotted name) -> category
LEAF_FUNCS = {
    'len', 'int', 'float', 'round', 'abs', 'bool', 'str', 'repr', 'print', 'range', 'isinstance', 'hash',
    'sum', 'type', 'callable', 'hasattr', 'id',
    'random.expovariate', 'random.random', 'random.randint', 'random.uniform', 'random.seed',
    'random.gauss', 'random.paretovariate', 'random.randrange',
    'np.random.binomial', 'np.random.random', 'np.random.seed', 'np.random.poisson',
    'np.exp', 'np.log', 'np.sqrt', 'np.zeros', 'np.ones', 'np.linspace', 'np.arange', 'np.dot',
    'np.empty', 'np.identity', 'np.eye', 'np.outer', 'np.isnan', 'np.abs', 'np.power',
    'np.zeros_like', 'np.ones_like', 'np.mean', 'np.cumsum',
    'math.exp', 'math.log', 'math.sqrt', 'math.floor', 'math.ceil',
    'binom', 'scipy.special.binom', 'shift', 'nx.is_directed', 'nx.number_of_nodes',
    'EoN.EoNError', 'EoNError', 'Exception', 'TypeError', 'ValueError', 'KeyError',
    'nx.adjacency_matrix', 'nx.to_numpy_array', 'nx.to_numpy_matrix',
}
# fresh container holding (a copy of) what the arguments hold
COPY_FUNCS = {'list', 'set', 'frozenset', 'tuple', 'dict', 'sorted', 'reversed', 'Counter', 'np.array',
              'np.concatenate', 'np.copy', 'np.hstack', 'np.vstack', 'np.stack',
              'random.sample', 'deque', 'collections.deque', 'np.fromiter'}
# fresh object that may hold anything reachable from the arguments
DEEP_FUNCS = {'zip', 'enumerate', 'iter', 'map', 'filter', 'copy.deepcopy',
              'nx.connected_components', 'nx.strongly_connected_components', 'nx.descendants',
              'nx.ancestors', 'nx.get_node_attributes', 'nx.get_edge_attributes', 'nx.Graph',
              'nx.DiGraph', 'nx.MultiGraph', 'nx.MultiDiGraph', 'nx.degree', 'nx.neighbors',
              'nx.nodes', 'nx.edges', 'nx.weakly_connected_components', 'nx.connected_component_subgraphs',
              'nx.node_connected_component', 'nx.subgraph', 'nx.to_directed',
              'EoN.Simulation_Investigation', 'Simulation_Investigation', 'integrate.ode'}
# may return one of the objects held by the arguments
REACH_FUNCS = {'max', 'min', 'next', 'random.choice', 'getattr', 'np.sum', 'np.prod'}
# view of the first argument
VIEW_FUNCS = {'np.asarray', 'np.asanyarray', 'np.reshape', 'np.ravel', 'np.transpose', 'np.squeeze',
              'np.atleast_1d', 'np.atleast_2d', 'np.ascontiguousarray', 'np.real', 'np.diagonal', 'np.diag', 'copy.copy'}
# library functions that modify their first argument in place
MUTATING_FUNCS = {'random.shuffle', 'heapq.heappush', 'heapq.heappop', 'heapq.heapify', 'np.put',
                  'np.fill_diagonal', 'np.copyto', 'np.place', 'np.putmask', 'setattr', 'delattr',
                  'nx.set_node_attributes', 'nx.set_edge_attributes', 'np.random.shuffle'}
# mutating library functions that return an element of their first argument
MUTATING_FUNCS_RETURNING = {'heapq.heappop'}
# mutating methods / functions that copy the CONTENTS of their arguments into the receiver (a.extend(b): a holds
# what b holds; d.update(pairs): what the pairs hold; G.add_nodes_from(view): ...): everything reachable from the
# arguments is stored (one object per store, in a loop).  Also used for  x += v  and  x[i:j] = v.
BULK_STORE = {'extend', 'update', '__iadd__', 'add_nodes_from', 'add_edges_from', 'add_weighted_edges_from',
              'intersection_update', 'symmetric_difference_update', 'difference_update', 'subtract',
              'nx.set_node_attributes', 'nx.set_edge_attributes', 'np.put', 'np.copyto', 'np.place', 'np.putmask'}
# keyword arguments of library calls that change what the call modifies / what its result shares (validated by
# harness/c19_tables.py: every table entry is tried with each of them): refused
REFUSED_KEYWORDS = {'out', 'copy', 'inplace', 'as_view', 'where', 'start'}
# largest number of positional arguments accepted for a library function / method whose later positional
# parameters include an output buffer (np.sqrt(x, out), a.dot(b, out), a.max(axis, out), G.copy(as_view))
MAX_POSITIONAL = {'np.exp': 1, 'np.log': 1, 'np.sqrt': 1, 'np.abs': 1, 'np.isnan': 1, 'np.power': 2, 'binom': 2,
                  'scipy.special.binom': 2, 'np.dot': 2, 'np.outer': 2, 'np.cumsum': 2, 'np.mean': 2, 'np.sum': 2,
                  'np.prod': 2, 'math.exp': 1, 'math.log': 2, 'math.sqrt': 1, 'copy.deepcopy': 1, 'copy.copy': 1,
                  'np.concatenate': 2, 'np.hstack': 1, 'np.vstack': 1, 'np.stack': 2, 'np.copy': 1, 'np.array': 2,
                  'np.fromiter': 2, 'np.linspace': 3, 'shift': 2,
                  '.dot': 1, '.max': 1, '.min': 1, '.sum': 1, '.mean': 1, '.cumsum': 1, '.cumprod': 1, '.all': 1, '.any': 1,
                  '.copy': 0, '.astype': 1, '.toarray': 0, '.todense': 0, '.tolist': 0, '.flatten': 1, '.byteswap': 0,
                  '.reverse': 0, '.sort': 0}
# builders of Python containers: iterating an ndarray argument yields VIEWS of it (list(A) of a 2-d array is a
# list of row views), so the result may hold views of its arguments besides what they hold
ELEMENT_VIEWS = {'list', 'tuple', 'sorted', 'reversed', 'set', 'frozenset', 'deque', 'collections.deque',
                 'random.sample', 'Counter', 'dict'}
# COPY_FUNCS that look two levels down: np.array([[a], [b]]), dict([(k, v)])
TWO_LEVEL_COPY = {'dict'}
VIEW_ALL_ARGS = True      # np.atleast_1d(x, y): the result may view any argument
ODE_FUNCS = {'integrate.odeint', '_my_odeint_', 'scipy.integrate.odeint'}
DEFAULT_FACTORIES = {'list', 'dict', 'set', 'int', 'float', 'str', 'bool', 'tuple'}
NUMERIC_CTORS = {'np.zeros', 'np.ones', 'np.empty', 'np.linspace', 'np.arange', 'np.identity', 'np.eye'}
MODULES = {'np', 'nx', 'random', 'math', 'integrate', 'scipy', 'EoN', 'heapq', 'copy', 'collections', 'sys', 'os', 'warnings'}
BUILTIN_VALUES = {'None', 'True', 'False', 'list', 'dict', 'set', 'int', 'float', 'str', 'tuple', 'bool', 'len',
                  'defaultdict', 'Counter', 'print', 'range', 'sum', 'max', 'min', 'sorted', 'zip', 'enumerate',
                  'Exception', 'TypeError', 'AttributeError', 'KeyError', 'ValueError', 'binom', 'myQueue', '_ListDict_',
                  'abs', 'round', 'map', 'filter', 'shift', 'frozenset', 'isinstance', 'type', 'iter', 'next', 'reversed',
                  'NameError', 'IndexError', 'ZeroDivisionError', 'StopIteration', 'object', 'repr', 'bool'}


VALF, KEYF = 61, 62      # as in coq/Model/Effects.v
VALS = 60                # dictionary values are stored under this field


class Unsupported(Exception):
    pass


def dotted(e):
    if isinstance(e, ast.Name):
        return e.id
    if isinstance(e, ast.Attribute):
        b = dotted(e.value)
        return None if b is None else b + '.' + e.attr
    return None


class Module:
    def __init__(self):
        self.funcs = {}          # name -> (ast.FunctionDef, filename, public?)
        self.order = []
        self.site = 0
        self.notes = []

    def load(self, path, public):
        tree = ast.parse(open(path).read(), path)
        for top in tree.body:
            if isinstance(top, ast.FunctionDef):
                if top.name in self.funcs:
                    if os.path.basename(path) == '__init__.py':
                        continue
                    raise Unsupported('%s: duplicate definition of %s' % (path, top.name))
                self.funcs[top.name] = (top, os.path.basename(path), public and not top.name.startswith('_'))
                self.order.append(top.name)

    def new_site(self):
        self.site += 1
        return self.site


def find_handlers(mod):
    """EoN functions handed to Q.add(time, handler, args=...)"""
    hs = []
    for name in mod.order:
        for n in ast.walk(mod.funcs[name][0]):
            if isinstance(n, ast.Call) and isinstance(n.func, ast.Attribute) and n.func.attr == 'add' \
               and len(n.args) + len(n.keywords) >= 2 and len(n.args) >= 2:
                h = n.args[1]
                if not (isinstance(h, ast.Name) and h.id in mod.funcs):
                    raise Unsupported('%s:%d: queue handler is not the name of an EoN function' % (name, n.lineno))
                if h.id not in hs:
                    hs.append(h.id)
    return hs


class Fun:
    """translation of one function body"""
    def __init__(self, mod, name, fid_of, handlers):
        self.mod, self.name, self.fid_of, self.handlers = mod, name, fid_of, handlers
        self.node, self.file, self.public = mod.funcs[name]
        self.vars = {}            # python name -> var number (innermost scope wins)
        self.scopes = [self.vars]
        self.nvars = 1            # 0 = return slot
        self.params = []
        self.calls = set()
        self.assigned = self.assigned_names(self.node)
        self.pyc = self.python_containers(self.node)
        self.pydict = self.python_containers(self.node, dicts=True)
        self.numeric = self.python_containers(self.node, numeric=True)

    # ------------------------------------------------------------ helpers
    def err(self, node, what):
        raise Unsupported('%s:%s:%d: unsupported construct: %s' % (self.file, self.name, getattr(node, 'lineno', 0), what))

    @staticmethod
    def assigned_names(fn):
        s = set()
        for n in ast.walk(fn):
            if isinstance(n, ast.Name) and isinstance(n.ctx, (ast.Store, ast.Del)):
                s.add(n.id)
            elif isinstance(n, ast.arg):
                s.add(n.arg)
            elif isinstance(n, ast.FunctionDef) and n is not fn:
                s.add(n.name)
            elif isinstance(n, ast.ExceptHandler) and n.name:
                s.add(n.name)
        return s

    CONTAINER_CALLS = {'defaultdict', 'dict', 'list', 'set', 'Counter', 'sorted', 'tuple', 'frozenset', 'myQueue', '_ListDict_'}

    @classmethod
    def python_containers(cls, fn, dicts=False, numeric=False):
        """names of the function that are only ever bound to freshly built Python containers
        (displays, comprehensions, dict()/list()/set()/defaultdict()...).  Indexing or iterating
        such an object yields one of its elements, never a view of it (views exist for ndarrays)."""
        good, bad = set(), set()
        def is_container(v):
            if numeric:
                # np.zeros(..) / np.ones / np.empty / np.linspace / np.arange / np.identity / np.eye without an object dtype:
                # an array of numbers; its elements are scalars or views of its own buffer, it holds no references
                return (isinstance(v, ast.Call) and dotted(v.func) in NUMERIC_CTORS and
                        all(k.arg in ('shape', 'num', 'endpoint') or (k.arg == 'dtype' and isinstance(k.value, ast.Name) and k.value.id in ('float', 'int', 'bool', 'complex'))
                            for k in v.keywords))
            if dicts:
                return isinstance(v, (ast.Dict, ast.DictComp)) or (
                    isinstance(v, ast.Call) and isinstance(v.func, ast.Name) and v.func.id in ('defaultdict', 'dict', 'Counter'))
            if isinstance(v, (ast.Dict, ast.List, ast.Set, ast.ListComp, ast.DictComp, ast.SetComp, ast.Tuple)):
                return True
            return isinstance(v, ast.Call) and isinstance(v.func, ast.Name) and v.func.id in cls.CONTAINER_CALLS
        for n in ast.walk(fn):
            if isinstance(n, ast.Assign):
                for t in n.targets:
                    if isinstance(t, ast.Name):
                        (good if is_container(n.value) else bad).add(t.id)
                    else:
                        for m in ast.walk(t):
                            if isinstance(m, ast.Name) and isinstance(m.ctx, ast.Store):
                                bad.add(m.id)
            elif isinstance(n, (ast.For, ast.comprehension)):
                for m in ast.walk(n.target):
                    if isinstance(m, ast.Name):
                        bad.add(m.id)
            elif isinstance(n, (ast.AugAssign, ast.AnnAssign, ast.NamedExpr)):
                if numeric and isinstance(n, ast.AugAssign) and isinstance(n.target, ast.Subscript):
                    continue        # a[i] += x leaves a the array of numbers it was
                for m in ast.walk(n.target):
                    if isinstance(m, ast.Name):
                        bad.add(m.id)
            elif isinstance(n, ast.arg):
                bad.add(n.arg)
            elif isinstance(n, (ast.FunctionDef, ast.Lambda)) and n is not fn:
                for a in n.args.args:
                    bad.add(a.arg)
            elif isinstance(n, ast.ExceptHandler) and n.name:
                bad.add(n.name)
            elif isinstance(n, (ast.With, ast.Import, ast.ImportFrom, ast.Global, ast.Nonlocal)):
                raise Unsupported('%s:%d: unsupported statement %s' % (fn.name, n.lineno, type(n).__name__))
        return good - bad

    def iter_field(self, e):
        """iterating a dictionary built in this function yields its keys"""
        if isinstance(e, ast.Name) and e.id in self.pydict and not any(e.id in sc for sc in self.scopes[1:]):
            return KEYF
        return 0

    def is_pyc(self, e):
        """is the value of e certainly not an ndarray (so that indexing / iterating it yields an
        element, never a view)?  Fresh Python containers, results of graph/dict queries, graph views"""
        if isinstance(e, ast.Name):
            return e.id in self.pyc and not any(e.id in sc for sc in self.scopes[1:])
        if isinstance(e, (ast.Dict, ast.List, ast.Set, ast.ListComp, ast.DictComp, ast.SetComp, ast.GeneratorExp, ast.Tuple)):
            return True
        if isinstance(e, ast.Call):
            f = e.func
            d = dotted(f)
            if isinstance(f, ast.Name) and f.id in self.CONTAINER_CALLS | {'zip', 'enumerate', 'range', 'reversed', 'iter'} and not self.is_local(f.id):
                return True
            if d in DEEP_FUNCS or d in ('random.sample',):
                return True
            if isinstance(f, ast.Attribute) and (f.attr in DEEP_METHODS):
                return True
            return False
        if isinstance(e, ast.Attribute):
            return e.attr in REACH_ATTRS
        if isinstance(e, ast.Subscript):
            # G.adj[u][v], G.nodes[u]: the chain hangs off a graph view
            b = e
            while isinstance(b, ast.Subscript):
                b = b.value
            return isinstance(b, ast.Attribute) and b.attr in REACH_ATTRS
        return False

    @staticmethod
    def not_a_mapping(e):
        """syntactically an iterable of elements, not a mapping: x.values()/keys()/items(), a list/set display or comprehension"""
        if isinstance(e, ast.Call) and isinstance(e.func, ast.Attribute) and e.func.attr in ('values', 'keys', 'items') and not e.args and not e.keywords:
            return True
        return isinstance(e, (ast.List, ast.Set, ast.ListComp, ast.SetComp, ast.GeneratorExp, ast.Tuple))

    def fresh(self):
        v = self.nvars
        self.nvars += 1
        return v

    def var(self, name):
        for sc in reversed(self.scopes):
            if name in sc:
                return sc[name]
        v = self.fresh()
        self.scopes[0][name] = v
        return v

    def bind_local(self, name):
        """variable for a name bound in the innermost scope (comprehension / nested def)"""
        sc = self.scopes[-1]
        if len(self.scopes) == 1:
            return self.var(name)
        if name not in sc:
            sc[name] = self.fresh()
        return sc[name]

    def alloc(self, out, sh=(), cp=(), dp=(), vw=(), cf=0):
        v = self.fresh()
        f = lambda l: [x for x in dict.fromkeys(l) if x != self.LEAF]
        out.append(('assign', v, ('alloc', self.mod.new_site(), cf, f(sh), f(cp), f(dp), f(vw))))
        return v

    def opaque(self, out, args):
        """result of a call that does not modify anything but may return an existing
        object reachable from its arguments, or a new object holding / viewing such objects"""
        args = [a for a in dict.fromkeys(args) if a != self.LEAF]
        if not args:
            return self.LEAF
        v = self.fresh()
        t = self.fresh()
        out.append(('assign', t, ('reach', args)))
        out.append(('assign', v, ('choice', ('var', t), ('alloc', self.mod.new_site(), 0, [], [], args, [t]))))
        return v

    def deepfresh(self, out, args):
        args = [a for a in dict.fromkeys(args) if a != self.LEAF]
        if not args:
            return self.alloc(out)
        return self.alloc(out, dp=args)

    def sub(self, out, y, field=0, pyc=False):
        """y[i] / iteration over y / unpacking: an element or a view"""
        if y == self.LEAF:
            return self.LEAF
        v = self.fresh()
        ld = ('load', y, field)
        if 1 <= field < 60:
            # y[3]: tuple position 3 (field 4), an unknown position (0), or the VALUE under the key 3 of a dictionary /
            # an element stored by a slice assignment (both live under VALS, which a positional load does not match)
            ld = ('choice', ld, ('load', y, VALS))
        if pyc:
            out.append(('assign', v, ld))
            return v
        out.append(('assign', v, ('choice', ld, ('alloc', self.mod.new_site(), field, [], [y], [], [y]))))
        return v

    def store(self, out, line, recv, field, vals, bulk):
        """recv now holds vals (bulk: anything reachable from vals, one object per store)"""
        vals = [v for v in dict.fromkeys(vals) if v != self.LEAF]
        if recv == self.LEAF:
            return
        if not bulk or not vals:
            out.append(('write', line, recv, field, vals))
            return
        t = self.fresh()
        out.append(('write', line, recv, field, vals))
        out.append(('loop', [('assign', t, ('reach', vals)), ('write', line, recv, field, [t])]))

    def guard_call(self, c, name):
        """library call: refuse the keywords and the positional arities whose meaning the tables do not cover"""
        for k in c.keywords:
            if k.arg is None:
                self.err(c, '** in a call of the library function/method %s' % name)
            if k.arg in REFUSED_KEYWORDS:
                self.err(c, 'keyword %s= in a call of %s (changes what the call modifies or shares)' % (k.arg, name))
        for a in c.args:
            if isinstance(a, ast.Starred):
                self.err(c, '*args in a call of the library function/method %s' % name)
        if name in MAX_POSITIONAL and len(c.args) > MAX_POSITIONAL[name]:
            self.err(c, '%d positional arguments in a call of %s (a later positional parameter is an output buffer / a view switch)' % (len(c.args), name))

    def weak(self, out, alts):
        alts = list(dict.fromkeys(alts))
        if len(alts) == 1:
            return alts[0]
        v = self.fresh()
        e = ('var', alts[-1])
        for a in reversed(alts[:-1]):
            e = ('choice', ('var', a), e)
        out.append(('assign', v, e))
        return v

    # -------------------------------------------------------- expressions
    def exprs(self, out, es):
        return [self.expr(out, e) for e in es]

    def expr(self, out, e):
        m = getattr(self, 'e_' + type(e).__name__, None)
        if m is None:
            self.err(e, 'expression ' + type(e).__name__)
        return m(out, e)

    def e_Constant(self, out, e):
        return self.LEAF

    def e_JoinedStr(self, out, e):
        for v in e.values:
            if isinstance(v, ast.FormattedValue):
                self.expr(out, v.value)
        return self.LEAF

    def e_Name(self, out, e):
        n = e.id
        for sc in reversed(self.scopes):
            if n in sc:
                return sc[n]
        if n in self.assigned:
            return self.var(n)
        if n in self.mod.funcs or n in MODULES or n in BUILTIN_VALUES:
            return self.LEAF
        self.mod.notes.append('%s:%s:%d: name %s is never bound (NameError at run time); treated as LEAF' % (self.file, self.name, e.lineno, n))
        return self.LEAF

    def e_Compare(self, out, e):
        self.expr(out, e.left)
        self.exprs(out, e.comparators)
        return self.LEAF

    def e_UnaryOp(self, out, e):
        v = self.expr(out, e.operand)
        if isinstance(e.op, ast.Not) or v == self.LEAF:
            return self.LEAF
        return self.alloc(out)

    def e_BinOp(self, out, e):
        a = self.expr(out, e.left)
        b = self.expr(out, e.right)
        if a == self.LEAF and b == self.LEAF:
            return self.LEAF
        if isinstance(e.op, ast.Mod) and isinstance(e.left, ast.Constant):
            return self.LEAF
        if isinstance(e.op, (ast.Div, ast.FloorDiv, ast.Pow, ast.MatMult)):
            return self.alloc(out)              # no container implements / // ** @: a new number or numeric array
        return self.alloc(out, cp=[a, b])       # list + list, list * n, set | set hold the elements of the operands

    def e_BoolOp(self, out, e):
        return self.weak(out, self.exprs(out, e.values))

    def e_IfExp(self, out, e):
        self.expr(out, e.test)
        return self.weak(out, [self.expr(out, e.body), self.expr(out, e.orelse)])

    def e_Tuple(self, out, e):
        for x in e.elts:
            if isinstance(x, ast.Starred):
                self.err(x, 'starred element in a display')
        vs = self.exprs(out, e.elts)
        if all(v == self.LEAF for v in vs):
            return self.LEAF if isinstance(e, ast.Tuple) else self.alloc(out)
        if isinstance(e, ast.Tuple) and len(vs) < 60:
            # tuples are position sensitive: element i lives in field i+1
            t = self.alloc(out)
            for i, v in enumerate(vs):
                if v != self.LEAF:
                    out.append(('write', e.lineno, t, i + 1, [v]))
            return t
        return self.alloc(out, sh=vs)
    e_List = e_Tuple
    e_Set = e_Tuple

    def e_Dict(self, out, e):
        if any(k is None for k in e.keys):
            self.err(e, '** in a dict display')
        ks = [k for k in self.exprs(out, e.keys) if k != self.LEAF]
        vs = [v for v in self.exprs(out, e.values) if v != self.LEAF]
        d = self.alloc(out)
        if ks:
            out.append(('write', e.lineno, d, KEYF, ks))
        if vs:
            out.append(('write', e.lineno, d, VALS, vs))
        return d

    def e_Slice(self, out, e):
        for x in (e.lower, e.upper, e.step):
            if x is not None:
                self.expr(out, x)
        return self.LEAF

    def e_Subscript(self, out, e):
        y = self.expr(out, e.value)
        self.expr(out, e.slice)
        if isinstance(e.slice, ast.Slice):
            # a slice of a list is a new list, of an array a view: new object either way
            return self.alloc(out, cp=[y], vw=[y], cf=VALF) if y != self.LEAF else self.LEAF
        return self.sub(out, y, self.index_field(e.slice), self.is_pyc(e.value))

    @staticmethod
    def index_field(sl):
        """y[3] reads tuple position 3 (field 4) or anything stored at an unknown position;
        any other subscript reads everything but dictionary keys"""
        if isinstance(sl, ast.Constant) and type(sl.value) is int and 0 <= sl.value < 59:
            return sl.value + 1
        return VALF

    def e_Attribute(self, out, e):
        d = dotted(e)
        if d is not None and d.split('.')[0] in MODULES and not self.is_local(d.split('.')[0]):
            return self.LEAF                       # np.pi, EoN.EoNError, random.random (as a value)
        y = self.expr(out, e.value)
        a = e.attr
        if a in LEAF_ATTRS:
            return self.LEAF
        if y == self.LEAF:
            return self.LEAF
        if a in VIEW_ATTRS:
            return self.alloc(out, cp=[y], vw=[y])
        if a in REACH_ATTRS:
            # a graph view (G.nodes, G.adj, ...): stands for something reachable from the graph
            v = self.fresh()
            out.append(('assign', v, ('reach', [y])))
            return v
        if a in LEAF_METHODS or a in DEEP_METHODS or a in COPY_METHODS or a in VIEW_METHODS or a in REACH_METHODS:
            return self.alloc(out, sh=[y])       # bound method of a non-modifying method, used as a value
        self.err(e, 'attribute .%s' % a)

    def is_local(self, n):
        return any(n in sc for sc in self.scopes) or n in self.assigned

    def e_Lambda(self, out, e):
        return self.closure(out, e, e.args, [ast.Return(value=e.body, lineno=e.lineno)])

    def closure(self, out, node, args, body):
        """a function object: holds the enclosing variables it mentions; its body must be
        free of writes and of calls to EoN functions (it runs later, in someone else's hands)"""
        if args.vararg or args.kwarg or args.kwonlyargs:
            self.err(node, 'closure with */** parameters')
        held_defaults = [self.expr(out, d) for d in args.defaults]       # evaluated now, kept by the function object
        self.scopes.append({})
        scratch = []
        for a in args.args:
            pv = self.fresh()
            self.scopes[-1][a.arg] = pv
            scratch.append(('assign', pv, ('var', self.LEAF)))
        saved_assigned = self.assigned
        self.assigned = self.assigned | self.assigned_names(ast.Module(body=body, type_ignores=[]))
        self.in_closure += 1
        for s in body:
            self.stmt(scratch, s)
        self.in_closure -= 1
        self.assigned = saved_assigned
        self.scopes.pop()
        free = set()
        for s in body:
            for n in ast.walk(s):
                if isinstance(n, ast.Name) and isinstance(n.ctx, ast.Load):
                    for sc in reversed(self.scopes):
                        if n.id in sc:
                            free.add(sc[n.id]); break
        fresh_vars = {}
        def scan(sts):
            for s in sts:
                if s[0] == 'assign':
                    fresh_vars[s[1]] = fresh_vars.get(s[1], 0) + (1 if s[2][0] == 'alloc' else 100)
                elif s[0] == 'call':
                    fresh_vars[s[1]] = 100
                elif s[0] == 'if':
                    scan(s[1]); scan(s[2])
                elif s[0] == 'loop':
                    scan(s[1])
        scan(scratch)
        def bad(sts):
            for s in sts:
                if s[0] == 'call':
                    return s
                if s[0] == 'write' and fresh_vars.get(s[2]) != 1:
                    return s        # a write to anything but an object the body itself has just created
                if s[0] == 'if':
                    r = bad(s[1]) or bad(s[2])
                    if r: return r
                if s[0] == 'loop':
                    r = bad(s[1])
                    if r: return r
            return None
        b = bad(scratch)
        if b:
            self.err(node, 'closure body with a write or a call to an EoN function (%s)' % (b,))
        return self.alloc(out, sh=sorted(free) + held_defaults)

    def comp(self, out, e, elts):
        acc = self.alloc(out)
        self.scopes.append({})
        def gen(i, o):
            if i == len(e.generators):
                vs = [self.expr(o, x) for x in elts]
                if len(elts) == 2:        # dict comprehension: key, value
                    if vs[0] != self.LEAF:
                        o.append(('write', e.lineno, acc, KEYF, [vs[0]]))
                    if vs[1] != self.LEAF:
                        o.append(('write', e.lineno, acc, VALS, [vs[1]]))
                    return
                o.append(('write', e.lineno, acc, 0, [v for v in vs if v != self.LEAF]))
                return
            g = e.generators[i]
            if g.is_async:
                self.err(e, 'async comprehension')
            it = self.expr(o, g.iter)
            body = []
            self.assign_target(body, g.target, self.sub(body, it, self.iter_field(g.iter), self.is_pyc(g.iter)), local=True)
            for c in g.ifs:
                self.expr(body, c)
            gen(i + 1, body)
            o.append(('loop', body))
        gen(0, out)
        self.scopes.pop()
        return acc

    def e_ListComp(self, out, e):
        return self.comp(out, e, [e.elt])
    e_SetComp = e_ListComp
    e_GeneratorExp = e_ListComp

    def e_DictComp(self, out, e):
        return self.comp(out, e, [e.key, e.value])

    def e_Starred(self, out, e):
        return self.expr(out, e.value)

    # -------------------------------------------------------------- calls
    def call_args(self, out, c):
        vs = []
        for a in c.args:
            vs.append(self.expr(out, a))
        for k in c.keywords:
            vs.append(self.expr(out, k.value))
        return vs

    def e_Call(self, out, c):
        f = c.func
        d = dotted(f)
        line = c.lineno
        # ---- method-like calls on a local object ---------------------------
        if isinstance(f, ast.Attribute) and not (d and d.split('.')[0] in MODULES and not self.is_local(d.split('.')[0])):
            m = f.attr
            if isinstance(f.value, ast.Name) and f.value.id in BUILTIN_VALUES and not self.is_local(f.value.id):
                self.err(c, 'call of the unbound method %s.%s (the receiver is an argument)' % (f.value.id, m))
            if m == 'add' and len(c.args) >= 2:
                return self.queue_add(out, c)
            if m == 'pop_and_run':
                return self.queue_run(out, c)
            known = m in MUTATING_METHODS or m in LEAF_METHODS or m in DEEP_METHODS or m in COPY_METHODS or m in VIEW_METHODS or m in REACH_METHODS
            user_object = m in ('insert', 'update', 'remove', 'add_node', 'add_edge')   # **attrs of networkx, weight=/weight_increment= of _ListDict_
            if known:
                self.guard_call(c, '.' + m) if not user_object else None
            recv = self.expr(out, f.value)
            args = self.call_args(out, c)
            nl = [a for a in args if a != self.LEAF]
            if m in MUTATING_METHODS:
                self.store(out, line, recv, 0, nl, m in BULK_STORE)
                if MUTATING_METHODS[m]:
                    return self.sub(out, recv, VALF)
                return self.LEAF
            if m in LEAF_METHODS:
                return self.LEAF if m not in ('sum', 'dot', 'cumsum', 'toarray', 'todense', 'astype', 'tolist', 'max', 'min', 'mean', 'cumprod') else self.alloc(out)
            if m in ('items', 'keys', 'values') and not args and recv != self.LEAF:
                ks = self.fresh(); vs = self.fresh()
                if m == 'keys':
                    return self.alloc(out, cp=[recv], cf=KEYF)
                if m == 'values':
                    return self.alloc(out, cp=[recv], cf=VALS)
                out.append(('assign', ks, ('load', recv, KEYF)))
                out.append(('assign', vs, ('load', recv, VALS)))
                pair = self.alloc(out)
                out.append(('write', line, pair, 1, [ks]))
                out.append(('write', line, pair, 2, [vs]))
                return self.alloc(out, sh=[pair])
            if m in DEEP_METHODS:
                return self.deepfresh(out, [recv] + args)
            if m in COPY_METHODS:
                return self.alloc(out, cp=[recv])
            if m in VIEW_METHODS:
                return self.alloc(out, cp=[recv], vw=[recv])
            if m in REACH_METHODS:
                return self.opaque(out, [recv] + args)
            self.err(c, 'method .%s(...) is in no table' % m)
        # ---- EoN functions --------------------------------------------------
        name = None
        if isinstance(f, ast.Name) and f.id in self.mod.funcs and not self.is_local(f.id):
            name = f.id
        elif d and d.startswith('EoN.') and d[4:] in self.mod.funcs:
            name = d[4:]
        if name in ODE_FUNCS or d in ODE_FUNCS:
            return self.ode_call(out, c)
        if name is not None:
            return self.eon_call(out, c, name)
        # ---- library functions ---------------------------------------------
        if d is not None and not self.is_local(d.split('.')[0]):
            if d == 'defaultdict':
                return self.defaultdict(out, c)
            if d in ('myQueue', '_ListDict_'):
                self.call_args(out, c)
                return self.alloc(out)
            if d in LEAF_FUNCS or d in COPY_FUNCS or d in DEEP_FUNCS or d in REACH_FUNCS or d in VIEW_FUNCS or d in MUTATING_FUNCS:
                self.guard_call(c, d) if d not in ('dict', 'EoN.Simulation_Investigation', 'Simulation_Investigation') else None
            args = self.call_args(out, c)
            if d == 'sum' and len(c.args) + len(c.keywords) > 1:
                return self.opaque(out, args)          # sum(xs, start) is start itself when xs is empty
            if d in LEAF_FUNCS:
                if d in ('np.zeros', 'np.ones', 'np.linspace', 'np.arange', 'np.dot', 'np.exp', 'np.empty', 'np.outer',
                         'np.zeros_like', 'np.ones_like', 'np.identity', 'np.eye', 'np.cumsum', 'nx.adjacency_matrix',
                         'nx.to_numpy_array', 'nx.to_numpy_matrix', 'np.log', 'np.sqrt', 'np.power', 'np.abs', 'range', 'shift'):
                    return self.alloc(out)
                return self.LEAF
            if d in COPY_FUNCS:
                # np.array([a, b]) / list(x): new container with what the arguments hold; nested
                # displays were themselves allocated, so copy one more level down for np.array/concatenate
                if d.startswith('np.') or d in TWO_LEVEL_COPY:
                    inner = [self.sub(out, a) for a in args if a != self.LEAF]
                    kwv = args[len(c.args):] if d == 'dict' else []    # dict(a=p) holds p itself
                    return self.alloc(out, sh=(inner if d in ELEMENT_VIEWS else []) + kwv, cp=args + inner)
                if d == 'Counter' and len(c.args) == 1 and not c.keywords and self.not_a_mapping(c.args[0]) and args[0] != self.LEAF:
                    # Counter(iterable): the elements become KEYS, the values are counts (integers)
                    r = self.alloc(out)
                    body = []
                    t = self.sub(body, args[0], 0, self.is_pyc(c.args[0]))
                    body.append(('write', line, r, KEYF, [t]))
                    out.append(('loop', body))
                    return r
                if d in ELEMENT_VIEWS:
                    # list(A) of a 2-d array holds row VIEWS of A: an element, or a new object viewing the argument
                    inner = [self.sub(out, a) for a, x in zip(args, c.args) if a != self.LEAF and not self.is_pyc(x)]
                    return self.alloc(out, sh=inner, cp=args)
                return self.alloc(out, cp=args)
            if d in DEEP_FUNCS:
                return self.deepfresh(out, args)
            if d in REACH_FUNCS:
                return self.opaque(out, args)
            if d in VIEW_FUNCS:
                return self.alloc(out, cp=args, vw=args)
            if d in MUTATING_FUNCS:
                if args:
                    self.store(out, line, args[0], 0, args[1:], d in BULK_STORE)
                    if d in MUTATING_FUNCS_RETURNING:
                        return self.sub(out, args[0], VALF)
                return self.LEAF
            self.err(c, 'library function %s is in no table' % d)
        # ---- callbacks: calling a local variable / parameter / closure ------
        if not isinstance(f, (ast.Name, ast.Lambda)):
            # getattr(x, 'append')(1), handlers[k](x), make()(x): the callee is computed; only a named user
            # callback (assumed not to modify its arguments) or a literal lambda is accepted
            self.err(c, 'call of a computed callee (%s)' % type(f).__name__)
        fv = self.expr(out, f)
        args = self.call_args(out, c)
        return self.opaque(out, [fv] + args)

    def defaultdict(self, out, c):
        if len(c.args) != 1 or c.keywords:
            self.err(c, 'defaultdict with other than one argument')
        fac = c.args[0]
        if isinstance(fac, ast.Lambda) and not fac.args.args:
            child = self.expr(out, fac.body)
            d = self.alloc(out)
            if child != self.LEAF:
                # every missing key gets its own value; one summary object stands for all of them
                out.append(('write', c.lineno, d, VALS, [child]))
            return d
        if isinstance(fac, ast.Name) and fac.id in DEFAULT_FACTORIES and not self.is_local(fac.id):
            d = self.alloc(out)
            if fac.id in ('list', 'dict', 'set'):
                out.append(('write', c.lineno, d, VALS, [self.alloc(out)]))
            return d
        if isinstance(fac, ast.Name) and self.is_local(fac.id):
            # a nested `def name(): return <expr>` without parameters, used like the lambda it replaces
            defs = [n for n in ast.walk(self.node) if isinstance(n, ast.FunctionDef) and n is not self.node and n.name == fac.id]
            if len(defs) == 1 and not defs[0].args.args and not defs[0].args.vararg and not defs[0].args.kwarg and not defs[0].args.kwonlyargs:
                body = [b for b in defs[0].body if not (isinstance(b, ast.Expr) and isinstance(b.value, ast.Constant) and isinstance(b.value.value, str))]
                if len(body) == 1 and isinstance(body[0], ast.Return) and body[0].value is not None:
                    child = self.expr(out, body[0].value)
                    d = self.alloc(out)
                    if child != self.LEAF:
                        out.append(('write', c.lineno, d, VALS, [child]))
                    return d
        self.err(c, 'defaultdict factory')

    def bind(self, c, callee, skip_first=0, extra_pos=None):
        """Python's binding rule for a call of an EoN function: returns list (param name, ast expr or
        ('default', expr) or ('missing',)) in the callee's parameter order, and the **kw expression"""
        fn = self.mod.funcs[callee][0]
        a = fn.args
        if a.vararg or a.kwarg or a.kwonlyargs or a.posonlyargs:
            self.err(c, 'callee %s has */**/keyword-only parameters' % callee)
        names = [x.arg for x in a.args]
        defaults = dict(zip(names[len(names) - len(a.defaults):], a.defaults))
        bound = {}
        pos = list(extra_pos or [])
        for x in c.args:
            if isinstance(x, ast.Starred):
                self.err(c, '*args in a call to the EoN function %s' % callee)
            pos.append(x)
        if len(pos) > len(names):
            self.err(c, 'too many positional arguments for %s' % callee)
        for n, x in zip(names, pos):
            bound[n] = x
        starstar = None
        for k in c.keywords:
            if k.arg is None:
                starstar = k.value
                continue
            if k.arg not in names or k.arg in bound:
                self.mod.notes.append('%s:%s:%d: call to %s: keyword %s unknown or bound twice (TypeError at run time)' % (self.file, self.name, c.lineno, callee, k.arg))
                continue
            bound[k.arg] = k.value
        res = []
        for n in names:
            if n in bound:
                res.append((n, ('expr', bound[n])))
            elif n in defaults:
                res.append((n, ('default', defaults[n])))
            else:
                res.append((n, ('missing',)))
                self.mod.notes.append('%s:%s:%d: call to %s: required parameter %s is not passed (TypeError at run time)' % (self.file, self.name, c.lineno, callee, n))
        return res, starstar

    def eon_call(self, out, c, callee):
        res, starstar = self.bind(c, callee)
        kw = self.expr(out, starstar) if starstar is not None else None
        args = []
        for n, b in res:
            if b[0] == 'expr':
                args.append(self.expr(out, b[1]))
            else:
                dv = self.default_value(out, b[1]) if b[0] == 'default' else self.LEAF
                if kw is not None and kw != self.LEAF:
                    dv = self.weak(out, [dv, self.sub(out, kw)])
                args.append(dv)
        return self.emit_call(out, callee, args)

    def default_value(self, out, e):
        if isinstance(e, ast.Constant) or isinstance(e, ast.Name) or isinstance(e, ast.UnaryOp):
            return self.LEAF
        if isinstance(e, ast.Tuple) and not e.elts:
            return self.LEAF
        if isinstance(e, ast.Call) and dotted(e.func) == 'float':
            return self.LEAF
        self.err(e, 'default value ' + ast.dump(e)[:60])

    def emit_call(self, out, callee, args):
        # the placeholder LEAF is a per-function variable: pass it as an ordinary variable
        x = self.fresh()
        self.calls.add(callee)
        out.append(('call', x, callee, list(args)))
        return x

    def ode_call(self, out, c):
        """integrate.odeint(f, X0, times, args=(a..)) and _my_odeint_(f, X0, times, args=(a..)) call
        f(X, t, a..) with X a fresh array; the result is a fresh array"""
        pos = list(c.args)
        kws = {k.arg: k.value for k in c.keywords}
        if len(pos) < 3 or any(k not in ('args',) for k in kws):
            self.err(c, 'odeint call shape')
        f = pos[0]
        extra = pos[3] if len(pos) > 3 else kws.get('args', ast.Tuple(elts=[], ctx=ast.Load()))
        if not (isinstance(f, ast.Name) and f.id in self.mod.funcs and not self.is_local(f.id)):
            self.err(c, 'odeint right-hand side is not the name of an EoN function')
        if not isinstance(extra, ast.Tuple):
            self.err(c, 'odeint args is not a literal tuple')
        self.expr(out, pos[1]); self.expr(out, pos[2])
        X = self.alloc(out)
        fn = self.mod.funcs[f.id][0]
        names = [x.arg for x in fn.args.args]
        if fn.args.vararg or fn.args.kwarg or len(names) != 2 + len(extra.elts):
            self.err(c, 'odeint: %s takes %d parameters, call supplies %d' % (f.id, len(names), 2 + len(extra.elts)))
        args = [X, self.LEAF] + [self.expr(out, x) for x in extra.elts]
        self.emit_call(out, f.id, args)
        return self.alloc(out)

    def field(self, h, i):
        return (self.fid_of[h] + 1) * 64 + i

    def queue_add(self, out, c):
        """Q.add(time, handler, args=(a1..an)): the arguments wait in Q under field (handler,i)"""
        q = self.expr(out, c.func.value)
        self.expr(out, c.args[0])
        h = c.args[1]
        if not (isinstance(h, ast.Name) and h.id in self.mod.funcs and not self.is_local(h.id)):
            self.err(c, 'queue handler is not the name of an EoN function')
        tup = c.args[2] if len(c.args) > 2 else next((k.value for k in c.keywords if k.arg == 'args'), None)
        fn = self.mod.funcs[h.id][0]
        names = [x.arg for x in fn.args.args]
        if isinstance(tup, ast.Name):
            # a tuple built elsewhere: element i is in its field i (tuples are position sensitive)
            t = self.expr(out, tup)
            for i in range(1, len(names)):
                v = self.fresh()
                out.append(('if', [('assign', v, ('load', t, i)), ('write', c.lineno, q, self.field(h.id, i), [v])], []))
            return self.LEAF
        if not isinstance(tup, ast.Tuple) or any(isinstance(x, ast.Starred) for x in tup.elts):
            self.err(c, 'queue arguments are not a literal tuple')
        nreq = len(names) - len(fn.args.defaults)
        if not (nreq <= 1 + len(tup.elts) <= len(names)) or len(names) > 60:
            self.err(c, 'queue handler %s arity' % h.id)
        for i, x in enumerate(tup.elts):
            v = self.expr(out, x)
            out.append(('write', c.lineno, q, self.field(h.id, i + 1), [v]))
        return self.LEAF

    def queue_run(self, out, c):
        q = self.expr(out, c.func.value)
        for h in self.handlers:
            fn = self.mod.funcs[h][0]
            names = [x.arg for x in fn.args.args]
            br = []
            args = [self.LEAF]
            nreq = len(names) - len(fn.args.defaults)
            for i in range(1, len(names)):
                v = self.fresh()
                if i < nreq:
                    br.append(('assign', v, ('load', q, self.field(h, i))))
                else:
                    # a trailing parameter with a default may not have been supplied: its default
                    # (an immutable constant or an empty tuple) is a fresh object
                    self.default_value(br, fn.args.defaults[i - nreq])
                    br.append(('assign', v, ('choice', ('load', q, self.field(h, i)),
                                             ('alloc', self.mod.new_site(), 0, [], [], [], []))))
                args.append(v)
            self.emit_call(br, h, args)
            out.append(('if', br, []))
        out.append(('write', c.lineno, q, 0, []))
        return self.LEAF

    # --------------------------------------------------------- statements
    def assign_target(self, out, t, v, local=False, line=None):
        if isinstance(t, ast.Name):
            x = self.bind_local(t.id) if local else self.var(t.id)
            out.append(('assign', x, ('var', v)))
        elif isinstance(t, (ast.Tuple, ast.List)):
            for i, el in enumerate(t.elts):
                if isinstance(el, ast.Starred):
                    self.err(t, 'starred assignment target')
                self.assign_target(out, el, self.sub(out, v, i + 1 if len(t.elts) < 60 else 0), local)
        elif isinstance(t, ast.Subscript):
            y = self.expr(out, t.value)
            k = self.expr(out, t.slice)
            if y != self.LEAF:
                if k != self.LEAF:
                    out.append(('write', t.lineno, y, KEYF, [k]))
                has_slice = any(isinstance(n, ast.Slice) for n in ast.walk(t.slice))
                self.store(out, t.lineno, y, VALS, [v], has_slice)      # y[i:j] = v stores what v holds
        elif isinstance(t, ast.Attribute):
            y = self.expr(out, t.value)
            if y != self.LEAF:
                out.append(('write', t.lineno, y, 0, [] if t.attr == 'shape' or v == self.LEAF else [v]))
        else:
            self.err(t, 'assignment target ' + type(t).__name__)

    def block(self, sts):
        out = []
        for s in sts:
            self.stmt(out, s)
        return out

    def stmt(self, out, s):
        m = getattr(self, 's_' + type(s).__name__, None)
        if m is None:
            self.err(s, 'statement ' + type(s).__name__)
        m(out, s)

    def s_Expr(self, out, s):
        if isinstance(s.value, ast.Constant):
            return
        self.expr(out, s.value)

    def s_Pass(self, out, s): pass
    s_Break = s_Pass
    s_Continue = s_Pass

    def s_Assign(self, out, s):
        v = self.expr(out, s.value)
        for t in s.targets:
            self.assign_target(out, t, v, local=len(self.scopes) > 1)

    def s_AugAssign(self, out, s):
        v = self.expr(out, s.value)
        t = s.target
        if isinstance(t, ast.Name):
            x = self.e_Name(out, ast.Name(id=t.id, ctx=ast.Load(), lineno=s.lineno))
            if x == self.LEAF and not self.is_local(t.id):
                self.err(s, 'augmented assignment to a global')
            x = self.bind_local(t.id) if len(self.scopes) > 1 else self.var(t.id)
            # in place for lists/arrays, rebinding for immutable values: both
            fresh = []
            nv = self.alloc(fresh, cp=[x, v])
            fresh.append(('assign', x, ('var', nv)))
            inplace = []
            self.store(inplace, s.lineno, x, 0, [v], True)       # list += iterable stores what the iterable holds
            out.append(('if', inplace, fresh))
        elif isinstance(t, ast.Subscript):
            y = self.expr(out, t.value)
            k = self.expr(out, t.slice)
            if isinstance(t.value, ast.Name) and t.value.id in self.numeric and not any(t.value.id in sc for sc in self.scopes[1:]):
                # an array of numbers created in this function: only its own buffer is modified
                if k != self.LEAF:
                    out.append(('write', s.lineno, y, KEYF, [k]))
                out.append(('write', s.lineno, y, VALS, [v] if v != self.LEAF else []))
            elif y != self.LEAF:
                # y[k] += v  is  e = y[k]; e = e.__iadd__(v); y[k] = e : a mutable element is modified in place
                el = []
                e = self.sub(el, y, self.index_field(t.slice), self.is_pyc(t.value))
                self.store(el, s.lineno, e, 0, [v], True)
                out.append(('if', el, []))
                if k != self.LEAF:
                    out.append(('write', s.lineno, y, KEYF, [k]))
                self.store(out, s.lineno, y, VALS, [v], True)
        elif isinstance(t, ast.Attribute):
            y = self.expr(out, t.value)
            if y != self.LEAF:
                el = []
                e = self.sub(el, y, 0)
                self.store(el, s.lineno, e, 0, [v], True)
                out.append(('if', el, []))
                self.store(out, s.lineno, y, 0, [v], True)
        else:
            self.err(s, 'augmented assignment target')

    def s_Delete(self, out, s):
        for t in s.targets:
            if isinstance(t, ast.Subscript):
                y = self.expr(out, t.value)
                self.expr(out, t.slice)
                if y != self.LEAF:
                    out.append(('write', s.lineno, y, 0, []))
            elif isinstance(t, ast.Attribute):
                y = self.expr(out, t.value)
                if y != self.LEAF:
                    out.append(('write', s.lineno, y, 0, []))
            elif not isinstance(t, ast.Name):
                self.err(s, 'del target')

    def s_If(self, out, s):
        self.expr(out, s.test)
        out.append(('if', self.block(s.body), self.block(s.orelse)))

    def s_For(self, out, s):
        it = self.expr(out, s.iter)
        body = []
        self.assign_target(body, s.target, self.sub(body, it, self.iter_field(s.iter), self.is_pyc(s.iter)), local=len(self.scopes) > 1)
        for x in s.body:
            self.stmt(body, x)
        out.append(('loop', body))
        out.extend(self.block(s.orelse))

    def s_While(self, out, s):
        body = []
        self.expr(body, s.test)
        for x in s.body:
            self.stmt(body, x)
        out.append(('loop', body))
        out.extend(self.block(s.orelse))

    def s_Return(self, out, s):
        if self.in_closure:
            if s.value is not None:
                self.expr(out, s.value)
            return
        v = self.expr(out, s.value) if s.value is not None else self.LEAF
        out.append(('assign', 0, ('choice', ('var', 0), ('var', v))))

    def s_Raise(self, out, s):
        if s.exc is not None:
            self.expr(out, s.exc)

    def s_Assert(self, out, s):
        self.expr(out, s.test)

    def s_Try(self, out, s):
        if s.finalbody:
            self.err(s, 'try/finally')
        handlers = []
        for h in s.handlers:
            handlers.append(self.block(h.body))
        hs = []
        for h in handlers:                      # any one of the handlers (or none) may run
            hs = [('if', h, hs)]
        for x in s.body:
            if not isinstance(x, (ast.Assign, ast.Expr, ast.AugAssign, ast.FunctionDef)):      # a nested def only binds a closure, like an assignment
                self.err(x, 'compound statement inside try')
        # every prefix of the body may be followed by a handler
        def chain(i):
            if i == len(s.body):
                return self.block(s.orelse)
            one = []
            self.stmt(one, s.body[i])
            return one + [('if', chain(i + 1), list(hs))]
        out.append(('if', chain(0), list(hs)))

    def s_FunctionDef(self, out, s):
        if s.decorator_list:
            self.err(s, 'decorated nested function')
        v = self.closure(out, s, s.args, s.body)
        x = self.var(s.name)
        out.append(('assign', x, ('var', v)))

    def s_Global(self, out, s):
        self.err(s, 'global statement')

    # ------------------------------------------------------------- driver
    def translate(self):
        fn = self.node
        a = fn.args
        if a.vararg or a.kwarg or a.kwonlyargs or a.posonlyargs:
            self.err(fn, '*args/**kwargs/keyword-only parameters in a definition')
        if fn.decorator_list:
            self.err(fn, 'decorator')
        self.in_closure = 0
        for x in a.args:
            v = self.var(x.arg)
            self.params.append((v, x.arg))
        self.LEAF = self.fresh()
        out = [('assign', self.LEAF, ('alloc', self.mod.new_site(), 0, [], [], [], [])),
               ('assign', 0, ('var', self.LEAF))]
        for v, n in self.params:
            if n in SCALAR_PARAMS:
                out.append(('assign', v, ('var', self.LEAF)))
        for s in fn.body:
            self.stmt(out, s)
        return out


# ------------------------------------------------------------------ output
def coq_list(xs):
    return '[' + '; '.join(str(x) for x in xs) + ']'


def coq_expr(e):
    k = e[0]
    if k == 'var':
        return '(EVar %d)' % e[1]
    if k == 'load':
        return '(ELoad %d %d)' % (e[1], e[2])
    if k == 'reach':
        return '(EReach %s)' % coq_list(e[1])
    if k == 'choice':
        return '(EChoice %s %s)' % (coq_expr(e[1]), coq_expr(e[2]))
    if k == 'alloc':
        return '(EAlloc %d %d %s %s %s %s)' % (e[1], e[2], coq_list(e[3]), coq_list(e[4]), coq_list(e[5]), coq_list(e[6]))
    raise AssertionError(e)


def coq_stmts(sts, fid_of, ind):
    pad = ' ' * ind
    if not sts:
        return 'SSkip'
    items = []
    for s in sts:
        k = s[0]
        if k == 'assign':
            items.append('SAssign %d %s' % (s[1], coq_expr(s[2])))
        elif k == 'write':
            items.append('SWrite %d %d %d %s' % (s[1], s[2], s[3], coq_list(s[4])))
        elif k == 'if':
            items.append('SIf (%s)\n%s    (%s)' % (coq_stmts(s[1], fid_of, ind + 4), pad, coq_stmts(s[2], fid_of, ind + 4)))
        elif k == 'loop':
            items.append('SLoop (%s)' % coq_stmts(s[1], fid_of, ind + 4))
        elif k == 'call':
            items.append('SCall %d %d %s' % (s[1], fid_of[s[2]], coq_list(s[3])))
        else:
            raise AssertionError(s)
    if len(items) == 1:
        return items[0]
    return 'seq [\n' + pad + '  ' + (';\n' + pad + '  ').join(items) + ']'


def count(sts):
    n = 0
    for s in sts:
        n += 1
        if s[0] == 'if':
            n += count(s[1]) + count(s[2])
        elif s[0] == 'loop':
            n += count(s[1])
    return n


def check_acyclic(calls):
    state = {}
    def visit(f, path):
        if state.get(f) == 2:
            return
        if state.get(f) == 1:
            raise Unsupported('recursion among EoN functions: %s' % ' -> '.join(path + [f]))
        state[f] = 1
        for g in sorted(calls.get(f, ())):
            visit(g, path + [f])
        state[f] = 2
    for f in calls:
        visit(f, [])


def depth_of(calls):
    memo = {}
    def d(f):
        if f not in memo:
            memo[f] = 1 + max([d(g) for g in calls.get(f, ())] or [0])
        return memo[f]
    return max(d(f) for f in calls) if calls else 0


def main():
    ap = argparse.ArgumentParser()
    ap.add_argument('--repo', default=os.environ.get('EON_REPO', '/repo'))
    ap.add_argument('-o', default=os.path.join(os.path.dirname(os.path.dirname(os.path.abspath(__file__))), 'coq', 'Gen', 'Effects.v'))
    ap.add_argument('--json', default=None, help='also write the function table (names, lines, params) as JSON')
    a = ap.parse_args()
    mod = Module()
    try:
        mod.load(os.path.join(a.repo, 'EoN', 'simulation.py'), True)
        mod.load(os.path.join(a.repo, 'EoN', 'analytic.py'), True)
        mod.load(os.path.join(a.repo, 'EoN', '__init__.py'), False)
        fid_of = {n: i + 1 for i, n in enumerate(mod.order)}
        handlers = find_handlers(mod)
        bodies = {}
        calls = {}
        for n in mod.order:
            f = Fun(mod, n, fid_of, handlers)
            bodies[n] = (f, f.translate())
            calls[n] = f.calls
        check_acyclic(calls)
        dep = depth_of(calls)
        if dep > 7:
            raise Unsupported('call depth %d exceeds the checker fuel' % dep)
    except Unsupported as e:
        sys.stderr.write('effects2v: %s\n' % e)
        return 3
    except SyntaxError as e:
        sys.stderr.write('effects2v: cannot parse: %s\n' % e)
        return 3
    L = []
    L.append('(* GENERATED by translate/effects2v.py from %s/EoN/{simulation,analytic,__init__}.py -- do not edit.' % a.repo)
    L.append('   Effect skeleton of every module-level function (aliasing and mutation only).')
    L.append('   SCALAR_PARAMS (rebound to the immutable placeholder on entry): %s' % ' '.join(sorted(SCALAR_PARAMS)))
    L.append('   MUTATING_METHODS: %s' % ' '.join(sorted(MUTATING_METHODS)))
    L.append('   MUTATING_FUNCS: %s' % ' '.join(sorted(MUTATING_FUNCS)))
    L.append('   BULK_STORE (store everything reachable from the arguments): %s' % ' '.join(sorted(BULK_STORE)))
    L.append('   REFUSED_KEYWORDS of library calls: %s;  MAX_POSITIONAL: %s' % (' '.join(sorted(REFUSED_KEYWORDS)), ' '.join('%s<=%d' % kv for kv in sorted(MAX_POSITIONAL.items()))))
    L.append('   (every table entry is validated against the installed libraries on every run by harness/c19_tables.py)')
    L.append('   queue handlers: %s' % ' '.join(handlers))
    for n in mod.notes:
        L.append('   note: %s' % n.replace('*)', '* )'))
    L.append('*)')
    L.append('From Coq Require Import List NArith String.')
    L.append('Require Import EoNV.Model.Effects.')
    L.append('Import ListNotations.')
    L.append('Open Scope string_scope.')
    L.append('Open Scope N_scope.')
    L.append('')
    table = []
    for n in mod.order:
        f, body = bodies[n]
        i = fid_of[n]
        L.append('(* %s:%d %s  [%d statements, %d variables] *)' % (f.file, f.node.lineno, n, count(body), f.nvars))
        L.append('Definition f%d_body : stmt :=\n  %s.' % (i, coq_stmts(body, fid_of, 2)))
        L.append('Definition f%d : fundef := mkfun %d "%s" [%s] %s f%d_body.' % (
            i, i, n, '; '.join('(%d, "%s")' % p for p in f.params), 'true' if f.public else 'false', i))
        L.append('')
        table.append({'id': i, 'name': n, 'file': f.file, 'line': f.node.lineno, 'public': f.public,
                      'params': [p[1] for p in f.params], 'statements': count(body), 'calls': sorted(f.calls)})
    L.append('Definition eon_program : program :=\n  [%s].' % '; '.join('f%d' % fid_of[n] for n in mod.order))
    os.makedirs(os.path.dirname(a.o), exist_ok=True)
    txt = '\n'.join(L) + '\n'
    old = open(a.o).read() if os.path.exists(a.o) else None
    if old != txt:
        open(a.o, 'w').write(txt)
    NCH = 6
    gd = os.path.dirname(a.o)
    for k in range(NCH):
        t = ('(* GENERATED by translate/effects2v.py: chunk %d of %d of the C19 obligation *)\n'
             'From Coq Require Import List.\nRequire Import EoNV.Model.Effects.\nRequire Import EoNV.Gen.Effects.\n'
             'Lemma oblig_%d : forallb (ok_entry eon_program) (chunk_of %d %d 0 (entry_points eon_program)) = true.\n'
             'Proof. vm_compute. reflexivity. Qed.\n') % (k, NCH, k, NCH, k)
        pth = os.path.join(gd, 'EffectsOblig%d.v' % k)
        if not os.path.exists(pth) or open(pth).read() != t:
            open(pth, 'w').write(t)
    if a.json:
        import json
        json.dump({'functions': table, 'notes': mod.notes, 'handlers': handlers, 'sites': mod.site}, open(a.json, 'w'), indent=1)
    sys.stderr.write('effects2v: %d functions, %d statements, %d sites, %d notes -> %s\n' % (
        len(mod.order), sum(t['statements'] for t in table), mod.site, len(mod.notes), a.o))
    return 0


if __name__ == '__main__':
    sys.exit(main())
